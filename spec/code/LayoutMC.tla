------------------------------- MODULE LayoutMC -------------------------------
(* Model-checking instance of LayoutImpl.  The .cfg picks among the domains      *)
(* below (checks/c10.py rewrites it per run).                                    *)
EXTENDS LayoutImpl

OrdersStd  == {-1, 0, 1}                      \* with ids as tie-break this gives "-1, 0, 0, 1" situations
OrdersWide == {MinInt, -1, 0, 1, MaxInt}      \* ties with .text and with .addrtab
OrdersTab  == {-1, 0, MaxInt}
AlignsStd  == {0, 1, 2, 8, 16, 64}
AlignsSmall == {1, 8, 64}
AlignsTiny == {1, 16}
AlignsBig  == {0, 1, 2, 8, 16, 64, 4096, 65536}
BufsStd    == {0, 1, 5, 16}
BufsSmall  == {0, 5}
VSizesStd  == {0, 3, 40}
VSizesSmall == {0, 40}
TextStd    == {0, 1, 5, 16}
TextSmall  == {0, 5}
ATNone     == {}
ATStd      == {8, 16}
FlagsAll   == {0, 1, 2, 3}
=============================================================================
