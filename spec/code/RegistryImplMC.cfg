SPECIFICATION ISpec
CONSTANTS
  PrimeArr <- MCPrimes
  INames <- MCINames
  ITypes = {0, 1, 2, 4}
  IParents <- MCIParents
  MaxNamed = 5
  MaxOpsI = 0
  GrowBug = FALSE
  MaxLabelName = 2
INVARIANT IInv
PROPERTY RefinesContract
VIEW IView
