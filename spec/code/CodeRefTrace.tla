----------------------------- MODULE CodeRefTrace ------------------------------
(* Trace validation for C03 / C04: traces recorded by harness/coderef.cpp from the real assemblers and CodeHolder *)
(* are accepted iff they are behaviours of the contract CodeRef.tla.                                             *)
EXTENDS CodeRef, TraceLib

VARIABLE l
tvars == <<arch, base, secs, cur, labels, refs, phase, bad, seen, atab, l>>

T == TraceLog
Ev == T[l]
IsEv(e) == l <= Len(T) /\ Ev.e = e /\ l' = l + 1

TInit == /\ arch = "x64" /\ base = <<0, 0>> /\ secs = <<>> /\ cur = 1 /\ labels = <<>> /\ refs = <<>>
         /\ phase = "emit" /\ bad = {} /\ seen = {} /\ atab = [present |-> FALSE, off |-> <<0, 0>>, bytes |-> <<>>]
         /\ l = 1 /\ InitProgress

TReset == IsEv("Reset") /\ CReset(Ev.arch, Ev.base)
TLabel == IsEv("Label") /\ Ev.valid /\ NewLabel(Ev.l, Ev.unres)
TSection == IsEv("Section") /\ NewSection(Ev.s, Ev.align)
TSwitch == IsEv("Switch") /\ Ev.r = "Ok" /\ Switch(Ev.s)
TData == IsEv("Data") /\ Ev.r = "Ok" /\ UnresPlausible(Ev.unres) /\ Data(Ev.sec, Ev.at, Ev.len, Ev.n)
TAlign == IsEv("Align") /\ Ev.r = "Ok" /\ Align(Ev.sec, Ev.at, Ev.len, Ev.al)
TAlignRefused == IsEv("Align") /\ Ev.r # "Ok" /\ Ev.len = 0 /\ UNCHANGED cvars
(* a bind that reports InvalidDisplacement has bound the label; the reference that did not fit stays counted *)
TBindOk == IsEv("Bind") /\ Ev.r \in {"Ok", "InvalidDisplacement"} /\ BindOk(Ev.l, Ev.sec, Ev.off, Ev.unres)
TBindRefused == IsEv("Bind") /\ Ev.r \notin {"Ok", "InvalidDisplacement"} /\ BindRefused(Ev.l)

RefRec == [target |-> <<0, 0>>, form |-> 0, kind |-> Ev.kind, l |-> Ev.l, addend |-> Ev.addend, sec |-> Ev.sec, at |-> Ev.at, len |-> Ev.len, immsz |-> Ev.immsz,
           b |-> IF "b" \in DOMAIN Ev THEN Ev.b ELSE Ev.l,
           immediate |-> IF Ev.kind = "embeddelta"
                           THEN Lab(Ev.l).bound /\ Lab(Ev.b).bound /\ Lab(Ev.l).sec = Lab(Ev.b).sec ELSE FALSE]
TRefOk == /\ IsEv("Ref") /\ Ev.r = "Ok" /\ Ev.i = Len(refs) + 1
          /\ (Ev.kind \in {"embedlabel", "embeddelta"} => Ev.len = (IF Ev.size = 0 THEN (IF arch = "x86" THEN 4 ELSE 8) ELSE Ev.size))
          /\ RefOk(RefRec, Ev.sec, Ev.at)
TRefRefused == IsEv("Ref") /\ Ev.r # "Ok" /\ RefRefused(Ev.len)
AbsRec == [kind |-> Ev.kind, l |-> 0, addend |-> 0, sec |-> Ev.sec, at |-> Ev.at, len |-> Ev.len, immsz |-> 0, b |-> 0,
           immediate |-> FALSE, target |-> Ev.target, form |-> Ev.form]
TAbsOk == IsEv("AbsRef") /\ Ev.r = "Ok" /\ Ev.i = Len(refs) + 1 /\ RefOk(AbsRec, Ev.sec, Ev.at)
(* In 32-bit mode with the base address known every 32-bit target of jmp/call/jcc rel32 is representable (the displacement *)
(* wraps modulo 2^32), so such a reference must not be refused.                                                          *)
TAbsRefused == /\ IsEv("AbsRef") /\ Ev.r # "Ok" /\ RefRefused(Ev.len)
               /\ ~(arch = "x86" /\ Ev.kind \in {"absjmp", "absjcc"} /\ Ev.bk)
TReflatten == IsEv("Reflatten") /\ Reflattened(Ev.offs, Ev.unres)
(* what JitRuntime::add installed is exactly the relocated image *)
TAddrTab == IsEv("AddrTab") /\ AddrTable([present |-> Ev.present, off |-> Ev.off, bytes |-> Ev.bytes])

TFlatten == IsEv("Flatten") /\ Ev.r = "Ok" /\ Flattened(Ev.offs)
TResolve == IsEv("Resolve") /\ Resolved(Ev.unres)
TRelocate == IsEv("Relocate") /\ (Ev.install /\ Ev.r = "Ok" => Ev.equal) /\ Relocated(Ev.base, Ev.r = "Ok")
TSite == IsEv("Site") /\ Site(Ev.i, Ev.bytes)
TEnd == IsEv("End") /\ Finished(Ev.unres)

TNext == TReset \/ TLabel \/ TSection \/ TSwitch \/ TData \/ TAlign \/ TAlignRefused \/ TBindOk \/ TBindRefused \/ TRefOk \/ TRefRefused
         \/ TFlatten \/ TResolve \/ TRelocate \/ TSite \/ TEnd \/ TAbsOk \/ TAbsRefused \/ TReflatten \/ TAddrTab
TSpec == TInit /\ [][TNext]_tvars

Progress == NoteProgress(l)
TraceAccepted == Accepted(Len(T))
=============================================================================
