------------------------------ MODULE RegistryMC ------------------------------
(* Model checking of the registry contract (X02): every sequence of API calls over a small alphabet, every    *)
(* admissible report of every call, all invariants of Registry.tla in every reachable state.  The registry is *)
(* kept finite by the contract's own limits (MaxLabels, MaxSections, MaxRelocs: the kTooMany* refusals are    *)
(* reached) and by state constraints on the unbounded parts.  `hist` records the calls (not the results) and *)
(* is exported as a script that the harness replays on the real CodeHolder.                                   *)
EXTENDS Registry, TLC, Json

CONSTANTS Groups,     \* which API groups are explored: subset of {"life", "label", "bind", "fixup", "sect", "addr", "reloc", "emit", "resize"}
          WithFaults, \* explore injected allocation failures
          MaxOps,     \* bound on the history length (0 = unbounded, state space bounded by the limits only)
          MaxFix, MaxAddr, Emitters,
          LNames, LTypes, LParents   \* alphabet of the label calls (MCNames / MCNamesLite ...)

VARIABLES hist
mvars == <<inited, base, eh, lg, att, labels, nmap, sects, order, relocs, atsec, atab, fix, bb, hist>>

(* label names: empty, "a", "b", maximal length ("ab": MaxLabelName = 2), too long, and one with an embedded NUL *)
MCNames == {<<>>, <<1>>, <<2>>, <<1, 2>>, <<1, 1, 1>>, <<1, 0, 2>>}
MCNamesLite == {<<>>, <<1>>, <<1, 0, 2>>}
MCTypes == 0 .. 4
MCTypesLite == {0, 1, 2}
MCParentsLite == {-1, 0}
MCOrderMin == -1000
MCOrderMax == 1000
MCParents == {-1, 0, 1, 9}
MCIds == -1 .. MaxLabels
MCErrs == {"Ok", "OutOfMemory", "InvalidArgument", "InvalidState", "InvalidArch", "NotInitialized", "AlreadyInitialized",
           "InvalidLabel", "TooManyLabels", "LabelAlreadyBound", "LabelAlreadyDefined", "LabelNameTooLong", "InvalidLabelName",
           "InvalidParentLabel", "InvalidSection", "TooManySections", "InvalidSectionName", "TooManyRelocations"}
MCSecNames == {<<>>, <<3>>, <<3, 3>>, <<3, 3, 3>>}          \* MaxSectionName = 2
MCAligns == {0, 4, 6}
MCOrders == {-1, 0, 5}
MCFaults == IF WithFaults THEN BOOLEAN ELSE {FALSE}
HCalls(S) == {<<>>} \cup {<<[h |-> h, err |-> x]>> : h \in 1 .. 2, x \in S \cup {"InvalidState"}}

(* candidate reports: "Ok", every error the contract admits for the call, one error it does not admit, and    *)
(* OutOfMemory; candidate ids: the next id and a wrong one.  (The contract actions decide which are enabled.)  *)
Cands(S, f) == {"Ok", "InvalidState"} \cup S \cup (IF f THEN {"OutOfMemory"} ELSE {})
IdCands(r, n) == IF r = "Ok" THEN {n, n + 1} ELSE {-1}

Rec(r) == hist' = IF MaxOps = 0 THEN hist ELSE Append(hist, r)
On(g) == g \in Groups

G(g) == g \in Groups /\ (MaxOps = 0 \/ Len(hist) < MaxOps)

(* one named action per API call, so that TLC's coverage report shows that each of them is taken *)
AInit == G("life") /\ \E b \in {-1, 4096}, envok \in BOOLEAN, f \in MCFaults : \E r \in Cands({"AlreadyInitialized", "InvalidArgument"}, f) :
           Init(envok, b, r, f) /\ Rec([op |-> "init", envok |-> envok, base |-> b, fault |-> f])
AReinit == G("life") /\ \E f \in MCFaults : \E r \in Cands({"NotInitialized"}, f) : Reinit(r, f) /\ Rec([op |-> "reinit", fault |-> f])
AResetH == G("life") /\ ResetHolder /\ Rec([op |-> "reset"])
ASetEH == G("life") /\ \E h \in 0 .. 2 : SetErrorHandler(h) /\ Rec([op |-> "seteh", h |-> h])
ASetLG == G("life") /\ \E g \in 0 .. 1 : SetLogger(g) /\ Rec([op |-> "setlg", g |-> g])

AAttach == G("emit") /\ \E e \in Emitters : \E r \in Cands({"InvalidArch", "NotInitialized"}, FALSE) : Attach(e, e # 3, r, FALSE) /\ Rec([op |-> "attach", em |-> e])
ADetach == G("emit") /\ \E e \in Emitters : \E r \in Cands({}, FALSE) : Detach(e, r) /\ Rec([op |-> "detach", em |-> e])
AELabel == G("emit") /\ \E e \in Emitters, id \in {-1, Len(labels)}, errs \in HCalls({"TooManyLabels"}) :
             ENewLabel(e, id, errs, FALSE) /\ Rec([op |-> "elabel", em |-> e])
AENamed == G("emit") /\ \E e \in Emitters, n \in {<<>>, <<1>>}, t \in {1, 2}, p \in {-1, 0} : \E id \in {-1, Len(labels)}, errs \in HCalls(NamedMust(n, t, p)) :
             ENewNamed(e, n, t, p, id, errs, FALSE) /\ Rec([op |-> "enamed", em |-> e, name |-> n, type |-> t, parent |-> p])
AELookup == G("emit") /\ \E e \in Emitters, n \in {<<1>>}, p \in {-1, 0} : \E r \in LookupSet(p, n) \cup {-1, 0} :
              ELookup(e, n, p, r) /\ Rec([op |-> "elookup", em |-> e, name |-> n, parent |-> p])
AEBindAsm == G("emit") /\ \E id \in {0, 1} : \E r \in Cands(BindMust(id, 0), FALSE) : \E errs \in HCalls({r}) :
               EBindAsm(1, id, 0, 7, r, errs) /\ Rec([op |-> "ebind", em |-> 1, id |-> id])
AEBindBuilder == G("emit") /\ \E id \in {0, 1} : \E r \in {"Ok", "InvalidLabel", "LabelAlreadyBound", "InvalidState"} : \E errs \in HCalls({r}) :
                   EBindBuilder(2, id, r, errs) /\ Rec([op |-> "ebind", em |-> 2, id |-> id])
AEValid == G("emit") /\ \E e \in Emitters, id \in {0, 5}, r \in BOOLEAN : EIsValid(e, id, r) /\ Rec([op |-> "evalid", em |-> e, id |-> id])

ALabel == G("label") /\ \E f \in MCFaults : \E r \in Cands({"TooManyLabels"}, f) : \E id \in IdCands(r, Len(labels)) :
            NewLabel(r, id, f) /\ Rec([op |-> "label", fault |-> f])
ANamed == G("label") /\ \E n \in LNames, t \in LTypes, p \in LParents, f \in MCFaults :
            \E r \in Cands(NamedMust(Eff(n), t, p) \cup NamedMay(n, t, p), f) : \E id \in IdCands(r, Len(labels)) :
              NewNamed(n, t, p, r, id, f) /\ Rec([op |-> "named", name |-> n, type |-> t, parent |-> p, fault |-> f])
ALookup == G("label") /\ \E n \in LNames, p \in LParents : \E r \in LookupSet(p, Eff(n)) \cup {-1, 0} :
             LookupByName(n, p, r) /\ Rec([op |-> "lookup", name |-> n, parent |-> p])

ABind == G("bind") /\ \E id \in {0, 1, 9}, s \in {0, 1, 9}, o \in {3} : \E r \in Cands(BindMust(id, s), FALSE) :
           Bind(id, s, o, r) /\ Rec([op |-> "bind", id |-> id, sec |-> s, off |-> o])

AFixup == G("fixup") /\ \E id \in {0, 1}, s \in {0, 1}, ok \in BOOLEAN, f \in MCFaults :
            Len(fix) < MaxFix /\ NewFixup(id, s, ok, f) /\ Rec([op |-> "fixup", id |-> id, sec |-> s, fault |-> f])
AResolve == G("fixup") /\ \E r \in {"Ok", "InvalidState"} : ResolveCross(r) /\ Rec([op |-> "resolve"])
AFlatten == G("fixup") /\ (\A i \in DOMAIN sects : i > 1 => sects[i].off = -1)
            /\ Flatten("Ok", [i \in 1 .. Len(sects) |-> (i - 1) * 64], [i \in 1 .. Len(sects) |-> sects[i].vsize]) /\ Rec([op |-> "flatten"])

ASection == G("sect") /\ \E n \in MCSecNames, a \in MCAligns, o \in MCOrders, f \in MCFaults : \E r \in Cands(SecMust(n, a), f) : \E id \in IdCands(r, Len(sects)) :
              NewSection(n, 2, a, o, r, id, f) /\ Rec([op |-> "section", name |-> n, flags |-> 2, align |-> a, order |-> o, fault |-> f])
ASecByName == G("sect") /\ \E n \in MCSecNames \cup {TextName, AddrTabName}, r \in -1 .. MaxSections : SectionByName(n, r) /\ Rec([op |-> "secbyname", name |-> n])

AEnsure == G("addr") /\ \E r \in -1 .. MaxSections, f \in MCFaults : EnsureAddrTab(r, f) /\ Rec([op |-> "ensure", fault |-> f])
AAddAddr == G("addr") /\ \E a \in 1 .. MaxAddr, f \in MCFaults : \E r \in Cands({"TooManySections"}, f) : AddAddr(a, r, f) /\ Rec([op |-> "addaddr", a |-> a, fault |-> f])

AReloc == G("reloc") /\ \E t \in {1, 3}, f \in MCFaults : \E r \in Cands({"TooManyRelocations"}, f) : \E id \in IdCands(r, Len(relocs)) :
            NewReloc(t, r, id, f) /\ Rec([op |-> "reloc", type |-> t, fault |-> f])
AResize == G("resize") /\ \E s \in {0, 1} : s < Len(sects) /\ sects[s + 1].bsize = 0 /\ Resize(s, 64) /\ Rec([op |-> "resize", sec |-> s])

Next == AInit \/ AReinit \/ AResetH \/ ASetEH \/ ASetLG \/ AAttach \/ ADetach \/ AELabel \/ AENamed \/ AELookup \/ AEBindAsm \/ AEBindBuilder
        \/ AEValid \/ ALabel \/ ANamed \/ ALookup \/ ABind \/ AFixup \/ AResolve \/ AFlatten \/ ASection \/ ASecByName \/ AEnsure
        \/ AAddAddr \/ AReloc \/ AResize

(* a model started on an initialised holder (the "life" group starts from the uninitialised one) *)
MInit == IF On("life") THEN RInit /\ hist = <<>>
         ELSE /\ inited = TRUE /\ base = -1 /\ eh = 0 /\ lg = 0 /\ att = <<>> /\ labels = <<>> /\ nmap = {}
              /\ sects = <<TextSection>> /\ order = <<0>> /\ relocs = <<>> /\ atsec = -1 /\ atab = {} /\ fix = <<>> /\ bb = {}
              /\ hist = <<>>
Spec == MInit /\ [][Next]_mvars

View == rvars
(* behaviour export.  ExportStates (with VIEW View): the history that first reached each distinct registry    *)
(* state - one script per reachable state of the bounded model.  ExportLong: histories of length MaxOps (used *)
(* with TLC's simulation mode, which also takes the refused calls).                                          *)
ExportStates == PrintT(<<"BEH", ToJson(hist)>>)
ExportLong == (MaxOps > 0 /\ Len(hist) = MaxOps) => PrintT(<<"BEH", ToJson(hist)>>)

(* ---- reachability controls: each must be VIOLATED (the invariants above are not vacuous) ---- *)
NeverTwoNamed == Cardinality(nmap) < 2
NeverFull == Len(labels) < MaxLabels
NeverLocalPair == ~\E a, b \in nmap : a[2] = b[2] /\ a[1] # b[1] /\ a[1] # -1 /\ b[1] # -1
=============================================================================
