------------------------------ MODULE DataEmitMC ------------------------------
(* Model-checking constants for DataEmitImpl: small argument sets chosen so that every branch of every call   *)
(* is reachable within a few steps (valid / invalid alignments and modes, gaps of every NOP length, type ids   *)
(* of every size class and invalid ones, size_t overflow, fixed buffers that are too small, rewinding).       *)
EXTENDS DataEmitImpl

W(n) == WOf(n)
Huge32 == <<0, 0, 0, 0, 1, 0, 0, 0>>          \* 2^32
Huge62 == <<0, 0, 0, 0, 0, 0, 0, 64>>         \* 2^62
Huge63 == <<0, 0, 0, 0, 0, 0, 0, 128>>        \* 2^63
HugeMax == <<255, 255, 255, 255, 255, 255, 255, 255>>

ArchsAll == {"x86", "x64", "a64"}
DatasStd == {<<>>, <<7>>, <<1, 2>>, <<1, 2, 3, 4>>, <<9, 8, 7, 6, 5, 4, 3, 2>>}
DatasGap == {<<7>>, <<1, 2, 3>>, <<1, 2, 3, 4, 5, 6, 7>>}
AlignsStd == {0, 1, 2, 3, 4, 8, 16, 64, 128}
AlignsGap == {4, 16, 64}
ModesStd == {0, 1, 2, 3}
TidsStd == {0, 32, 35, 37, 100, 101}
TidsFew == {35, 33}
CountsStd == {W(0), W(1), W(3), Huge32, HugeMax}
CountsFew == {W(1), W(2)}
PoolsStd == {<<0, <<>>>>, <<1, <<5>>>>, <<4, <<1, 2, 3, 4>>>>, <<8, <<1, 2, 3, 4, 5, 6, 7, 8, 8, 7, 6, 5, 4, 3, 2, 1>>>>}
LabelSizesStd == {0, 1, 2, 3, 4, 8, 16}
LabelSizesFew == {0, 1}
OffsetsStd == {0, 1, 3, 5, 9000}
SecKindsStd == {"dyn", "fix", "res"}
ReserveStd == {4, 24}
None == {}
DatasAlign == {<<7>>, <<1, 2, 3>>, <<1, 2, 3, 4, 5, 6, 7, 8, 9, 10, 11>>}
AlignsAlign == {2, 16, 64, 48}
ModesAlign == {0, 1, 2}
OffsetsAlign == {0, 1, 6}
ReserveAlign == {8, 40}
DatasLabel == {<<7>>, <<1, 2, 3, 4, 5>>}
AlignsLabel == {8}
ModesLabel == {0}
PoolsLabel == {<<0, <<>>>>, <<4, <<1, 2, 3, 4>>>>, <<8, <<1, 2, 3, 4, 5, 6, 7, 8, 8, 7, 6, 5, 4, 3, 2, 1>>>>}
LabelSizesLabel == {0, 1, 3}
OffsetsLabel == {0, 2}
ReserveLabel == {6, 300}
DatasBig == {<<7>>} \cup {[i \in 1 .. 130 |-> i]}

ASSUME PrintT(<<"NOPTAB", NopTab, A64Nop>>)
=============================================================================
