---------------------------- MODULE LifecycleTrace -----------------------------
(* Trace validation for C16.  A trace recorded from real CodeHolders / emitters      *)
(* (harness/lifecycle.cpp) is accepted iff every call is a step of Lifecycle.tla and  *)
(* the logged results satisfy the property after every step:                          *)
(*   ResultMatches            the call succeeded exactly when the API says it does    *)
(*   ProjectionMatches        projection of all real objects = projection of the      *)
(*                            abstract machine (attachment lists in both directions,  *)
(*                            code pointers, effective logger / handler, "as fresh"   *)
(*                            counts and private state wherever nothing was generated) *)
(*   ResetIsInit              the same, stated for the holder that was just reset     *)
(*   ReinitIsFresh            the same, stated for the holder just reinitialised      *)
(*   OutputIsFunctionOfCalls  digest(recycled objects) = digest(fresh objects) for    *)
(*                            the same generate sequence, and equal to the digest any *)
(*                            earlier execution (other configuration: static arena,   *)
(*                            logger, validation, perturbed heap) logged for it       *)
(*   HandlerIsCurrent         an error is only ever reported to the handler in effect *)
EXTENDS Lifecycle, TraceLib

(* keys of /verif/KNOWN_FINDINGS.txt lines for C16; a listed key excuses exactly the fields named below *)
CONSTANT Known
KName == "new_section:name_bytes_after_name_uninitialised"       \* section names are compared up to the name only
KJa == "compiler:jump_annotations_survive_detach_reinit"         \* Compiler jump-annotation count is not compared
KEh == "run_passes:inherited_error_handler_becomes_own"          \* handler fields of an emitter that finalized while
                                                                 \* inheriting the holder's handler are not compared

VARIABLES l,         \* next line of the trace
          last,      \* the event consumed last
          lastok,    \* did the abstract machine accept that call
          fh, fe,    \* projections measured on fresh objects by this execution
          archid,    \* architecture of this execution
          basecfg,   \* was the holder initialised with a base address (init(env, base)) or JIT style (init(env))
          expected,  \* ghost: <<arch, base?, generate sequence>> -> digest logged first
          taint      \* emitters whose run_passes() ran while they inherited a handler (see KEh)

tvars == <<hinit, hlog, heh, att, em, gen, kinds, hist, l, last, lastok, fh, fe, archid, basecfg, expected, taint>>

T == TraceLog
Ev == T[l]
IsEv(e) == l <= Len(T) /\ Ev.e = e /\ l' = l + 1 /\ last' = Ev /\ UNCHANGED hist
Same == UNCHANGED <<fh, fe, archid, basecfg, expected>>
KeepTaint == UNCHANGED taint

TInit == /\ MInit(<<>>) /\ hist = <<>> /\ l = 1 /\ InitProgress
         /\ last = [e |-> "None"] /\ lastok = TRUE /\ fh = <<>> /\ fe = <<>> /\ archid = 0 /\ basecfg = TRUE /\ expected = <<>> /\ taint = {}

(* a new execution: new objects *)
TReset == /\ IsEv("Reset")
          /\ hinit' = [h \in H |-> FALSE] /\ hlog' = [h \in H |-> FALSE] /\ heh' = [h \in H |-> FALSE]
          /\ att' = [h \in H |-> <<>>] /\ gen' = [h \in H |-> <<>>]
          /\ kinds' = Ev.kinds
          /\ em' = [e \in 1 .. Len(Ev.kinds) |-> FreshEm]
          /\ fh' = Ev.fh /\ fe' = Ev.fe /\ archid' = Ev.cfg.archid /\ basecfg' = Ev.cfg.base
          /\ lastok' = TRUE /\ taint' = {}
          /\ UNCHANGED expected

Key(h) == <<archid, basecfg, gen'[h]>>
TGen == /\ IsEv("Gen")
        /\ Ev.em \in E /\ Ev.p \in 1 .. 9
        /\ GenLegal(Ev.em, Ev.p)
        /\ Ev.h = em[Ev.em].code
        /\ Gen(Ev.em, Ev.p)
        /\ taint' = IF kinds[Ev.em] = "compiler" /\ ~em[Ev.em].owneh /\ EffEh(Ev.em) # 0 THEN taint \cup {Ev.em} ELSE taint
        /\ lastok' = TRUE
        /\ expected' = IF Key(Ev.h) \in DOMAIN expected THEN expected ELSE expected @@ (Key(Ev.h) :> Ev.fresh)
        /\ UNCHANGED <<fh, fe, archid, basecfg>>

TSeal == /\ IsEv("Seal")
         /\ SealLegal(Ev.h)
         /\ Seal(Ev.h) /\ KeepTaint
         /\ lastok' = TRUE
         /\ expected' = IF Key(Ev.h) \in DOMAIN expected THEN expected ELSE expected @@ (Key(Ev.h) :> Ev.fresh)
         /\ UNCHANGED <<fh, fe, archid, basecfg>>

Call(name, ok, act) == IsEv(name) /\ lastok' = ok /\ act /\ Same
Untaint(e) == taint' = taint \ {e}

TNext ==
  \/ TReset
  \/ TGen
  \/ TSeal
  \/ KeepTaint /\ Call("Init", InitOk(Ev.h), Init(Ev.h))
  \/ KeepTaint /\ Call("ResetH", TRUE, ResetH(Ev.h))
  \/ KeepTaint /\ Call("Reinit", ReinitOk(Ev.h), Reinit(Ev.h))
  \/ KeepTaint /\ Call("Attach", AttachOk(Ev.em, Ev.h), Attach(Ev.em, Ev.h))
  \/ KeepTaint /\ Call("Detach", DetachOk(Ev.em, Ev.h), Detach(Ev.em, Ev.h))
  \/ KeepTaint /\ Call("HLog", TRUE, HLog(Ev.h, Ev.on))
  \/ KeepTaint /\ Call("HEh", TRUE, HEh(Ev.h, Ev.on))
  \/ (l <= Len(T) /\ Ev.e = "ELog" /\ em[Ev.em].alive /\ KeepTaint /\ Call("ELog", TRUE, ELog(Ev.em, Ev.on)))
  \/ (l <= Len(T) /\ Ev.e = "EEh" /\ em[Ev.em].alive /\ Untaint(Ev.em) /\ Call("EEh", TRUE, EEh(Ev.em, Ev.on)))
  \/ (l <= Len(T) /\ Ev.e = "Fail" /\ em[Ev.em].alive /\ KeepTaint /\ Call("Fail", FALSE, Fail(Ev.em)))
  \/ (l <= Len(T) /\ Ev.e = "Destroy" /\ em[Ev.em].alive /\ Untaint(Ev.em) /\ Call("Destroy", TRUE, Destroy(Ev.em)))
  \/ (l <= Len(T) /\ Ev.e = "Create" /\ ~em[Ev.em].alive /\ Untaint(Ev.em) /\ Call("Create", TRUE, Create(Ev.em)))
  \/ (IsEv("End") /\ lastok' = TRUE /\ DestroyHolders /\ Same /\ KeepTaint)

TSpec == TInit /\ [][TNext]_tvars

(* ---- the property over the logged results ---- *)
HasR == "r" \in DOMAIN last
ResultMatches == HasR => ((last.r = "Ok") = lastok)

Observed == "H" \in DOMAIN last
AllHoldersOK == \A h \in H : HolderOK(h, last.H[h], fh, archid)
RelaxEh(e) == KEh \in Known /\ e \in taint
RelaxJa == KJa \in Known
AllEmittersOK == \A e \in E : EmitterOK(e, last.E[e], fe, archid, RelaxEh(e), RelaxJa)
ProjectionMatches == Observed => AllHoldersOK /\ AllEmittersOK

ResetIsInit == (last.e = "ResetH") =>
                 /\ HolderOK(last.h, last.H[last.h], fh, archid)
                 /\ ~last.H[last.h].init /\ last.H[last.h].cnt = fh[1] /\ last.H[last.h].att = <<>> /\ last.H[last.h].rev = <<>>
                 /\ \A e \in E : last.E[e].alive => last.E[e].code # last.h
ReinitIsFresh == (last.e = "Reinit" /\ lastok) =>
                 /\ HolderOK(last.h, last.H[last.h], fh, archid)
                 /\ last.H[last.h].cnt = fh[2]
                 /\ \A e \in E : em[e].code = last.h => PrivEq(kinds[e], last.E[e].priv, fe[KindIx(kinds[e])][2], RelaxJa)   \* Assembler: .text, offset 0

(* digest = <<sections, labels, relocations, address table, image, sections without their names>> *)
DigEq(a, b) == IF KName \in Known THEN \A i \in 2 .. 6 : a[i] = b[i] ELSE \A i \in 1 .. 5 : a[i] = b[i]
OutputIsFunctionOfCalls == (last.e \in {"Gen", "Seal"}) =>
                 /\ DigEq(last.dig, last.fresh)                     \* recycled objects = fresh objects, same process
                 /\ last.r = last.fr
                 /\ DigEq(last.dig, expected[<<archid, basecfg, gen[last.h]>>])   \* = what any earlier execution produced for these calls
                 /\ last.seq = gen[last.h]                          \* harness and machine agree on what "the calls" are

HandlerIsCurrent == (last.e = "Fail" /\ ~RelaxEh(last.em)) => \A i \in 1 .. Len(last.called) : last.called[i] = EffEh(last.em)

Progress == NoteProgress(l)
TraceAccepted == Accepted(Len(T))
=============================================================================
