SPECIFICATION TSpec
INVARIANT DInv
CONSTRAINT Progress
POSTCONDITION TraceAccepted
