------------------------------- MODULE Registry -------------------------------
(* X02 - contract of the CodeHolder *registry*: labels (ids, names, types, parents, binding), the name map,   *)
(* sections (by id / by name / by order), relocation entries, the address table, attached emitters, logger   *)
(* and error handler, reset / reinit.  asmjit/core/codeholder.h is the source of every clause; the doc       *)
(* comment that promises it is quoted next to each action.                                                    *)
(*                                                                                                            *)
(* Contract level: every action is parameterised by what the code REPORTED (error name `r`, returned id ...) *)
(* and is enabled exactly for the reports the documentation allows.  `f` says whether an allocation failure  *)
(* was injected during the call: only then may a call fail with OutOfMemory, and such a call may also succeed *)
(* (an implementation is free to survive a failed allocation, e.g. a hash table that could not grow).         *)
(* Failed calls change nothing: every refusal is `UNCHANGED rvars` (two documented exceptions, see AddAddr    *)
(* and Reinit).                                                                                               *)
(*                                                                                                            *)
(* Representation: ids are 0-based as in the API, TLA+ sequences are 1-based (label id i is labels[i+1]);     *)
(* -1 stands for Globals::kInvalidId / "none" / nullptr; names are sequences of byte values.                  *)
EXTENDS Integers, Sequences, FiniteSets

CONSTANTS
  MaxLabelName,    \* Globals::kMaxLabelNameSize   = 2048 "Maximum label or symbol size in bytes."
  MaxSectionName,  \* Globals::kMaxSectionNameSize = 35   "Maximum section name size."
  MaxLabels,       \* id space of labels      (2^32-1 in the code: "Label index overflow ... kTooManyLabels")
  MaxSections,     \* id space of sections    ("Too many sections (section index overflow)")
  MaxRelocs,       \* id space of relocations ("Relocation index overflow (too many relocations)")
  RegSize,         \* Environment::register_size(): alignment of '.addrtab' and size of one address slot
  OrderMin,        \* order of '.text'   (std::numeric_limits<int>::lowest())
  OrderMax,        \* order of '.addrtab' (std::numeric_limits<int32_t>::max())
  DupCheck         \* TRUE = the contract.  FALSE = negative control: duplicates of (parent, name) are let in

VARIABLES
  inited,   \* is_initialized()
  base,     \* base_address() or -1 (Globals::kNoBaseAddress)
  eh, lg,   \* attached ErrorHandler / Logger (0 = none)
  att,      \* attached emitters, attached_first() .. attached_last()
  labels,   \* Seq of [type, name, parent, sec, off]            label_entries()
  nmap,     \* set of <<parent, name, id>>                       what label_id_by_name() answers from
  sects,    \* Seq of [name, flags, align, order, off, vsize, bsize]   sections()
  order,    \* Seq of section ids                                sections_by_order()
  relocs,   \* Seq of reloc types                                reloc_entries()
  atsec,    \* id of '.addrtab' or -1                            address_table_section()
  atab,     \* set of addresses in the address table
  fix,      \* Seq of [l, sec]: unresolved fixups (reference to label l from section sec)
  bb        \* set of <<emitter, label id>>: labels bound through a Builder (node added, nothing bound yet)

rvars == <<inited, base, eh, lg, att, labels, nmap, sects, order, relocs, atsec, atab, fix, bb>>
lvars == <<labels, nmap>>

(* ------------------------------------------------------------------------------------------------------- *)
(* vocabulary                                                                                               *)
(* ------------------------------------------------------------------------------------------------------- *)
\* enum class LabelType
Anon == 0
Local == 1
Global == 2
External == 3

Range(s) == {s[i] : i \in DOMAIN s}
SetMin(S) == CHOOSE x \in S : \A y \in S : x <= y
Maxi(a, b) == IF a >= b THEN a ELSE b

(* "name_size: the length of `name` argument, or SIZE_MAX if `name` is a null terminated string" and           *)
(* "Label name is always null terminated, so you can use strlen() to get it, however, it's also cached":      *)
(* a name is a C string - the bytes before the first NUL.                                                     *)
NulAt(s) == {i \in 1 .. Len(s) : s[i] = 0}
HasNul(s) == NulAt(s) # {}
Eff(s) == IF HasNul(s) THEN SubSeq(s, 1, SetMin(NulAt(s)) - 1) ELSE s

ValidLabel(id) == id \in 0 .. Len(labels) - 1                 \* is_label_valid()
ValidSection(s) == s \in 0 .. Len(sects) - 1                  \* is_section_valid()
Lab(id) == labels[id + 1]
Sec(s) == sects[s + 1]
Bound(id) == ValidLabel(id) /\ Lab(id).sec # -1               \* is_label_bound(): "Returns false if the label_id is not valid"

Matches(p, n) == {t \in nmap : t[1] = p /\ t[2] = n}
(* "Returns a label id by name. If the named label doesn't exist Globals::kInvalidId is returned." *)
LookupSet(p, n) == IF Matches(p, n) = {} THEN {-1} ELSE {t[3] : t \in Matches(p, n)}

TextName == <<46, 116, 101, 120, 116>>                        \* ".text"
AddrTabName == <<46, 97, 100, 100, 114, 116, 97, 98>>         \* ".addrtab"
(* "Text section - always one part of a CodeHolder itself", flags kExecutable | kReadOnly | kBuiltIn,         *)
(* "Returns whether the section's offset has been already assigned. This is true for the first built-in       *)
(* .text section".                                                                                            *)
TextSection == [name |-> TextName, flags |-> 16387, align |-> 0, order |-> OrderMin, off |-> 0, vsize |-> 0, bsize |-> 0]
AddrTabSection == [name |-> AddrTabName, flags |-> 0, align |-> RegSize, order |-> OrderMax, off |-> -1, vsize |-> 0, bsize |-> 0]

ZeroOrPow2(a) == a = 0 \/ \E k \in 0 .. 30 : a = 2 ^ k

(* "sections_by_order(): sorted according to section order first, then section id" - a new section has the   *)
(* highest id, so it goes behind every section whose order is not greater.                                    *)
InsertByOrder(ord, ss, id, o) ==
  LET k == Cardinality({i \in 1 .. Len(ord) : ss[ord[i] + 1].order <= o})
  IN SubSeq(ord, 1, k) \o <<id>> \o SubSeq(ord, k + 1, Len(ord))

(* code_size(): "the minimum code size of all combined sections after applying minimum alignment" *)
RealSize(s) == Maxi(Sec(s).vsize, Sec(s).bsize)               \* Section::real_size()
AlignUp(x, a) == IF a <= 1 THEN x ELSE ((x + a - 1) \div a) * a
RECURSIVE Lay(_, _)
Lay(i, o) == IF i > Len(order) THEN o
             ELSE LET s == order[i] IN
                  IF RealSize(s) = 0 THEN Lay(i + 1, o) ELSE Lay(i + 1, AlignUp(o, Sec(s).align) + RealSize(s))
CodeSize == Lay(1, 0)

Attached(e) == e \in Range(att)

(* A refused call: it names an admissible error (or OutOfMemory when a failure was injected) and changes nothing. *)
Refused(r, allowed, f) == /\ r # "Ok"
                          /\ (r \in allowed \/ (f /\ r = "OutOfMemory"))
                          /\ UNCHANGED rvars

Empty == /\ inited' = FALSE /\ base' = -1 /\ eh' = 0 /\ lg' = 0 /\ att' = <<>>
         /\ labels' = <<>> /\ nmap' = {} /\ sects' = <<>> /\ order' = <<>> /\ relocs' = <<>>
         /\ atsec' = -1 /\ atab' = {} /\ fix' = <<>> /\ bb' = {}

RInit == /\ inited = FALSE /\ base = -1 /\ eh = 0 /\ lg = 0 /\ att = <<>>
         /\ labels = <<>> /\ nmap = {} /\ sects = <<>> /\ order = <<>> /\ relocs = <<>>
         /\ atsec = -1 /\ atab = {} /\ fix = <<>> /\ bb = {}

(* ------------------------------------------------------------------------------------------------------- *)
(* init / reinit / reset                                                                                    *)
(* ------------------------------------------------------------------------------------------------------- *)
(* "Initializes CodeHolder to hold code described by the given environment and base_address";                *)
(* "calling init() twice doesn't work and would return an error"; an invalid Environment is refused.         *)
Init(envok, b, r, f) ==
  \/ /\ r = "Ok" /\ ~inited /\ envok
     /\ inited' = TRUE /\ base' = b /\ sects' = <<TextSection>> /\ order' = <<0>>
     /\ UNCHANGED <<eh, lg, att, labels, nmap, relocs, atsec, atab, fix, bb>>
  \/ Refused(r, (IF inited THEN {"AlreadyInitialized"} ELSE {}) \cup (IF ~envok THEN {"InvalidArgument"} ELSE {}), f)

(* "Reinitializes CodeHolder with the same environment, cpu features, and base address as it had ... If the   *)
(* CodeHolder was not initialized, Error::kNotInitialized is returned ... after reinitialization you will get *)
(* a clean and ready for use CodeHolder, which was initialized the same way as before ... It won't detach     *)
(* Logger, ErrorHandler, nor attached emitters."  A reinit that runs out of memory has already dropped the    *)
(* old contents: it leaves the holder uninitialised, as reset() does.                                         *)
Reinit(r, f) ==
  \/ /\ r = "Ok" /\ inited
     /\ labels' = <<>> /\ nmap' = {} /\ sects' = <<TextSection>> /\ order' = <<0>> /\ relocs' = <<>>
     /\ atsec' = -1 /\ atab' = {} /\ fix' = <<>> /\ bb' = {}
     /\ UNCHANGED <<inited, base, eh, lg, att>>
  \/ /\ ~inited /\ Refused(r, {"NotInitialized"}, FALSE)
  \/ /\ inited /\ f /\ r = "OutOfMemory" /\ Empty

(* "Detaches all code-generators attached and resets the CodeHolder." *)
ResetHolder == Empty

(* ------------------------------------------------------------------------------------------------------- *)
(* attach / detach, logger, error handler                                                                   *)
(* ------------------------------------------------------------------------------------------------------- *)
(* "Attaches an emitter to this CodeHolder" / "Emitters can be only attached to initialized CodeHolder       *)
(* instances" / kInvalidArch "Invalid or incompatible architecture" / attaching twice to the same holder is  *)
(* "not error, but it's not recommended".  `compat`: the emitter supports the holder's architecture.          *)
Attach(e, compat, r, f) ==
  \/ /\ r = "Ok" /\ inited /\ compat /\ ~Attached(e)
     /\ att' = Append(att, e)
     /\ UNCHANGED <<inited, base, eh, lg, labels, nmap, sects, order, relocs, atsec, atab, fix, bb>>
  \/ /\ r = "Ok" /\ Attached(e) /\ UNCHANGED rvars
  \/ /\ ~Attached(e)
     /\ Refused(r, IF ~inited THEN {"InvalidArch", "NotInitialized", "InvalidState"} ELSE IF ~compat THEN {"InvalidArch"} ELSE {}, f)

(* "Detaches an emitter from this CodeHolder"; an emitter that is not attached to it: kInvalidState. *)
Detach(e, r) ==
  \/ /\ r = "Ok" /\ Attached(e)
     /\ att' = SelectSeq(att, LAMBDA x : x # e)
     /\ bb' = {t \in bb : t[1] # e}
     /\ UNCHANGED <<inited, base, eh, lg, labels, nmap, sects, order, relocs, atsec, atab, fix>>
  \/ /\ ~Attached(e) /\ Refused(r, {"InvalidState"}, FALSE)

(* "Attach an error handler to this CodeHolder" / "Resets the error handler to none." *)
SetErrorHandler(h) == /\ inited /\ eh' = h
                      /\ UNCHANGED <<inited, base, lg, att, labels, nmap, sects, order, relocs, atsec, atab, fix, bb>>
(* "Attaches a logger to CodeHolder and propagates it to all attached emitters." *)
SetLogger(g) == /\ inited /\ lg' = g
                /\ UNCHANGED <<inited, base, eh, att, labels, nmap, sects, order, relocs, atsec, atab, fix, bb>>

(* ------------------------------------------------------------------------------------------------------- *)
(* labels                                                                                                   *)
(* ------------------------------------------------------------------------------------------------------- *)
AnonLabel == [type |-> Anon, name |-> <<>>, parent |-> -1, sec |-> -1, off |-> 0]
LabelsOnly == UNCHANGED <<inited, base, eh, lg, att, sects, order, relocs, atsec, atab, fix, bb>>

(* "Creates a new anonymous label and return its id" - ids are dense: the new id is label_count(). *)
NewLabel(r, id, f) ==
  /\ inited
  /\ \/ /\ r = "Ok" /\ id = Len(labels) /\ Len(labels) < MaxLabels
        /\ labels' = Append(labels, AnonLabel) /\ UNCHANGED nmap /\ LabelsOnly
     \/ Refused(r, IF Len(labels) >= MaxLabels THEN {"TooManyLabels"} ELSE {}, f)

(* new_named_label_id(label_id_out, name, name_size, type, parent_id):                                        *)
(*  kInvalidLabelName   "Label must always be local if it's anonymous (without a name)" - only an anonymous   *)
(*                      label may have no name ("Global labels must have a name - not providing one is an     *)
(*                      error")                                                                               *)
(*  kLabelNameTooLong   "Label name is too long" (more than kMaxLabelNameSize bytes)                          *)
(*  kInvalidParentLabel "Parent id ... was either invalid or parent is not supported by the requested         *)
(*                      LabelType" / "parent_id: Parent id of a local label, otherwise it must be kInvalidId" *)
(*  kLabelAlreadyDefined "Label is already defined (named labels)" / "A name of a global label cannot repeat" *)
(*                      / "The names of local labels can conflict with names of other local labels that have  *)
(*                      a different parent"                                                                   *)
(*  kInvalidArgument    a `type` that is no LabelType                                                         *)
(* When several of these apply, any one of them may be reported.                                              *)
NamedMust(n, type, parent) ==
       (IF type \notin 0 .. 3 THEN {"InvalidArgument"} ELSE {})
  \cup (IF Len(n) = 0 /\ type # Anon THEN {"InvalidLabelName"} ELSE {})
  \cup (IF Len(n) > MaxLabelName THEN {"LabelNameTooLong"} ELSE {})
  \cup (IF type = Local /\ ~ValidLabel(parent) THEN {"InvalidParentLabel"} ELSE {})
  \cup (IF type \in {Anon, Global, External} /\ parent # -1 /\ Len(n) > 0 THEN {"InvalidParentLabel"} ELSE {})
  \cup (IF DupCheck /\ type \in 1 .. 3 /\ Len(n) > 0 /\ Matches(parent, n) # {} THEN {"LabelAlreadyDefined"} ELSE {})
  \cup (IF Len(labels) >= MaxLabels THEN {"TooManyLabels"} ELSE {})
(* Refusals the documentation leaves open (the call may just as well succeed): an unnamed anonymous label     *)
(* with a (useless) parent, and a name with an embedded NUL (refused, or cut at the NUL).                     *)
NamedMay(name, type, parent) ==
       (IF type = Anon /\ parent # -1 THEN {"InvalidParentLabel"} ELSE {})
  \cup (IF HasNul(name) THEN {"InvalidLabelName", "InvalidArgument"} ELSE {})

(* "Anonymous label that can optionally have a name, which is only used for debugging purposes ... the label  *)
(* itself cannot be queried by such name": an anonymous label never enters the name map.                      *)
NamedEffect(n, type, parent, id) ==
  /\ id = Len(labels)
  /\ labels' = Append(labels, [type |-> type, name |-> n, parent |-> IF type = Local THEN parent ELSE -1, sec |-> -1, off |-> 0])
  /\ nmap' = IF type \in 1 .. 3 THEN nmap \cup {<<parent, n, id>>} ELSE nmap
  /\ LabelsOnly

NewNamed(name, type, parent, r, id, f) ==
  LET n == Eff(name) IN
  /\ inited
  /\ \/ /\ r = "Ok" /\ NamedMust(n, type, parent) = {} /\ NamedEffect(n, type, parent, id)
     \/ Refused(r, NamedMust(n, type, parent) \cup NamedMay(name, type, parent), f)

(* label_id_by_name(name, name_size, parent_id): "If the named label doesn't exist Globals::kInvalidId is     *)
(* returned. In other words, this function doesn't create new labels".  Lookups return exactly the id that   *)
(* was created with that (parent, name).                                                                      *)
LookupResultOk(name, parent, r) == \/ r \in LookupSet(parent, Eff(name))
                                   \/ (HasNul(name) /\ r = -1)
LookupByName(name, parent, r) == /\ inited /\ LookupResultOk(name, parent, r) /\ UNCHANGED rvars

(* bind_label(label, section_id, offset): "Binds a label to a given section_id and offset";                   *)
(* kInvalidLabel "Attempt to use uninitialized label", kInvalidSection, kLabelAlreadyBound "Label is already  *)
(* bound" ("Attempt to bind the same label multiple times will return an error").  References from the same   *)
(* section are resolved by the bind, references from other sections stay unresolved.                          *)
BindMust(id, sec) ==
       (IF ~ValidLabel(id) THEN {"InvalidLabel"} ELSE {})
  \cup (IF ~ValidSection(sec) THEN {"InvalidSection"} ELSE {})
  \cup (IF Bound(id) THEN {"LabelAlreadyBound"} ELSE {})
BindEffect(id, sec, off) ==
  /\ labels' = [labels EXCEPT ![id + 1].sec = sec, ![id + 1].off = off]
  /\ fix' = SelectSeq(fix, LAMBDA x : ~(x.l = id /\ x.sec = sec))
  /\ UNCHANGED <<inited, base, eh, lg, att, nmap, sects, order, relocs, atsec, atab, bb>>
Bind(id, sec, off, r) ==
  /\ inited
  /\ \/ /\ r = "Ok" /\ BindMust(id, sec) = {} /\ BindEffect(id, sec, off)
     \/ Refused(r, BindMust(id, sec), FALSE)

(* new_fixup(le, section_id, offset, rel, format): "Creates a new label-link used to store information about  *)
(* yet unbound labels. Returns null if the allocation failed."  (caller's duty: valid label and section; a    *)
(* label bound to the same section needs no fixup)                                                            *)
NewFixup(id, sec, ok, f) ==
  /\ inited /\ ValidLabel(id) /\ ValidSection(sec) /\ (Bound(id) => Lab(id).sec # sec)
  /\ \/ /\ ok /\ fix' = Append(fix, [l |-> id, sec |-> sec])
        /\ UNCHANGED <<inited, base, eh, lg, att, labels, nmap, sects, order, relocs, atsec, atab, bb>>
     \/ /\ ~ok /\ f /\ UNCHANGED rvars

(* resolve_cross_section_fixups(): "Resolves cross-section fixups associated with each label that was used as *)
(* a destination in code of a different section."  Needs the offsets of the sections involved (flatten()).    *)
CrossReady == \A i \in DOMAIN fix : Bound(fix[i].l) => (Sec(fix[i].sec).off # -1 /\ Sec(Lab(fix[i].l).sec).off # -1)
ResolveCross(r) ==
  /\ inited /\ CrossReady /\ r = "Ok"
  /\ fix' = SelectSeq(fix, LAMBDA x : ~Bound(x.l))
  /\ UNCHANGED <<inited, base, eh, lg, att, labels, nmap, sects, order, relocs, atsec, atab, bb>>

(* ------------------------------------------------------------------------------------------------------- *)
(* sections                                                                                                 *)
(* ------------------------------------------------------------------------------------------------------- *)
(* new_section(section_out, name, name_size, flags, alignment, order): "Creates a new section";               *)
(* kInvalidSectionName "Invalid section name (most probably too long)", an alignment that is not a power of   *)
(* two is an invalid argument ("Section alignment requirements (0 if no requirements)": 0 is stored as 1).    *)
SecMust(name, align) ==
       (IF ~ZeroOrPow2(align) THEN {"InvalidArgument"} ELSE {})
  \cup (IF Len(name) > MaxSectionName THEN {"InvalidSectionName"} ELSE {})
  \cup (IF Len(sects) >= MaxSections THEN {"TooManySections"} ELSE {})
AppendSection(rec, id) ==
  /\ id = Len(sects)
  /\ sects' = Append(sects, rec)
  /\ order' = InsertByOrder(order, sects, id, rec.order)
NewSection(name, flags, align, ord, r, id, f) ==
  /\ inited
  /\ \/ /\ r = "Ok" /\ SecMust(name, align) = {}
        /\ AppendSection([name |-> name, flags |-> flags, align |-> IF align = 0 THEN 1 ELSE align, order |-> ord,
                          off |-> -1, vsize |-> 0, bsize |-> 0], id)
        /\ UNCHANGED <<inited, base, eh, lg, att, labels, nmap, relocs, atsec, atab, fix, bb>>
     \/ Refused(r, SecMust(name, align), f)

(* section_by_name(): "Returns section-id that matches the given name. If there is no such section            *)
(* Section::kInvalidId is returned" (names need not be unique: any section carrying the name will do).        *)
SectionByName(name, r) ==
  /\ inited
  /\ LET S == {s \in 0 .. Len(sects) - 1 : Sec(s).name = name} IN IF S = {} THEN r = -1 ELSE r \in S
  /\ UNCHANGED rvars

(* ensure_address_table_section(): "Ensures that '.addrtab' section exists (creates it if it doesn't) and     *)
(* returns it. Can return nullptr on out of memory condition."                                                *)
EnsureEffect(id) ==
  /\ Len(sects) < MaxSections
  /\ AppendSection(AddrTabSection, id) /\ atsec' = id
EnsureAddrTab(r, f) ==
  /\ inited
  /\ \/ /\ atsec # -1 /\ r = atsec /\ UNCHANGED rvars
     \/ /\ atsec = -1 /\ r # -1 /\ EnsureEffect(r)
        /\ UNCHANGED <<inited, base, eh, lg, att, labels, nmap, relocs, atab, fix, bb>>
     \/ /\ atsec = -1 /\ r = -1 /\ (f \/ Len(sects) >= MaxSections) /\ UNCHANGED rvars

(* add_address_to_address_table(address): "This implicitly calls ensure_address_table_section() and then      *)
(* creates AddressTableEntry ... If the address already exists this operation does nothing as the same        *)
(* addresses use the same slot."  Every entry reserves one register-sized slot of the section.  A call that   *)
(* fails after the implicit ensure_address_table_section() may leave the (empty) section behind.              *)
AddAddr(a, r, f) ==
  /\ inited
  /\ \/ /\ r = "Ok" /\ a \in atab /\ UNCHANGED rvars
     \/ /\ r = "Ok" /\ a \notin atab /\ atab' = atab \cup {a}
        /\ IF atsec # -1
             THEN /\ sects' = [sects EXCEPT ![atsec + 1].vsize = @ + RegSize] /\ UNCHANGED <<order, atsec>>
             ELSE /\ Len(sects) < MaxSections /\ atsec' = Len(sects)
                  /\ sects' = Append(sects, [AddrTabSection EXCEPT !.vsize = RegSize])
                  /\ order' = InsertByOrder(order, sects, Len(sects), OrderMax)
        /\ UNCHANGED <<inited, base, eh, lg, att, labels, nmap, relocs, fix, bb>>
     \/ /\ a \notin atab /\ Refused(r, IF atsec = -1 /\ Len(sects) >= MaxSections THEN {"OutOfMemory", "TooManySections"} ELSE {}, f)
     \/ /\ a \notin atab /\ atsec = -1 /\ f /\ r = "OutOfMemory" /\ EnsureEffect(Len(sects))
        /\ UNCHANGED <<inited, base, eh, lg, att, labels, nmap, relocs, atab, fix, bb>>

(* flatten(): "Flattens all sections by recalculating their offsets, starting at 0."  The layout itself is    *)
(* property C10 (Layout.tla); here the reported offsets / virtual sizes are only taken over.                  *)
Flatten(r, offs, vs) ==
  /\ inited /\ r = "Ok" /\ Len(offs) = Len(sects) /\ Len(vs) = Len(sects)
  /\ offs[1] = 0 /\ \A i \in DOMAIN offs : offs[i] >= 0 /\ vs[i] >= 0
  /\ sects' = [i \in DOMAIN sects |-> [sects[i] EXCEPT !.off = offs[i], !.vsize = vs[i]]]
  /\ UNCHANGED <<inited, base, eh, lg, att, labels, nmap, order, relocs, atsec, atab, fix, bb>>

(* the buffer of a section belongs to the emitters; the driver sets its size (environment action) *)
Resize(s, n) ==
  /\ inited /\ ValidSection(s) /\ sects' = [sects EXCEPT ![s + 1].bsize = n]
  /\ UNCHANGED <<inited, base, eh, lg, att, labels, nmap, order, relocs, atsec, atab, fix, bb>>

(* ------------------------------------------------------------------------------------------------------- *)
(* relocations                                                                                              *)
(* ------------------------------------------------------------------------------------------------------- *)
(* new_reloc_entry(dst, reloc_type): "Creates a new relocation entry of type reloc_type. Additional fields    *)
(* can be set after the relocation entry was created."  reloc_entry_of(id) is the entry with that id.         *)
NewReloc(type, r, id, f) ==
  /\ inited
  /\ \/ /\ r = "Ok" /\ id = Len(relocs) /\ Len(relocs) < MaxRelocs /\ relocs' = Append(relocs, type)
        /\ UNCHANGED <<inited, base, eh, lg, att, labels, nmap, sects, order, atsec, atab, fix, bb>>
     \/ Refused(r, IF Len(relocs) >= MaxRelocs THEN {"TooManyRelocations"} ELSE {}, f)

(* ------------------------------------------------------------------------------------------------------- *)
(* the emitter-side API (BaseEmitter::new_label / new_named_label / label_by_name / bind / is_label_valid)  *)
(* `errs`: the calls the attached error handlers received during the call, Seq of [h, err].                  *)
(* "the error handler is not triggered by CodeHolder itself, it's instead propagated to all emitters that    *)
(* attach to it": a failing emitter call reports exactly one error, to the handler in effect.                *)
(* ------------------------------------------------------------------------------------------------------- *)
Reported(errs, allowed, f) ==
  IF eh = 0 THEN errs = <<>> /\ (allowed # {} \/ f)
  ELSE Len(errs) = 1 /\ errs[1].h = eh /\ (errs[1].err \in allowed \/ (f /\ errs[1].err = "OutOfMemory"))

(* "Creates a new anonymous label." - an invalid Label (id -1) is returned on failure or when not attached *)
ENewLabel(e, id, errs, f) ==
  \/ /\ ~Attached(e) /\ id = -1 /\ errs = <<>> /\ UNCHANGED rvars
  \/ /\ Attached(e) /\ id # -1 /\ errs = <<>> /\ NewLabel("Ok", id, f)
  \/ /\ Attached(e) /\ id = -1 /\ Reported(errs, IF Len(labels) >= MaxLabels THEN {"TooManyLabels"} ELSE {}, f) /\ UNCHANGED rvars

(* "Creates a new named label." *)
ENewNamed(e, name, type, parent, id, errs, f) ==
  LET n == Eff(name) IN
  \/ /\ ~Attached(e) /\ id = -1 /\ errs = <<>> /\ UNCHANGED rvars
  \/ /\ Attached(e) /\ id # -1 /\ errs = <<>> /\ NamedMust(n, type, parent) = {} /\ NamedEffect(n, type, parent, id)
  \/ /\ Attached(e) /\ id = -1 /\ Reported(errs, NamedMust(n, type, parent) \cup NamedMay(name, type, parent), f) /\ UNCHANGED rvars

(* "Returns Label by name. Returns invalid Label in case that the name is invalid or label was not found." *)
ELookup(e, name, parent, r) ==
  /\ IF Attached(e) THEN LookupResultOk(name, parent, r) ELSE r = -1
  /\ UNCHANGED rvars

(* "Tests whether the label id is valid (i.e. registered)." *)
EIsValid(e, id, r) == /\ r = (Attached(e) /\ ValidLabel(id)) /\ UNCHANGED rvars

(* Assembler: "Binds the label to the current position of the current section" = bind_label(label, sec, off). *)
EBindAsm(e, id, sec, off, r, errs) ==
  \/ /\ ~Attached(e) /\ r # "Ok" /\ errs = <<>> /\ UNCHANGED rvars
  \/ /\ Attached(e) /\ r = "Ok" /\ errs = <<>> /\ BindMust(id, sec) = {} /\ BindEffect(id, sec, off)
  \/ /\ Attached(e) /\ r # "Ok" /\ r \in BindMust(id, sec) /\ Reported(errs, {r}, FALSE) /\ UNCHANGED rvars

(* Builder: bind() adds the label's node to the node list; nothing is bound in the holder before the builder *)
(* is serialised.  "A label has a single LabelNode - if it's already part of the code the label is already   *)
(* bound."                                                                                                    *)
EBindBuilder(e, id, r, errs) ==
  \/ /\ ~Attached(e) /\ r # "Ok" /\ UNCHANGED rvars
  \/ /\ Attached(e) /\ r = "Ok" /\ errs = <<>> /\ ValidLabel(id) /\ <<e, id>> \notin bb
     /\ bb' = bb \cup {<<e, id>>}
     /\ UNCHANGED <<inited, base, eh, lg, att, labels, nmap, sects, order, relocs, atsec, atab, fix>>
  \/ /\ Attached(e) /\ r = "InvalidLabel" /\ ~ValidLabel(id) /\ UNCHANGED rvars
  \/ /\ Attached(e) /\ r = "LabelAlreadyBound" /\ <<e, id>> \in bb /\ Reported(errs, {r}, FALSE) /\ UNCHANGED rvars

(* ------------------------------------------------------------------------------------------------------- *)
(* the ADT properties, as state invariants                                                                  *)
(* ------------------------------------------------------------------------------------------------------- *)
NamedIds == {i \in 0 .. Len(labels) - 1 : Lab(i).type \in 1 .. 3}
(* the name map is exactly the non-anonymous labels, keyed by (parent, name) *)
NMapExact == nmap = {<<(IF Lab(i).type = Local THEN Lab(i).parent ELSE -1), Lab(i).name, i>> : i \in NamedIds}
(* ... and it is a function: a (parent, name) pair designates one label *)
KeysUnique == \A a, b \in nmap : (a[1] = b[1] /\ a[2] = b[2]) => a[3] = b[3]
(* anonymous labels are never found by name; local labels with different parents do not collide *)
AnonNotFound == \A t \in nmap : Lab(t[3]).type # Anon
NamesWellFormed == \A i \in 0 .. Len(labels) - 1 :
                     /\ ~HasNul(Lab(i).name) /\ Len(Lab(i).name) <= MaxLabelName
                     /\ (Lab(i).type # Anon => Len(Lab(i).name) > 0)
ParentsValid == \A i \in 0 .. Len(labels) - 1 :
                  IF Lab(i).type = Local THEN Lab(i).parent \in 0 .. i - 1 ELSE Lab(i).parent = -1
BoundValid == \A i \in 0 .. Len(labels) - 1 : Lab(i).sec = -1 \/ ValidSection(Lab(i).sec)
FixupsValid == \A k \in DOMAIN fix : /\ ValidLabel(fix[k].l) /\ ValidSection(fix[k].sec)
                                     /\ (Bound(fix[k].l) => Lab(fix[k].l).sec # fix[k].sec)
OrderSorted == /\ Len(order) = Len(sects) /\ Range(order) = 0 .. Len(sects) - 1
               /\ \A i \in 1 .. Len(order) - 1 :
                    \/ Sec(order[i]).order < Sec(order[i + 1]).order
                    \/ (Sec(order[i]).order = Sec(order[i + 1]).order /\ order[i] < order[i + 1])
TextFirst == inited => (Len(sects) >= 1 /\ Sec(0).name = TextName /\ order[1] = 0)
AddrTabOk == IF atsec = -1 THEN atab = {}
             ELSE /\ ValidSection(atsec) /\ Sec(atsec).name = AddrTabName /\ Sec(atsec).align = RegSize
LimitsOk == Len(labels) <= MaxLabels /\ Len(sects) <= MaxSections /\ Len(relocs) <= MaxRelocs
(* "after reset the registry is empty" *)
UninitEmpty == ~inited => /\ labels = <<>> /\ nmap = {} /\ sects = <<>> /\ order = <<>> /\ relocs = <<>> /\ atsec = -1
                          /\ atab = {} /\ fix = <<>> /\ att = <<>> /\ eh = 0 /\ lg = 0 /\ base = -1 /\ bb = {}
BuilderBoundValid == \A t \in bb : Attached(t[1]) /\ ValidLabel(t[2])

RInv == /\ NMapExact /\ KeysUnique /\ AnonNotFound /\ NamesWellFormed /\ ParentsValid /\ BoundValid /\ FixupsValid
        /\ OrderSorted /\ TextFirst /\ AddrTabOk /\ LimitsOk /\ UninitEmpty /\ BuilderBoundValid
=============================================================================
