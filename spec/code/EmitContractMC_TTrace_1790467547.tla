---- MODULE EmitContractMC_TTrace_1790467547 ----
EXTENDS Sequences, TLCExt, Toolbox, Naturals, TLC, EmitContractMC

_expression ==
    LET EmitContractMC_TEExpression == INSTANCE EmitContractMC_TEExpression
    IN EmitContractMC_TEExpression!expression
----

_trace ==
    LET EmitContractMC_TETrace == INSTANCE EmitContractMC_TETrace
    IN EmitContractMC_TETrace!trace
----

_inv ==
    ~(
        TLCGet("level") = Len(_TETrace)
        /\
        ncalls = (1)
        /\
        os = (<<0, 0, 0, 0>>)
        /\
        last = ([k |-> "inst", r |-> 9, hc |-> <<>>, th |-> 0, oi |-> <<0, 0, 0, 0>>])
        /\
        cfg = ([hk |-> "none", att |-> TRUE, arch |-> "x64", em |-> "asm"])
        /\
        bound = ({})
        /\
        proj = ([ss |-> <<1>>, sd |-> <<8>>, nl |-> 1, nf |-> 0, nr |-> 0, na |-> 0, nn |-> 0, cu |-> 0, cs |-> 0, off |-> 1, nv |-> 0])
    )
----

_init ==
    /\ proj = _TETrace[1].proj
    /\ os = _TETrace[1].os
    /\ bound = _TETrace[1].bound
    /\ ncalls = _TETrace[1].ncalls
    /\ last = _TETrace[1].last
    /\ cfg = _TETrace[1].cfg
----

_next ==
    /\ \E i,j \in DOMAIN _TETrace:
        /\ \/ /\ j = i + 1
              /\ i = TLCGet("level")
        /\ proj  = _TETrace[i].proj
        /\ proj' = _TETrace[j].proj
        /\ os  = _TETrace[i].os
        /\ os' = _TETrace[j].os
        /\ bound  = _TETrace[i].bound
        /\ bound' = _TETrace[j].bound
        /\ ncalls  = _TETrace[i].ncalls
        /\ ncalls' = _TETrace[j].ncalls
        /\ last  = _TETrace[i].last
        /\ last' = _TETrace[j].last
        /\ cfg  = _TETrace[i].cfg
        /\ cfg' = _TETrace[j].cfg

\* Uncomment the ASSUME below to write the states of the error trace
\* to the given file in Json format. Note that you can pass any tuple
\* to `JsonSerialize`. For example, a sub-sequence of _TETrace.
    \* ASSUME
    \*     LET J == INSTANCE Json
    \*         IN J!JsonSerialize("EmitContractMC_TTrace_1790467547.json", _TETrace)

=============================================================================

 Note that you can extract this module `EmitContractMC_TEExpression`
  to a dedicated file to reuse `expression` (the module in the 
  dedicated `EmitContractMC_TEExpression.tla` file takes precedence 
  over the module `EmitContractMC_TEExpression` below).

---- MODULE EmitContractMC_TEExpression ----
EXTENDS Sequences, TLCExt, Toolbox, Naturals, TLC, EmitContractMC

expression == 
    [
        \* To hide variables of the `EmitContractMC` spec from the error trace,
        \* remove the variables below.  The trace will be written in the order
        \* of the fields of this record.
        proj |-> proj
        ,os |-> os
        ,bound |-> bound
        ,ncalls |-> ncalls
        ,last |-> last
        ,cfg |-> cfg
        
        \* Put additional constant-, state-, and action-level expressions here:
        \* ,_stateNumber |-> _TEPosition
        \* ,_projUnchanged |-> proj = proj'
        
        \* Format the `proj` variable as Json value.
        \* ,_projJson |->
        \*     LET J == INSTANCE Json
        \*     IN J!ToJson(proj)
        
        \* Lastly, you may build expressions over arbitrary sets of states by
        \* leveraging the _TETrace operator.  For example, this is how to
        \* count the number of times a spec variable changed up to the current
        \* state in the trace.
        \* ,_projModCount |->
        \*     LET F[s \in DOMAIN _TETrace] ==
        \*         IF s = 1 THEN 0
        \*         ELSE IF _TETrace[s].proj # _TETrace[s-1].proj
        \*             THEN 1 + F[s-1] ELSE F[s-1]
        \*     IN F[_TEPosition - 1]
    ]

=============================================================================



Parsing and semantic processing can take forever if the trace below is long.
 In this case, it is advised to uncomment the module below to deserialize the
 trace from a generated binary file.

\*
\*---- MODULE EmitContractMC_TETrace ----
\*EXTENDS IOUtils, TLC, EmitContractMC
\*
\*trace == IODeserialize("EmitContractMC_TTrace_1790467547.bin", TRUE)
\*
\*=============================================================================
\*

---- MODULE EmitContractMC_TETrace ----
EXTENDS TLC, EmitContractMC

trace == 
    <<
    ([ncalls |-> 0,os |-> <<0, 0, 0, 0>>,last |-> [k |-> "none", r |-> 0, hc |-> <<>>, th |-> 0, oi |-> <<0, 0, 0, 0>>],cfg |-> [hk |-> "none", att |-> TRUE, arch |-> "x64", em |-> "asm"],bound |-> {},proj |-> [ss |-> <<0>>, sd |-> <<0>>, nl |-> 1, nf |-> 0, nr |-> 0, na |-> 0, nn |-> 0, cu |-> 0, cs |-> 0, off |-> 0, nv |-> 0]]),
    ([ncalls |-> 1,os |-> <<0, 0, 0, 0>>,last |-> [k |-> "inst", r |-> 9, hc |-> <<>>, th |-> 0, oi |-> <<0, 0, 0, 0>>],cfg |-> [hk |-> "none", att |-> TRUE, arch |-> "x64", em |-> "asm"],bound |-> {},proj |-> [ss |-> <<1>>, sd |-> <<8>>, nl |-> 1, nf |-> 0, nr |-> 0, na |-> 0, nn |-> 0, cu |-> 0, cs |-> 0, off |-> 1, nv |-> 0]])
    >>
----


=============================================================================

---- CONFIG EmitContractMC_TTrace_1790467547 ----
CONSTANTS
    MaxCalls = 4
    CommitBeforeCheck = TRUE
    DoubleReport = FALSE

INVARIANT
    _inv

CHECK_DEADLOCK
    \* CHECK_DEADLOCK off because of PROPERTY or INVARIANT above.
    FALSE

INIT
    _init

NEXT
    _next

CONSTANT
    _TETrace <- _trace

ALIAS
    _expression
=============================================================================
\* Generated on Sun Sep 27 00:05:48 UTC 2026