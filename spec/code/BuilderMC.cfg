SPECIFICATION Spec
CONSTANTS
  MaxNodes = 5
  NLab = 2
  MaxOps = 5
  BindGuard = TRUE
INVARIANTS ListRefinesSeq ContractInv SerializedIsSeq LinksExact Unlinked
PROPERTY RefinesContract
VIEW View
