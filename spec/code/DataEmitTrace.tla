---------------------------- MODULE DataEmitTrace -----------------------------
(* X03 trace validation: a trace recorded by harness/dataemit.cpp from the real *)
(* x86::Assembler / a64::Assembler (and, for the final images, from the real    *)
(* Builder -> finalize path) is accepted iff it is a behaviour of the contract  *)
(* DataEmit.tla.  One event per public call:                                    *)
(*   r    result ("Ok" or the error name)                                       *)
(*   app  the bytes found in [old offset(), new offset()) after the call        *)
(*   off, size, cap, nrel, nfix   projection after the call                      *)
(*   dig  position-weighted checksum of buffer_data()[0, size)                  *)
(*   img  (when the section is small) the bytes buffer_data()[0, size)          *)
EXTENDS DataEmit, TraceLib

VARIABLE l
tvars == <<arch, opt, att, secs, cur, off, labs, slots, nrel, nfix, last, l>>

T == TraceLog
Ev == T[l]
IsEv(e) == l <= Len(T) /\ Ev.e = e /\ l' = l + 1

PP == [off |-> Ev.off, size |-> Ev.size, cap |-> Ev.cap, nrel |-> Ev.nrel, nfix |-> Ev.nfix]
FreeP(i) == \E x \in slots' : x.sec = cur' /\ i - 1 >= x.lo /\ i - 1 < x.hi
(* the current section with placeholder bytes counted as 0 (the harness computes its checksum the same way) *)
MaskedP == IF \E x \in slots' : x.sec = cur' THEN [i \in 1 .. Len(secs'[cur'].mem) |-> IF FreeP(i) THEN 0 ELSE secs'[cur'].mem[i]]
           ELSE secs'[cur'].mem
(* the whole current section after the call equals the model (what lies outside the window did not change) *)
After == B(/\ (Has(Ev, "coh") => Ev.coh)     \* offset()/buffer_data()/buffer_capacity()/remaining_space() agree with the section's CodeBuffer
           /\ (Has(Ev, "dig") => Ev.dig = Digest(MaskedP))
           /\ (Has(Ev, "img") => /\ Len(Ev.img) = Len(secs'[cur'].mem)
                                 /\ \A i \in 1 .. Len(Ev.img) : FreeP(i) \/ Ev.img[i] = secs'[cur'].mem[i]))

TInit == /\ arch = "x64" /\ opt = FALSE /\ att = FALSE
         /\ secs = <<[mem |-> <<>>, cap |-> 0, fixed |-> FALSE]>>
         /\ cur = 1 /\ off = 0 /\ labs = <<>> /\ slots = {} /\ nrel = 0 /\ nfix = 0
         /\ last = [op |-> "Init", r |-> "Ok", n |-> 0, a |-> 0, o0 |-> 0]
         /\ l = 1 /\ InitProgress

TReset == /\ IsEv("Reset")
          /\ arch' = Ev.arch /\ opt' = Ev.opt /\ att' = FALSE
          /\ secs' = <<[mem |-> <<>>, cap |-> Ev.cap, fixed |-> FALSE]>>
          /\ cur' = 1 /\ off' = 0 /\ labs' = <<>> /\ slots' = {} /\ nrel' = 0 /\ nfix' = 0
          /\ last' = [op |-> "Init", r |-> "Ok", n |-> 0, a |-> 0, o0 |-> 0]

TDetached == IsEv("Detached") /\ Detached(Ev.op, Ev.r)
TAttach == IsEv("Attach") /\ Attach(Ev.r, PP)
TSetOpt == IsEv("SetOpt") /\ SetOpt(Ev.on)
(* alignment is a uint32_t: ahi = alignment >> 16, alo = alignment & 0xFFFF; anything >= 65536 is "too large" *)
TAlign == /\ IsEv("Align")
          /\ Align(Ev.mode, IF Ev.ahi > 0 THEN 65536 + Ev.alo ELSE Ev.alo, Ev.r, Ev.app, PP) /\ After
TEmbed == IsEv("Embed") /\ Embed(Ev.data, Ev.r, Ev.app, PP) /\ After
TEmbedArray == IsEv("EmbedArray") /\ EmbedArray(Ev.tid, Ev.data, Ev.ic, Ev.rc, Ev.r, Ev.app, PP) /\ After
TEmbedConstPool == IsEv("EmbedConstPool")
                   /\ EmbedConstPool(Ev.lab, Ev.palign, Ev.image, Ev.r, Ev.app, PP, Ev.lb) /\ After
TEmbedLabel == IsEv("EmbedLabel") /\ EmbedLabel(Ev.lab, Ev.sz, Ev.r, Ev.app, PP) /\ After
TEmbedLabelDelta == IsEv("EmbedLabelDelta") /\ EmbedLabelDelta(Ev.lab, Ev.base, Ev.sz, Ev.r, Ev.app, PP) /\ After
TNewLabel == IsEv("NewLabel") /\ NewLabel /\ B(Ev.n = Len(labs'))
TBind == IsEv("Bind") /\ Bind(Ev.lab, Ev.r, PP) /\ After
TSetOffset == IsEv("SetOffset") /\ SetOffset(Ev.o, Ev.r, PP) /\ After
TNewSection == IsEv("NewSection") /\ NewSection(Ev.kind, Ev.capreq, Ev.cap) /\ B(Ev.n = Len(secs'))
TSection == IsEv("Section") /\ SwitchSection(Ev.sec, Ev.r, PP) /\ After
TReserve == IsEv("Reserve") /\ Reserve(Ev.sec, Ev.n, Ev.r, Ev.scap, PP) /\ After
TInst == IsEv("Inst") /\ Inst(Ev.r, Ev.app, PP) /\ After
TComment == IsEv("Comment") /\ Comment(Ev.r, PP) /\ After

(* whole-state observation: every section image and the label table, read through the public API.               *)
(* via = "asm": the assembler that executed the calls; via = "builder": the same successful calls recorded by a  *)
(* Builder of the same architecture and serialized by finalize() into a second CodeHolder (C08 claims the       *)
(* equality with direct assembling; here the serialized result is held against the same contract state).        *)
TImages == /\ IsEv("Images")
           /\ B(/\ Ev.r = "Ok"
                /\ Len(Ev.imgs) = Len(secs)
                /\ \A s \in 1 .. Len(secs) : ImgOK(s, Ev.imgs[s])
                /\ Ev.labs = labs)
           /\ UNCHANGED <<arch, opt, att, secs, cur, off, labs, slots, nrel, nfix, last>>

TNext == \/ TReset \/ TDetached \/ TAttach \/ TSetOpt \/ TAlign \/ TEmbed \/ TEmbedArray \/ TEmbedConstPool
         \/ TEmbedLabel \/ TEmbedLabelDelta \/ TNewLabel \/ TBind \/ TSetOffset \/ TNewSection \/ TSection
         \/ TReserve \/ TInst \/ TComment \/ TImages
TSpec == TInit /\ [][TNext]_tvars

TStepProps == [][IsEv("Reset") \/ (WindowOnly /\ LabelsStable)]_tvars

Progress == NoteProgress(l)
TraceAccepted == Accepted(Len(T))
=============================================================================
