SPECIFICATION TSpec
INVARIANT LInv
CONSTRAINT Progress
POSTCONDITION TraceAccepted
