SPECIFICATION Spec
CONSTANTS
  Archs <- ArchsAll
  Datas <- DatasAlign
  Aligns <- AlignsAlign
  Modes <- ModesAlign
  Tids <- None
  Counts <- None
  Pools <- None
  LabelSizes <- None
  Offsets <- OffsetsAlign
  SecKinds = {"fix"}
  ReserveSizes <- ReserveAlign
  MaxOps = 5
  MaxLabels = 0
  MaxSecs = 2
  WithInst = FALSE
  Bug = "none"
INVARIANTS ContractInv PendSum
PROPERTIES RefinesContract StepProps
VIEW View
