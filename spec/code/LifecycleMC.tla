------------------------------ MODULE LifecycleMC ------------------------------
(* Model-checking / behaviour-export wrapper for Lifecycle.tla (C16).                *)
EXTENDS Lifecycle

KindsABC == <<"asm", "builder", "compiler">>
KindsCCA == <<"compiler", "compiler", "asm">>
KindsBCB == <<"builder", "compiler", "builder">>
KindsAC == <<"asm", "compiler">>
KindsC1 == <<"compiler">>
KindsBC == <<"builder", "compiler">>

(* transition coverage: every transition out of every distinct abstract state prints the history that takes it *)
XNextP == XNext /\ PrintT(<<"BEH", hist'>>)
XSpecP == XInit /\ [][XNextP]_vars

(* simulation: print complete histories *)
ExportLeaf == Len(hist) = MaxOps => PrintT(<<"BEH", hist>>)
=============================================================================
