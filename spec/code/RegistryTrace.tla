---------------------------- MODULE RegistryTrace -----------------------------
(* Trace validation for X02: a trace recorded by harness/registry.cpp from a real CodeHolder is accepted iff   *)
(*  (1) every event is a step of the contract Registry.tla for the result the code reported, and               *)
(*  (2) after every event the projection of the WHOLE real registry (read back through the public accessors)   *)
(*      equals the contract state - in particular a refused call left everything as it was, ids are dense and  *)
(*      stable, and every accessor returns what was given at creation.                                         *)
(* (2) is stated as invariants P* over `obs` (the projection logged with the last event) and `obsL` (the label *)
(* table of the real holder, rebuilt from the logged deltas), so a violation names the clause that failed.     *)
EXTENDS Registry, TraceLib

(* keys of KNOWN_FINDINGS lines for X02; a listed key excuses exactly the report named next to it *)
CONSTANT Known
KEmptyLookup == "label_id_by_name:empty_name_returns_0"           \* lookup of the empty name answers label id 0
KUnboundOff == "label_offset:unbound_label_with_fixups_nonzero"   \* label_offset() of an unbound, referenced label

TOrderMin == -2147483647 - 1     \* std::numeric_limits<int>::lowest()

VARIABLES l, obs, obsL
tvars == <<inited, base, eh, lg, att, labels, nmap, sects, order, relocs, atsec, atab, fix, bb, l, obs, obsL>>

T == TraceLog
Ev == T[l]
IsEv(e) == /\ l <= Len(T) /\ Ev.e = e /\ l' = l + 1
           /\ obs' = Ev.p
           /\ obsL' = [i \in 1 .. Ev.p.nl |->
                         IF \E k \in DOMAIN Ev.p.lch : Ev.p.lch[k].id = i - 1
                           THEN Ev.p.lch[CHOOSE k \in DOMAIN Ev.p.lch : Ev.p.lch[k].id = i - 1]
                           ELSE obsL[i]]
Faulted == Ev.fh > 0

EmptyProj == [init |-> FALSE, base |-> -1, eh |-> 0, heh |-> FALSE, lg |-> 0, att |-> <<>>, elg |-> <<>>, eeh |-> <<>>, last |-> 0,
              ecode |-> <<FALSE, FALSE, FALSE>>, nl |-> 0, vend |-> TRUE, lch |-> <<>>, secs |-> <<>>, nsec |-> 0, svend |-> TRUE,
              ord |-> <<>>, text |-> -1, rel |-> <<>>, hasrel |-> FALSE, at |-> -1, hasat |-> FALSE, ats |-> <<>>, unres |-> 0,
              hasunres |-> FALSE, csize |-> 0]

TInit == RInit /\ l = 1 /\ obs = EmptyProj /\ obsL = <<>> /\ InitProgress

(* a new execution: a new CodeHolder object *)
TReset == IsEv("Reset") /\ Empty

TInitH == IsEv("Init") /\ Init(Ev.envok, Ev.base, Ev.r, Faulted)
TReinit == IsEv("Reinit") /\ Reinit(Ev.r, Faulted)
TResetH == IsEv("ResetH") /\ ResetHolder
TAttach == IsEv("Attach") /\ Attach(Ev.em, Ev.compat, Ev.r, Faulted)
TDetach == IsEv("Detach") /\ Detach(Ev.em, Ev.r)
TSetEH == IsEv("SetEH") /\ SetErrorHandler(Ev.h)
TSetLG == IsEv("SetLG") /\ SetLogger(Ev.g)
TLabel == IsEv("Label") /\ NewLabel(Ev.r, Ev.id, Faulted)
TNamed == IsEv("Named") /\ NewNamed(Ev.name, Ev.type, Ev.parent, Ev.r, Ev.id, Faulted)

LookupOkK(name, parent, r) == \/ LookupResultOk(name, parent, r)
                              \/ (KEmptyLookup \in Known /\ Eff(name) = <<>> /\ r = 0)
TLookup == IsEv("Lookup") /\ inited /\ Ev.agree /\ LookupOkK(Ev.name, Ev.parent, Ev.r) /\ UNCHANGED rvars
(* lookups of every (parent, name) pair the execution has used so far *)
TSweep == IsEv("Sweep") /\ inited /\ (\A k \in DOMAIN Ev.q : LookupOkK(Ev.q[k].n, Ev.q[k].p, Ev.q[k].r)) /\ UNCHANGED rvars

TBind == IsEv("Bind") /\ Bind(Ev.id, Ev.sec, Ev.off, Ev.r)
TFixup == IsEv("Fixup") /\ NewFixup(Ev.id, Ev.sec, Ev.ok, Faulted)
TResolve == IsEv("Resolve") /\ ResolveCross(Ev.r)
TFlatten == IsEv("Flatten") /\ Flatten(Ev.r, Ev.offs, Ev.vs)
TSection == IsEv("Section") /\ (Ev.r # "Ok" => Ev.outnull) /\ NewSection(Ev.name, Ev.flags, Ev.align, Ev.order, Ev.r, Ev.id, Faulted)
TSecByName == IsEv("SecByName") /\ SectionByName(Ev.name, Ev.r)
TEnsure == IsEv("Ensure") /\ EnsureAddrTab(Ev.r, Faulted)
TAddAddr == IsEv("AddAddr") /\ AddAddr(Ev.a, Ev.r, Faulted)
TReloc == IsEv("Reloc") /\ NewReloc(Ev.type, Ev.r, Ev.id, Faulted)
TResize == IsEv("Resize") /\ Resize(Ev.sec, Ev.n)

TELabel == IsEv("ELabel") /\ Ev.lvalid = (Ev.id # -1) /\ ENewLabel(Ev.em, Ev.id, Ev.errs, Faulted)
TENamed == IsEv("ENamed") /\ ENewNamed(Ev.em, Ev.name, Ev.type, Ev.parent, Ev.id, Ev.errs, Faulted)
TELookup == IsEv("ELookup") /\ (IF Attached(Ev.em) THEN LookupOkK(Ev.name, Ev.parent, Ev.r) ELSE Ev.r = -1) /\ UNCHANGED rvars
TEValid == IsEv("EValid") /\ EIsValid(Ev.em, Ev.id, Ev.r)
TEBind == IsEv("EBind") /\ IF Ev.kind = "asm" THEN EBindAsm(Ev.em, Ev.id, Ev.sec, Ev.off, Ev.r, Ev.errs)
                                               ELSE EBindBuilder(Ev.em, Ev.id, Ev.r, Ev.errs)

TNext == TReset \/ TInitH \/ TReinit \/ TResetH \/ TAttach \/ TDetach \/ TSetEH \/ TSetLG \/ TLabel \/ TNamed \/ TLookup \/ TSweep
         \/ TBind \/ TFixup \/ TResolve \/ TFlatten \/ TSection \/ TSecByName \/ TEnsure \/ TAddAddr \/ TReloc \/ TResize
         \/ TELabel \/ TENamed \/ TELookup \/ TEValid \/ TEBind
TSpec == TInit /\ [][TNext]_tvars

(* ------------------------------------------------------------------------------------------------------- *)
(* projection of the real registry = contract state                                                         *)
(* ------------------------------------------------------------------------------------------------------- *)
PScalars == /\ obs.init = inited /\ obs.base = base
            /\ obs.eh = eh /\ obs.heh = (eh # 0) /\ obs.lg = lg
            /\ obs.att = att
            /\ obs.last = (IF att = <<>> THEN 0 ELSE att[Len(att)])
            /\ \A i \in DOMAIN obs.elg : obs.elg[i] = lg           \* "propagates it to all attached emitters"
            /\ \A i \in DOMAIN obs.eeh : obs.eeh[i] = eh
            /\ \A e \in 1 .. 3 : obs.ecode[e] = Attached(e)

ExpOff(i) == IF Lab(i).sec = -1 THEN 0 ELSE Lab(i).off
ExpOfb(i) == IF Lab(i).sec # -1 /\ ValidSection(Lab(i).sec) /\ Sec(Lab(i).sec).off # -1 THEN Sec(Lab(i).sec).off + Lab(i).off ELSE -1
HasFix(i) == \E k \in DOMAIN fix : fix[k].l = i
PLabel(i) ==
  LET o == obsL[i + 1] IN
  /\ o.id = i /\ o.valid
  /\ o.type = Lab(i).type
  /\ o.name = Lab(i).name /\ o.nsz = Len(Lab(i).name) /\ o.nz
  /\ o.hn = (Len(Lab(i).name) > 0)
  /\ o.parent = Lab(i).parent /\ o.hp = (Lab(i).type = Local)
  /\ o.sec = Lab(i).sec /\ o.bound = (Lab(i).sec # -1)
  /\ (o.off = ExpOff(i) \/ (KUnboundOff \in Known /\ Lab(i).sec = -1 /\ HasFix(i)))
  /\ o.ofb = ExpOfb(i)
PLabels == /\ obs.nl = Len(labels) /\ Len(obsL) = Len(labels) /\ obs.vend
           /\ \A i \in 0 .. Len(labels) - 1 : PLabel(i)

PSection(s) ==
  LET o == obs.secs[s + 1] IN
  /\ o.id = s /\ o.name = Sec(s).name /\ o.flags = Sec(s).flags /\ o.align = Sec(s).align /\ o.order = Sec(s).order
  /\ o.off = Sec(s).off /\ o.vsize = Sec(s).vsize /\ o.bsize = Sec(s).bsize
PSections == /\ obs.nsec = Len(sects) /\ Len(obs.secs) = Len(sects) /\ obs.svend
             /\ \A s \in 0 .. Len(sects) - 1 : PSection(s)
             /\ obs.ord = order
             /\ obs.text = (IF Len(sects) > 0 THEN 0 ELSE -1)

PRelocs == /\ Len(obs.rel) = Len(relocs) /\ obs.hasrel = (relocs # <<>>)
           /\ \A i \in DOMAIN relocs :
                LET o == obs.rel[i] IN
                o.id = i - 1 /\ o.type = relocs[i] /\ o.src = -1 /\ o.tgt = -1 /\ o.soff = 0 /\ o.pay = 0 /\ o.fmt = 0

PAddr == /\ obs.at = atsec /\ obs.hasat = (atsec # -1)
         /\ Range(obs.ats) = atab /\ Len(obs.ats) = Cardinality(atab)
         /\ (atsec # -1 => (obs.secs[atsec + 1].vsize >= RegSize * Cardinality(atab)))

PFix == obs.unres = Len(fix) /\ obs.hasunres = (fix # <<>>)
PCodeSize == obs.csize = CodeSize

PAll == PScalars /\ PLabels /\ PSections /\ PRelocs /\ PAddr /\ PFix /\ PCodeSize

(* Acceptance: the contract leaves some outcomes open (a call hit by an allocation failure may succeed or be     *)
(* refused, AddAddr may leave the empty '.addrtab' behind), so the projection has to select the branch: it is a    *)
(* guard of the step (TSpecG).  TSpec, with the P* clauses as invariants, is only used to name the clause that    *)
(* failed once a trace has been rejected.                                                                         *)
TNextG == TNext /\ PAll'
TSpecG == TInit /\ [][TNextG]_tvars

Progress == NoteProgress(l)
TraceAccepted == Accepted(Len(T))
=============================================================================
