---------------------------- MODULE BuilderTrace -----------------------------
(* Trace validation for C08: a trace recorded from a real Builder/Compiler     *)
(* (harness/builder.cpp) is accepted iff it is a behaviour of the contract      *)
(* Builder.tla.  Several executions are concatenated; each starts with Reset.  *)
EXTENDS Builder, TraceLib

VARIABLE l
tvars == <<seq, cur, callOf, rej, done, l>>

T == TraceLog
Ev == T[l]
IsEv(e) == l <= Len(T) /\ Ev.e = e /\ l' = l + 1

TInit == /\ l = 1 /\ InitProgress
         /\ seq = <<>> /\ cur = Null /\ callOf = <<>> /\ rej = 0 /\ done = 1

(* a fresh emitter: the list is the initial .text section node, the cursor is on it *)
TReset == /\ IsEv("Reset")
          /\ Ev.n0 # Null
          /\ Ev.payload = SectionCall(0)
          /\ seq' = <<Ev.n0>> /\ cur' = Ev.n0
          /\ callOf' = [x \in {Ev.n0} |-> Ev.payload]
          /\ rej' = 0 /\ done' = 0
          /\ Agrees(Ev.p, seq', cur')

TEmitOk == /\ IsEv("Emit") /\ Ev.r = "Ok"
           /\ Emit(Ev.call, Ev.ns, Ev.ps, Ev.p)

TEmitRejected == /\ IsEv("Emit") /\ Ev.r # "Ok"
                 /\ Len(Ev.ns) = 0
                 /\ Rejected(Ev.call, Ev.p)

TSectionOk == /\ IsEv("Section") /\ Ev.r = "Ok"
              /\ SectionSwitch(Ev.s, Ev.n, Ev.payload, Ev.p)

TSectionRejected == /\ IsEv("Section") /\ Ev.r # "Ok"
                    /\ Rejected(SectionCall(Ev.s), Ev.p)

TSetCursor   == IsEv("SetCursor")   /\ SetCursor(Ev.n, Ev.p)
TAddNode     == IsEv("AddNode")     /\ AddNode(Ev.n, Ev.payload, Ev.p)
TAddAfter    == IsEv("AddAfter")    /\ AddAfter(Ev.n, Ev.ref, Ev.payload, Ev.p)
TAddBefore   == IsEv("AddBefore")   /\ AddBefore(Ev.n, Ev.ref, Ev.payload, Ev.p)
TRemoveNode  == IsEv("RemoveNode")  /\ RemoveNode(Ev.n, Ev.p)
TRemoveNodes == IsEv("RemoveNodes") /\ RemoveNodes(Ev.f, Ev.l, Ev.p)

TSerialize == IsEv("Serialize") /\ Serialized(Ev.calls, Ev.perr)
TFinalize  == IsEv("Finalize")  /\ Finalize(Ev.order, Ev.dB, Ev.dD, Ev.finOk, Ev.perr, Ev.errD)

TNext == \/ TReset \/ TEmitOk \/ TEmitRejected \/ TSectionOk \/ TSectionRejected
         \/ TSetCursor \/ TAddNode \/ TAddAfter \/ TAddBefore \/ TRemoveNode \/ TRemoveNodes
         \/ TSerialize \/ TFinalize
TSpec == TInit /\ [][TNext]_tvars

Progress == NoteProgress(l)
TraceAccepted == Accepted(Len(T))
=============================================================================
