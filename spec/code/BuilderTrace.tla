---------------------------- MODULE BuilderTrace -----------------------------
(* Trace validation for C08: a trace recorded from a real Builder/Compiler     *)
(* (harness/builder.cpp) is accepted iff it is a behaviour of the contract      *)
(* Builder.tla.  Several executions are concatenated; each starts with Reset.  *)
EXTENDS CompilerPools, TraceLib

VARIABLE l
tvars == <<seq, cur, callOf, rej, done, cfunc, lpool, gpool, l>>

T == TraceLog
Ev == T[l]
IsEv(e) == l <= Len(T) /\ Ev.e = e /\ l' = l + 1

TInit == /\ l = 1 /\ InitProgress
         /\ seq = <<>> /\ cur = Null /\ callOf = <<>> /\ rej = 0 /\ done = 1
         /\ PInit

(* a fresh emitter: the list is the initial .text section node, the cursor is on it *)
TReset == /\ IsEv("Reset")
          /\ Ev.n0 # Null
          /\ Ev.payload = SectionCall(0)
          /\ seq' = <<Ev.n0>> /\ cur' = Ev.n0
          /\ callOf' = [x \in {Ev.n0} |-> Ev.payload]
          /\ rej' = 0 /\ done' = 0
          /\ cfunc' = NoFunc /\ lpool' = Closed /\ gpool' = Closed
          /\ Agrees(Ev.p, seq', cur')

TEmitOk == /\ IsEv("Emit") /\ Ev.r = "Ok"
           /\ Emit(Ev.call, Ev.ns, Ev.ps, Ev.p) /\ UNCHANGED pvars

TEmitRejected == /\ IsEv("Emit") /\ Ev.r # "Ok"
                 /\ Len(Ev.ns) = 0
                 /\ Rejected(Ev.call, Ev.p) /\ UNCHANGED pvars

TSectionOk == /\ IsEv("Section") /\ Ev.r = "Ok"
              /\ SectionSwitch(Ev.s, Ev.n, Ev.payload, Ev.p) /\ UNCHANGED pvars

TSectionRejected == /\ IsEv("Section") /\ Ev.r # "Ok"
                    /\ Rejected(SectionCall(Ev.s), Ev.p) /\ UNCHANGED pvars

TSetCursor   == IsEv("SetCursor")   /\ SetCursor(Ev.n, Ev.p) /\ UNCHANGED pvars
TAddNode     == IsEv("AddNode")     /\ AddNode(Ev.n, Ev.payload, Ev.p) /\ UNCHANGED pvars
TAddAfter    == IsEv("AddAfter")    /\ AddAfter(Ev.n, Ev.ref, Ev.payload, Ev.p) /\ UNCHANGED pvars
TAddBefore   == IsEv("AddBefore")   /\ AddBefore(Ev.n, Ev.ref, Ev.payload, Ev.p) /\ UNCHANGED pvars
TRemoveNode  == IsEv("RemoveNode")  /\ RemoveNode(Ev.n, Ev.p) /\ UNCHANGED pvars
TRemoveNodes == IsEv("RemoveNodes") /\ RemoveNodes(Ev.f, Ev.l, Ev.p) /\ UNCHANGED pvars

(* Compiler front end: constants, functions *)
TNewConst == /\ IsEv("NewConst") /\ Ev.r = "Ok"
             /\ NewConst(Ev.scope, Ev.data, Ev.label, Ev.off, Ev.hasLabelBase, Ev.p)
TAddFunc  == IsEv("AddFunc") /\ Ev.r = "Ok" /\ AddFunc(Ev.ns, Ev.ps, Ev.p)
TEndFunc  == IsEv("EndFunc") /\ Ev.r = "Ok" /\ EndFunc(Ev.n, Ev.payload, Ev.p)

TSerialize == IsEv("Serialize") /\ Serialized(Ev.calls, Ev.perr) /\ UNCHANGED pvars
(* finalize(): byte identity with the direct run + placement of the constant pools in the final list *)
TFinalize  == /\ IsEv("Finalize")
              /\ FinalizeX(Ev.order, Ev.dB, Ev.dD, Ev.finOk, Ev.perr, Ev.errD, IF gpool.open THEN 1 ELSE 0)
              /\ FinalPlacement(Ev.lastIsPool, Ev.lastLabel, Ev.finalPools)
              /\ UNCHANGED pvars

TNext == \/ TReset \/ TEmitOk \/ TEmitRejected \/ TSectionOk \/ TSectionRejected
         \/ TSetCursor \/ TAddNode \/ TAddAfter \/ TAddBefore \/ TRemoveNode \/ TRemoveNodes
         \/ TNewConst \/ TAddFunc \/ TEndFunc
         \/ TSerialize \/ TFinalize
TSpec == TInit /\ [][TNext]_tvars

Progress == NoteProgress(l)
TraceAccepted == Accepted(Len(T))
=============================================================================
