SPECIFICATION TSpec
CONSTANTS
  NH = 2
  KindsC = 0
  Progs = {}
  MaxOps = 0
  MaxGen = 0
  Errors = FALSE
  Toggles = {}
  Mortal = FALSE
  Known = {}
INVARIANTS ResultMatches ProjectionMatches ResetIsInit ReinitIsFresh OutputIsFunctionOfCalls HandlerIsCurrent
CONSTRAINT Progress
POSTCONDITION TraceAccepted
