SPECIFICATION Spec
CONSTANTS
  Archs <- ArchsAll
  Datas <- DatasLabel
  Aligns <- AlignsLabel
  Modes <- ModesLabel
  Tids <- None
  Counts <- None
  Pools <- PoolsLabel
  LabelSizes <- LabelSizesLabel
  Offsets <- OffsetsLabel
  SecKinds = {"dyn", "fix"}
  ReserveSizes <- ReserveLabel
  MaxOps = 5
  MaxLabels = 2
  MaxSecs = 2
  WithInst = FALSE
  Bug = "none"
INVARIANTS ContractInv PendSum
PROPERTIES RefinesContract StepProps
VIEW View
