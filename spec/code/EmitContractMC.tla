--------------------------- MODULE EmitContractMC ---------------------------
(* Design model for C14, explored exhaustively by TLC.                          *)
(*                                                                              *)
(* A tiny emitter + holder (one section, labels, fixups, relocations, address   *)
(* table, attached flag, one-shot state, handler log) executes calls whose      *)
(* arguments come from an abstract valid/invalid alphabet.  The implementation  *)
(* side is written "check everything, then commit" (the discipline asmjit's     *)
(* emitters follow: CodeWriter cursor vs. writer.done()).  Every step must be a *)
(* step of the contract EmitContract!Call (refinement, checked as an action     *)
(* property).  Negative control: CommitBeforeCheck = TRUE writes the bytes /    *)
(* creates the relocation before the last check; TLC must then report a         *)
(* violation of the same property.                                              *)
EXTENDS Naturals, Sequences, FiniteSets, TLC

CONSTANTS MaxCalls,            \* bound on the history length
          CommitBeforeCheck,   \* negative control switch
          DoubleReport         \* negative control: the failure path notifies the handler twice

VARIABLES proj, os, cfg, pend, \* contract state (see EmitContract)
          bound,               \* set of bound label ids (1 .. proj.nl)
          ncalls,
          last                 \* what the last call reported: [k, r, hc, th, oi]

C == INSTANCE EmitContract

mvars == <<proj, os, cfg, pend, bound, ncalls, last>>

Args == {"ok", "badInst", "badLabel", "unboundLabel", "foreignLabel", "badSection", "badAlign", "badSize"}
Kinds == {"inst", "bind", "align", "embed", "elabel", "section", "newlabel"}
Handlers == {"none", "rec", "throw"}

NoLast == [k |-> "none", r |-> 0, hc |-> <<>>, th |-> 0, oi |-> C!OsClear]

Init == /\ \E hk \in Handlers, att \in BOOLEAN :
             cfg = [arch |-> "x64", em |-> "asm", hk |-> hk, att |-> att, vi |-> TRUE, va |-> TRUE, fast |-> FALSE]
        /\ proj = [ss |-> <<0>>, sd |-> <<0>>, nl |-> 1, nf |-> 0, nr |-> 0, na |-> 0,
                   nn |-> 0, cu |-> 0, cs |-> 0, off |-> 0, nv |-> 0, nb |-> 0, gf |-> 0, gb |-> 0, gd |-> 0, eh |-> 1]
        /\ os = C!OsClear
        /\ pend = 0
        /\ bound = {}
        /\ ncalls = 0
        /\ last = NoLast

(* error code chosen by the implementation for an argument class: any non-zero number; the contract never *)
(* looks at which one                                                                                     *)
Code(k, a) == IF ~cfg.att THEN 5
              ELSE CASE a = "badInst" -> 9 [] a = "badLabel" -> 11 [] a = "foreignLabel" -> 11
                     [] a = "badSection" -> 12 [] a = "badAlign" -> 2 [] a = "badSize" -> 30 [] OTHER -> 3

(* does this (kind, argument) pair fail? *)
Fails(k, a) ==
  \/ ~cfg.att
  \/ k = "inst"    /\ a \in {"badInst", "badLabel", "foreignLabel"}
  \/ k = "bind"    /\ a \in {"badLabel", "foreignLabel"}
  \/ k = "align"   /\ a = "badAlign"
  \/ k = "embed"   /\ a = "badSize"
  \/ k = "elabel"  /\ a \in {"badLabel", "foreignLabel", "badSize"}
  \/ k = "section" /\ a = "badSection"

Digest(d, n) == (d * 31 + n + 7) % 1009

AppendB(p, n) == [p EXCEPT !.ss = <<p.ss[1] + n>>, !.sd = <<Digest(p.sd[1], n)>>, !.off = p.off + n]

(* what a successful call does to the holder *)
Commit(k, a, p) ==
  CASE k = "inst"     -> IF a = "unboundLabel" THEN [AppendB(p, 5) EXCEPT !.nf = p.nf + 1] ELSE AppendB(p, 3)
    [] k = "bind"     -> [p EXCEPT !.nf = 0, !.sd = <<Digest(p.sd[1], 0)>>, !.nb = p.nb + 1]
    [] k = "align"    -> AppendB(p, (4 - (p.ss[1] % 4)) % 4)
    [] k = "embed"    -> AppendB(p, 2)
    [] k = "elabel"   -> [AppendB(p, 4) EXCEPT !.nr = p.nr + 1,
                                              !.nf = IF a = "unboundLabel" THEN p.nf + 1 ELSE p.nf]
    [] k = "section"  -> p
    [] k = "newlabel" -> [p EXCEPT !.nl = p.nl + 1]

(* the broken variant: part of the effect is committed before the failing check *)
PartialCommit(k, p) ==
  CASE k = "inst"   -> AppendB(p, 1)
    [] k = "elabel" -> [p EXCEPT !.nr = p.nr + 1]
    [] k = "embed"  -> AppendB(p, 1)
    [] OTHER        -> p

HandlerLog(code) == IF cfg.hk = "none" THEN <<>> ELSE IF DoubleReport THEN <<code, code>> ELSE <<code>>

DoCall(k, a, oi) ==
  /\ ncalls < MaxCalls
  /\ ncalls' = ncalls + 1
  /\ UNCHANGED <<cfg, pend>>
  /\ IF Fails(k, a)
       THEN LET code == Code(k, a)
                hc == IF k = "inst" \/ cfg.att THEN HandlerLog(code) ELSE <<>>
            IN /\ proj' = IF CommitBeforeCheck /\ cfg.att THEN PartialCommit(k, proj) ELSE proj
               /\ os' = IF k = "inst" THEN C!OsClear ELSE oi
               /\ bound' = bound
               /\ last' = [k |-> k, r |-> code, hc |-> hc,
                           th |-> IF cfg.hk = "throw" /\ hc # <<>> THEN 1 ELSE 0, oi |-> oi]
       ELSE /\ proj' = Commit(k, a, proj)
            /\ os' = IF k = "inst" THEN C!OsClear ELSE oi
            /\ bound' = IF k = "bind" THEN bound \cup {1} ELSE bound
            /\ last' = [k |-> k, r |-> 0, hc |-> <<>>, th |-> 0, oi |-> oi]

OneShots == {C!OsClear, <<8192, 0, 0, 0>>, <<0, 0, 1, 1>>}

Next == \E k \in Kinds, a \in Args, oi \in OneShots :
          /\ (k # "inst" => oi = C!OsClear)
          /\ DoCall(k, a, oi)

Spec == Init /\ [][Next]_mvars

(* Refinement: every implementation step is the contract's Call with the reported outcome. *)
ContractStep == C!Call(last'.k, last'.r, last'.hc, last'.th, last'.oi, proj', os', 0, 0, 0, last'.r, 0, 0, 0)
RefinesContract == [][ContractStep]_mvars

(* the headline invariant, stated directly as well *)
TypeOK == /\ proj.ss[1] >= 0 /\ proj.nr >= 0 /\ ncalls <= MaxCalls
ErrLeavesNothing == last.r # 0 => (cfg.hk # "none" /\ last.k = "inst" => Len(last.hc) = 1)
=============================================================================
