------------------------------ MODULE BuilderImpl ------------------------------
(* Implementation-shaped model of asmjit/core/builder.cpp (property C08):            *)
(* first/last/next/prev/cursor pointers, active flags, per-section node table and    *)
(* cached section links, with add_node / add_after / add_before / remove_node /      *)
(* remove_nodes / section / update_section_links / bind transcribed statement by     *)
(* statement (including the cursor repair).  The ghost variables seq/cur/callOf are   *)
(* the contract state of Builder.tla; TLC checks that every step of the algorithm is  *)
(* a step of the contract (RefinesContract) and exports edit scripts for replay on    *)
(* the real Builder.                                                                  *)
(*                                                                                    *)
(* BindGuard = FALSE transcribes bind() as it is written (add_node of the label node  *)
(* whatever its state); BindGuard = TRUE models a bind() that refuses a label whose   *)
(* node is already part of the code.                                                  *)
EXTENDS Naturals, Sequences, FiniteSets, TLC

CONSTANTS MaxNodes, NLab, MaxOps, BindGuard

Nodes == 1 .. MaxNodes
Secs == 0 .. 1
Labs == 1 .. NLab

VARIABLES first, last, nxt, prv, cursor, active, secNode, labNode, nextSec, dirty, nnodes,
          seq, cur, callOf, rej, done,
          lastOp, hist

C == INSTANCE Builder

ivars == <<first, last, nxt, prv, cursor, active, secNode, labNode, nextSec, dirty, nnodes>>
gvars == <<seq, cur, callOf, rej, done>>
vars == <<ivars, gvars, lastOp, hist>>

L == [first |-> first, last |-> last, nxt |-> nxt, prv |-> prv, cursor |-> cursor, active |-> active, dirty |-> dirty]
SetL(R) == /\ first' = R.first /\ last' = R.last /\ nxt' = R.nxt /\ prv' = R.prv
           /\ cursor' = R.cursor /\ active' = R.active /\ dirty' = R.dirty

(* ---- transcription of builder.cpp ------------------------------------------------------------------------ *)
(* BaseBuilder::add_node *)
AddNodeF(R, n, isSec) ==
  LET a == IF R.cursor = 0
             THEN IF R.first = 0
                    THEN [R EXCEPT !.first = n, !.last = n]
                    ELSE LET x == [R EXCEPT !.nxt[n] = R.first]
                             y == [x EXCEPT !.prv[x.first] = n]
                         IN [y EXCEPT !.first = n]
             ELSE LET pv == R.cursor
                      nx == R.nxt[R.cursor]
                      x == [R EXCEPT !.prv[n] = pv]
                      y == [x EXCEPT !.nxt[n] = nx]
                      z == [y EXCEPT !.nxt[pv] = n]
                  IN IF nx # 0 THEN [z EXCEPT !.prv[nx] = n] ELSE [z EXCEPT !.last = n]
  IN [a EXCEPT !.active = @ \cup {n}, !.dirty = @ \/ isSec, !.cursor = n]

(* BaseBuilder::add_after *)
AddAfterF(R, n, ref, isSec) ==
  LET nx == R.nxt[ref]
      x == [R EXCEPT !.prv[n] = ref]
      y == [x EXCEPT !.nxt[n] = nx, !.active = @ \cup {n}, !.dirty = @ \/ isSec]
      z == [y EXCEPT !.nxt[ref] = n]
  IN IF nx # 0 THEN [z EXCEPT !.prv[nx] = n] ELSE [z EXCEPT !.last = n]

(* BaseBuilder::add_before *)
AddBeforeF(R, n, ref, isSec) ==
  LET pv == R.prv[ref]
      x == [R EXCEPT !.prv[n] = pv]
      y == [x EXCEPT !.nxt[n] = ref, !.active = @ \cup {n}, !.dirty = @ \/ isSec]
      z == [y EXCEPT !.prv[ref] = n]
  IN IF pv # 0 THEN [z EXCEPT !.nxt[pv] = n] ELSE [z EXCEPT !.first = n]

(* BaseBuilder::remove_node *)
RemoveNodeF(R, n, isSec) ==
  IF n \notin R.active THEN R
  ELSE LET pv == R.prv[n]
           nx == R.nxt[n]
           a == IF R.first = n THEN [R EXCEPT !.first = nx] ELSE [R EXCEPT !.nxt[pv] = nx]
           b == IF a.last = n THEN [a EXCEPT !.last = pv] ELSE [a EXCEPT !.prv[nx] = pv]
           c == [b EXCEPT !.prv[n] = 0, !.nxt[n] = 0, !.active = @ \ {n}, !.dirty = @ \/ isSec]
       IN IF c.cursor = n THEN [c EXCEPT !.cursor = pv] ELSE c

(* the loop of BaseBuilder::remove_nodes *)
RECURSIVE ClearChain(_, _, _, _, _, _)
ClearChain(R, node, l, pv, ss, fuel) ==
  LET nx == R.nxt[node]
      a == [R EXCEPT !.prv[node] = 0, !.nxt[node] = 0, !.active = @ \ {node}, !.dirty = @ \/ (node \in ss)]
      b == IF a.cursor = node THEN [a EXCEPT !.cursor = pv] ELSE a
  IN IF node = l \/ nx = 0 \/ fuel = 0 THEN b ELSE ClearChain(b, nx, l, pv, ss, fuel - 1)

(* BaseBuilder::remove_nodes *)
RemoveNodesF(R, f, l, ss) ==
  IF f = l THEN RemoveNodeF(R, f, f \in ss)
  ELSE IF f \notin R.active THEN R
  ELSE LET pv == R.prv[f]
           nx == R.nxt[l]
           a == IF R.first = f THEN [R EXCEPT !.first = nx] ELSE [R EXCEPT !.nxt[pv] = nx]
           b == IF a.last = l THEN [a EXCEPT !.last = pv] ELSE [a EXCEPT !.prv[nx] = pv]
       IN ClearChain(b, f, l, pv, ss, MaxNodes)

RECURSIVE Walk(_, _, _, _)
Walk(f, n, acc, fuel) == IF n = 0 \/ fuel = 0 THEN acc ELSE Walk(f, f[n], Append(acc, n), fuel - 1)

(* BaseBuilder::update_section_links: links of the active section nodes, in list order *)
LinksAfterUpdate(R, ss, links) ==
  LET w == SelectSeq(Walk(R.nxt, R.first, <<>>, MaxNodes + 2), LAMBDA n : n \in ss)
  IN [n \in Nodes |-> IF \E i \in DOMAIN w : w[i] = n
                        THEN LET i == CHOOSE i \in DOMAIN w : w[i] = n IN IF i < Len(w) THEN w[i + 1] ELSE 0
                        ELSE links[n]]

RECURSIVE SetToSeq(_)
SetToSeq(S) == IF S = {} THEN <<>> ELSE LET m == CHOOSE x \in S : \A y \in S : y <= x IN Append(SetToSeq(S \ {m}), m)

Proj == [fwd |-> Walk(nxt, first, <<>>, MaxNodes + 2), bwd |-> Walk(prv, last, <<>>, MaxNodes + 2),
         cur |-> cursor, act |-> SetToSeq(active)]
AbsProj == [fwd |-> seq, bwd |-> C!Rev(seq), cur |-> cur, act |-> seq]

SecSet == {secNode[s] : s \in Secs} \ {0}
GenCall(n) == [k |-> "Gen", v |-> n]
BindCall(l) == [k |-> "Bind", label |-> l]

Init ==
  /\ first = 1 /\ last = 1 /\ cursor = 1 /\ active = {1}
  /\ nxt = [n \in Nodes |-> 0] /\ prv = [n \in Nodes |-> 0]
  /\ secNode = [s \in Secs |-> IF s = 0 THEN 1 ELSE 0]
  /\ labNode = [l \in Labs |-> 0]
  /\ nextSec = [n \in Nodes |-> 0]
  /\ dirty = FALSE
  /\ nnodes = 1
  /\ C!CInit0(1)
  /\ lastOp = [op |-> "Init"]
  /\ hist = <<>>

Step(h) == Len(hist) < MaxOps /\ rej = 0 /\ done = 0 /\ hist' = Append(hist, h)

(* _emit / align / embed* / comment: a new node, add_node(node) *)
EmitGen ==
  /\ nnodes < MaxNodes
  /\ LET n == nnodes + 1 IN
     /\ Step(<<"Emit", n>>)
     /\ SetL(AddNodeF(L, n, FALSE))
     /\ nnodes' = n
     /\ UNCHANGED <<secNode, labNode, nextSec>>
     /\ C!Emit(GenCall(n), <<n>>, <<GenCall(n)>>, AbsProj')
     /\ lastOp' = [op |-> "Emit", call |-> GenCall(n), ns |-> <<n>>, ps |-> <<GenCall(n)>>]

(* bind(label): label_node_of(label) then add_node(node) *)
BindLabel(l) ==
  LET isNew == labNode[l] = 0
      n == IF isNew THEN nnodes + 1 ELSE labNode[l]
  IN /\ isNew => nnodes < MaxNodes
     /\ Step(<<"Bind", l, n>>)
     /\ labNode' = [labNode EXCEPT ![l] = n]
     /\ nnodes' = IF isNew THEN n ELSE nnodes
     /\ UNCHANGED <<secNode, nextSec>>
     /\ IF n \in active /\ BindGuard
          THEN /\ UNCHANGED <<first, last, nxt, prv, cursor, active, dirty>>
               /\ C!Rejected(BindCall(l), AbsProj')
               /\ lastOp' = [op |-> "Rejected", call |-> BindCall(l)]
          ELSE /\ SetL(AddNodeF(L, n, FALSE))
               /\ IF n \in active
                    THEN UNCHANGED gvars       \* the contract has no step for this: RefinesContract fails
                    ELSE C!Emit(BindCall(l), <<n>>, <<BindCall(l)>>, AbsProj')
               /\ lastOp' = [op |-> "Emit", call |-> BindCall(l), ns |-> <<n>>, ps |-> <<BindCall(l)>>]

(* section(s): section_node_of, then add_after(last) or the cached-link cursor move *)
SectionSwitch(s) ==
  LET isNew == secNode[s] = 0
      n == IF isNew THEN nnodes + 1 ELSE secNode[s]
      ss == SecSet \cup {n}
  IN /\ isNew => nnodes < MaxNodes
     /\ last # 0
     /\ Step(<<"Section", s, n>>)
     /\ secNode' = [secNode EXCEPT ![s] = n]
     /\ nnodes' = IF isNew THEN n ELSE nnodes
     /\ UNCHANGED labNode
     /\ IF n \notin active
          THEN /\ SetL([AddAfterF(L, n, last, TRUE) EXCEPT !.cursor = n])
               /\ UNCHANGED nextSec
          ELSE LET links == IF dirty THEN LinksAfterUpdate(L, ss, nextSec) ELSE nextSec
               IN /\ nextSec' = links
                  /\ SetL([L EXCEPT !.dirty = FALSE,
                                    !.cursor = IF links[n] # 0 THEN prv[links[n]] ELSE last])
     /\ C!SectionSwitch(s, n, C!SectionCall(s), AbsProj')
     /\ lastOp' = [op |-> "Section", s |-> s, n |-> n, payload |-> C!SectionCall(s)]

SetCursorOp(n) ==
  /\ n = 0 \/ n \in active
  /\ n # cursor
  /\ Step(<<"SetCursor", n>>)
  /\ SetL([L EXCEPT !.cursor = n])
  /\ UNCHANGED <<secNode, labNode, nextSec, nnodes>>
  /\ C!SetCursor(n, AbsProj')
  /\ lastOp' = [op |-> "SetCursor", n |-> n]

Created == 1 .. nnodes

AddNodeOp(n) ==
  /\ n \in Created \ active
  /\ Step(<<"AddNode", n>>)
  /\ SetL(AddNodeF(L, n, n \in SecSet))
  /\ UNCHANGED <<secNode, labNode, nextSec, nnodes>>
  /\ C!AddNode(n, callOf[n], AbsProj')
  /\ lastOp' = [op |-> "AddNode", n |-> n]

AddAfterOp(n, ref) ==
  /\ n \in Created \ active /\ ref \in active
  /\ Step(<<"AddAfter", n, ref>>)
  /\ SetL(AddAfterF(L, n, ref, n \in SecSet))
  /\ UNCHANGED <<secNode, labNode, nextSec, nnodes>>
  /\ C!AddAfter(n, ref, callOf[n], AbsProj')
  /\ lastOp' = [op |-> "AddAfter", n |-> n, ref |-> ref]

AddBeforeOp(n, ref) ==
  /\ n \in Created \ active /\ ref \in active
  /\ Step(<<"AddBefore", n, ref>>)
  /\ SetL(AddBeforeF(L, n, ref, n \in SecSet))
  /\ UNCHANGED <<secNode, labNode, nextSec, nnodes>>
  /\ C!AddBefore(n, ref, callOf[n], AbsProj')
  /\ lastOp' = [op |-> "AddBefore", n |-> n, ref |-> ref]

RemoveNodeOp(n) ==
  /\ n \in Created
  /\ Cardinality(active \ {n}) >= 1               \* the list is never emptied (finalize needs a node)
  /\ Step(<<"Remove", n>>)
  /\ SetL(RemoveNodeF(L, n, n \in SecSet))
  /\ UNCHANGED <<secNode, labNode, nextSec, nnodes>>
  /\ C!RemoveNode(n, AbsProj')
  /\ lastOp' = [op |-> "Remove", n |-> n]

(* precondition of the API: first precedes last in the list (or first is not part of the code) *)
RemoveNodesOp(f, l) ==
  /\ f \in Created /\ l \in Created /\ f # l
  /\ IF f \notin active THEN TRUE
     ELSE /\ l \in active
          /\ C!Idx(seq, f) < C!Idx(seq, l)
          /\ C!Idx(seq, l) - C!Idx(seq, f) + 1 < Len(seq)
  /\ Step(<<"RemoveRange", f, l>>)
  /\ SetL(RemoveNodesF(L, f, l, SecSet))
  /\ UNCHANGED <<secNode, labNode, nextSec, nnodes>>
  /\ C!RemoveNodes(f, l, AbsProj')
  /\ lastOp' = [op |-> "RemoveRange", f |-> f, l |-> l]

Next ==
  \/ EmitGen
  \/ \E l \in Labs : BindLabel(l)
  \/ \E s \in Secs : SectionSwitch(s)
  \/ \E n \in Nodes \cup {0} : SetCursorOp(n)
  \/ \E n \in Nodes : AddNodeOp(n) \/ RemoveNodeOp(n)
  \/ \E n, r \in Nodes : AddAfterOp(n, r) \/ AddBeforeOp(n, r) \/ RemoveNodesOp(n, r)

Spec == Init /\ [][Next]_vars

(* ---- refinement: every step of the algorithm is the contract step with the projection of the real list ---- *)
RefinesContract ==
  [][ LET o == lastOp' IN
      CASE o.op = "Emit"        -> C!Emit(o.call, o.ns, o.ps, Proj')
        [] o.op = "Rejected"    -> C!Rejected(o.call, Proj')
        [] o.op = "Section"     -> C!SectionSwitch(o.s, o.n, o.payload, Proj')
        [] o.op = "SetCursor"   -> C!SetCursor(o.n, Proj')
        [] o.op = "AddNode"     -> C!AddNode(o.n, callOf[o.n], Proj')
        [] o.op = "AddAfter"    -> C!AddAfter(o.n, o.ref, callOf[o.n], Proj')
        [] o.op = "AddBefore"   -> C!AddBefore(o.n, o.ref, callOf[o.n], Proj')
        [] o.op = "Remove"      -> C!RemoveNode(o.n, Proj')
        [] o.op = "RemoveRange" -> C!RemoveNodes(o.f, o.l, Proj') ]_vars

(* the same, as state invariants (clearer counterexamples) *)
ListRefinesSeq == C!Agrees(Proj, seq, cur)
ContractInv == C!CInv
(* serialize_to walks `next` from first: the calls handed to the assembler are callOf over seq *)
SerializedIsSeq == LET w == Walk(nxt, first, <<>>, MaxNodes + 2)
                   IN [i \in DOMAIN w |-> IF w[i] \in DOMAIN callOf THEN callOf[w[i]] ELSE "?"] = [i \in DOMAIN seq |-> callOf[seq[i]]]
(* cached section links are exact whenever they are not flagged dirty *)
LinksExact == ~dirty => \A n \in SecSet \cap active : nextSec[n] = LinksAfterUpdate(L, SecSet, nextSec)[n]
(* inactive nodes are unlinked *)
Unlinked == \A n \in Nodes \ active : nxt[n] = 0 /\ prv[n] = 0

View == <<ivars, gvars, Len(hist)>>

(* behaviour export: the edit script of every maximal behaviour *)
Export == (Len(hist) = MaxOps \/ rej = 1) => PrintT(<<"BEH", hist>>)
=============================================================================
