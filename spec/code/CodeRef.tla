-------------------------------- MODULE CodeRef --------------------------------
(* Contract-level specification of label references (property C03) and of absolute *)
(* references under relocation (property C04).                                      *)
(*                                                                                  *)
(* The state records what the program *means*: where every label was bound, where   *)
(* every reference site is, which label (+ addend) it designates.  The actions are   *)
(* parameterised by what the implementation reported (error codes, bytes appended,   *)
(* unresolved count, section offsets) and - at the end - by the raw bytes found at   *)
(* every reference site.  The architecture's reading of those bytes (x86 rel8/rel32, *)
(* RIP-relative disp32, absolute disp32; AArch64 imm26/imm19/imm14/ADR/ADRP) is      *)
(* defined here, from the manuals, and must yield exactly target - origin + addend.  *)
EXTENDS Integers, Sequences, FiniteSets, Wide20

VARIABLES arch,       \* "x86" | "x64" | "a64"
          base,       \* wide: base address in effect (<<0,0>> when none)
          secs,       \* Seq of [size, off, align]          (off: wide, assigned by flatten)
          cur,        \* current section (1-based)
          labels,     \* Seq of [bound, sec, off]
          refs,       \* Seq of reference records
          phase,      \* "emit" | "flat" | "resolved" | "relocated" | "relocfailed"
          bad,        \* set of ref indices whose site does not (yet) hold the exact value
          seen,       \* set of ref indices whose site bytes were examined
          atab        \* address table as found in the final image: [present, off, bytes]

cvars == <<arch, base, secs, cur, labels, refs, phase, bad, seen, atab>>

PcRelKinds == {"jmp", "jcc", "call", "jecxz", "loop", "riprel", "b26", "b19", "b14", "adr", "adrp"}
AbsKinds == {"embedlabel", "abs32"}
TargetKinds == {"absjmp", "absjcc", "absmem", "absadr", "absadrp"}            \* references to absolute addresses (no label)
LabelKinds == PcRelKinds \cup AbsKinds \cup {"embeddelta"}

Sec(s) == secs[s]
Lab(l) == labels[l]
TargetOf(l) == WAddI(Sec(Lab(l).sec).off, Lab(l).off)            \* image offset of a bound label
SiteOf(r) == WAddI(Sec(r.sec).off, r.at)

(* ---------------------------------------------------------------------------------------------- *)
(* the architecture's reading of a reference site                                                  *)
(* ---------------------------------------------------------------------------------------------- *)
Sub(bs, a, n) == SubSeq(bs, a + 1, a + n)                           \* n bytes starting at 0-based position a

(* x86: short forms are EB / 7x / E0..E3 (after optional 66/67 prefixes); everything else carries rel32 *)
X86FirstOpcode(bs) == IF bs[1] \in {102, 103} THEN (IF bs[2] \in {102, 103} THEN bs[3] ELSE bs[2]) ELSE bs[1]
X86RelSize(bs) == LET op == X86FirstOpcode(bs) IN
                  IF op = 235 \/ (op >= 112 /\ op <= 127) \/ (op >= 224 /\ op <= 227) THEN 1 ELSE 4

A64Imm26(bs) == LET u == bs[1] + bs[2] * 256 + bs[3] * 65536 + (bs[4] % 4) * 16777216 IN IF u >= 33554432 THEN u - 67108864 ELSE u
A64Imm19(bs) == LET u == (bs[1] \div 32) + bs[2] * 8 + bs[3] * 2048 IN IF u >= 262144 THEN u - 524288 ELSE u
A64Imm14(bs) == LET u == (bs[1] \div 32) + bs[2] * 8 + (bs[3] % 8) * 2048 IN IF u >= 8192 THEN u - 16384 ELSE u
A64Imm21(bs) == LET hi == (bs[1] \div 32) + bs[2] * 8 + bs[3] * 2048
                    lo == (bs[4] \div 32) % 4
                    u == hi * 4 + lo
                IN IF u >= 1048576 THEN u - 2097152 ELSE u

Page(w) == <<w[1], w[2] - (w[2] % 4096)>>

(* Is the value found at the site exactly what the reference designates?  (labels bound, layout known) *)
ExactPcRel(r, bs) ==
  LET T == WAddI(TargetOf(r.l), r.addend)
      S == SiteOf(r)
  IN CASE r.kind \in {"jmp", "jcc", "call", "jecxz", "loop"} ->
            LET n == X86RelSize(bs)
                E == WSub(T, WAddI(S, r.len))
            IN WFitsSigned(E, 8 * n) /\ WSignedFromBytes(Sub(bs, r.len - n, n)) = E
       [] r.kind = "riprel" ->
            LET E == WSub(T, WAddI(S, r.len))
            IN WFitsSigned(E, 32) /\ WSignedFromBytes(Sub(bs, r.len - 4 - r.immsz, 4)) = E
       [] r.kind = "b26" -> LET E == WSub(T, S) IN WIsMultiple(E, 2) /\ WFitsSigned(E, 28) /\ WInt(A64Imm26(bs) * 4) = E
       [] r.kind = "b19" -> LET E == WSub(T, S) IN WIsMultiple(E, 2) /\ WFitsSigned(E, 21) /\ WInt(A64Imm19(bs) * 4) = E
       [] r.kind = "b14" -> LET E == WSub(T, S) IN WIsMultiple(E, 2) /\ WFitsSigned(E, 16) /\ WInt(A64Imm14(bs) * 4) = E
       [] r.kind = "adr" -> LET E == WSub(T, S) IN WFitsSigned(E, 21) /\ WInt(A64Imm21(bs)) = E
       [] r.kind = "adrp" ->
            \* Xd = Page(PC) + imm21 * 4096 must be the page of the target (absolute addresses)
            LET PT == Page(WAdd(base, T)) PS == Page(WAdd(base, S))
                E == WShrK(WSub(PT, PS), 12)
            IN WFitsSigned(E, 21) /\ WInt(A64Imm21(bs)) = E
               \* and the low 12 bits the ADD/LDR after it would use must be those of the target: asmjit only accepts
               \* a target with the same page offset as the site or reports an error - either is within the property
       [] OTHER -> FALSE

LowBytes(bs, n) == SubSeq(bs, 1, n)
ZeroFrom(bs, a) == \A i \in a .. Len(bs) : bs[i] = 0
(* unsigned n-byte field equals the wide value E (addresses are below 2^48) *)
FieldIsUnsigned(bs, n, E) ==
  /\ WFitsUnsigned(E, IF n >= 6 THEN 48 ELSE 8 * n)
  /\ WFromBytes(SubSeq(bs, 1, IF n > 6 THEN 6 ELSE n)) = E
  /\ (n > 6 => ZeroFrom(bs, 7))
(* n-byte field equals E read as signed or as unsigned (label differences) *)
FieldIsDelta(bs, n, E) ==
  \/ FieldIsUnsigned(bs, n, E)
  \/ /\ WLt(E, <<0, 0>>)
     /\ WFitsSigned(E, IF n >= 6 THEN 48 ELSE 8 * n)
     /\ IF n <= 4 THEN WSignedFromBytes(SubSeq(bs, 1, n)) = E
        ELSE WSub(WFromBytes(SubSeq(bs, 1, 6)), WPow2(48)) = E /\ \A i \in 7 .. n : bs[i] = 255

ExactAbs(r, bs) ==
  CASE r.kind = "embedlabel" -> FieldIsUnsigned(bs, r.len, WAdd(base, TargetOf(r.l)))
    [] r.kind = "abs32" -> FieldIsUnsigned(Sub(bs, r.len - 4 - r.immsz, 4), 4, WAddI(WAdd(base, TargetOf(r.l)), r.addend))
    [] OTHER -> FALSE
ExactDelta(r, bs) == FieldIsDelta(bs, r.len, WSub(TargetOf(r.l), TargetOf(r.b)))

(* ---------------------------------------------------------------------------------------------- *)
(* actions                                                                                         *)
(* ---------------------------------------------------------------------------------------------- *)
CReset(a, b) == /\ arch' = a /\ base' = b
                /\ secs' = <<[size |-> 0, off |-> <<0, 0>>, align |-> 1]>> /\ cur' = 1
                /\ labels' = <<>> /\ refs' = <<>> /\ phase' = "emit" /\ bad' = {} /\ seen' = {}
                /\ atab' = [present |-> FALSE, off |-> <<0, 0>>, bytes |-> <<>>]

Unbound == {i \in 1 .. Len(refs) : refs[i].kind \in LabelKinds /\
                (~Lab(refs[i].l).bound \/ (refs[i].kind = "embeddelta" /\ ~Lab(refs[i].b).bound))}
Countable == {i \in 1 .. Len(refs) : refs[i].kind \in LabelKinds \ {"embeddelta"}}
(* what any report of the unresolved count must respect at any time *)
UnresPlausible(n) == n >= Cardinality({i \in Unbound \cap Countable : TRUE}) /\ n <= Cardinality(Countable)

NewLabel(l, n) == /\ l = Len(labels) + 1 /\ UnresPlausible(n)
                  /\ labels' = Append(labels, [bound |-> FALSE, sec |-> 0, off |-> 0])
                  /\ UNCHANGED <<arch, base, secs, cur, refs, phase, bad, seen, atab>>
NewSection(s, al) == /\ s = Len(secs) + 1
                     /\ secs' = Append(secs, [size |-> 0, off |-> <<0, 0>>, align |-> al])
                     /\ UNCHANGED <<arch, base, cur, labels, refs, phase, bad, seen, atab>>
Switch(s) == /\ s \in 1 .. Len(secs) /\ cur' = s /\ UNCHANGED <<arch, base, secs, labels, refs, phase, bad, seen, atab>>

(* every emitting call appends exactly `len` bytes at the end of the current section - nothing else *)
Appends(sec, at, len) == /\ sec = cur /\ at = Sec(cur).size /\ len >= 0
                         /\ secs' = [secs EXCEPT ![cur].size = @ + len]
Data(sec, at, len, n) == /\ len = n /\ Appends(sec, at, len)
                         /\ UNCHANGED <<arch, base, cur, labels, refs, phase, bad, seen, atab>>
Align(sec, at, len, al) == /\ (at + len) % al = 0 /\ len < al /\ Appends(sec, at, len)
                           /\ UNCHANGED <<arch, base, cur, labels, refs, phase, bad, seen, atab>>

BindOk(l, sec, off, n) ==
  /\ l \in 1 .. Len(labels) /\ ~Lab(l).bound
  /\ sec = cur /\ off = Sec(cur).size                 \* bound at the current position
  /\ labels' = [labels EXCEPT ![l] = [bound |-> TRUE, sec |-> sec, off |-> off]]
  /\ UNCHANGED <<arch, base, secs, cur, refs, phase, bad, seen, atab>>
BindRefused(l) == /\ l \in 1 .. Len(labels) /\ Lab(l).bound       \* only a second bind may be refused
                  /\ UNCHANGED cvars

RefOk(r, sec, at) ==
  /\ (r.kind \in LabelKinds => r.l \in 1 .. Len(labels))
  /\ Appends(sec, at, r.len) /\ r.len > 0
  /\ refs' = Append(refs, r)
  /\ UNCHANGED <<arch, base, cur, labels, phase, bad, seen, atab>>
RefRefused(len) == len = 0 /\ UNCHANGED cvars           \* a refused reference appends nothing

Flattened(offs) == /\ Len(offs) = Len(secs)
                   /\ secs' = [s \in 1 .. Len(secs) |-> [secs[s] EXCEPT !.off = offs[s]]]
                   /\ phase' = "flat"
                   /\ UNCHANGED <<arch, base, cur, labels, refs, bad, seen, atab>>
Resolved(n) == /\ phase = "flat" /\ UnresPlausible(n) /\ phase' = "resolved"
               /\ UNCHANGED <<arch, base, secs, cur, labels, refs, bad, seen, atab>>
Relocated(b, ok) == /\ phase = "resolved" /\ base' = b
                    /\ phase' = IF ok THEN "relocated" ELSE "relocfailed"
                    /\ UNCHANGED <<arch, secs, cur, labels, refs, bad, seen, atab>>

(* JitRuntime::add lays the sections out again before it relocates *)
Reflattened(offs, n) == /\ phase = "resolved" /\ Len(offs) = Len(secs) /\ UnresPlausible(n)
                        /\ secs' = [s \in 1 .. Len(secs) |-> [secs[s] EXCEPT !.off = offs[s]]]
                        /\ UNCHANGED <<arch, base, cur, labels, refs, phase, bad, seen, atab>>
AddrTable(t) == /\ phase \in {"relocated", "relocfailed"} /\ atab' = t
                /\ UNCHANGED <<arch, base, secs, cur, labels, refs, phase, bad, seen>>

(* ---- absolute targets (C04): what address does the instruction at the site transfer to / access? ---- *)
IsRex(b) == b >= 64 /\ b <= 79
Skip(bs) == IF arch = "x64" /\ (IsRex(bs[1]) \/ bs[1] = 103) THEN 1 ELSE 0      \* one REX or 67h prefix
EndOfInst(r) == WAddI(WAdd(base, SiteOf(r)), r.len)
SameAddr(a, b) == IF arch = "x86" THEN WEq(a, b) \/ WEq(WSub(a, b), WPow2(32)) \/ WEq(WSub(b, a), WPow2(32)) ELSE WEq(a, b)
SlotHolds(slotAddr, A) ==                      \* the 8 bytes at slotAddr are part of the image and hold A
  LET k == WSub(slotAddr, WAdd(base, atab.off)) IN
  /\ atab.present /\ WIsSmall(k) /\ WSmall(k) >= 0 /\ WSmall(k) + 8 <= Len(atab.bytes)
  /\ WFromBytes(SubSeq(atab.bytes, WSmall(k) + 1, WSmall(k) + 6)) = A
  /\ atab.bytes[WSmall(k) + 7] = 0 /\ atab.bytes[WSmall(k) + 8] = 0
ExactTarget(r, bs) ==
  LET A == r.target IN
  CASE r.kind = "absjmp" /\ arch = "a64" -> LET E == WSub(A, WAdd(base, SiteOf(r))) IN
                                               WIsMultiple(E, 2) /\ WFitsSigned(E, 28) /\ WInt(A64Imm26(bs) * 4) = E
    [] r.kind = "absadr" -> LET E == WSub(A, WAdd(base, SiteOf(r))) IN WFitsSigned(E, 21) /\ WInt(A64Imm21(bs)) = E
    [] r.kind = "absadrp" ->      \* Xd = Page(PC) + imm21 * 4096 must be the page of the absolute target
         LET E == WShrK(WSub(Page(A), Page(WAdd(base, SiteOf(r)))), 12) IN WFitsSigned(E, 21) /\ WInt(A64Imm21(bs)) = E
    [] r.kind = "absjmp" /\ arch # "a64" ->
         LET k == Skip(bs) op == bs[k + 1] IN
         CASE op \in {232, 233} -> SameAddr(WAdd(EndOfInst(r), WSignedFromBytes(Sub(bs, k + 1, 4))), A)
           [] op = 235 -> SameAddr(WAdd(EndOfInst(r), WSignedFromBytes(Sub(bs, k + 1, 1))), A)
           [] op = 255 /\ bs[k + 2] \in {37, 21} /\ arch = "x64" ->        \* jmp/call qword [rip + disp32] -> address table
                SlotHolds(WAdd(EndOfInst(r), WSignedFromBytes(Sub(bs, k + 2, 4))), A)
           [] OTHER -> FALSE
    [] r.kind = "absjcc" ->       \* jz / jb to an absolute target: 74|72 cb or 0F 84|82 cd (no address-table form exists)
         LET k == Skip(bs) op == bs[k + 1] IN
         CASE op \in {116, 114} -> SameAddr(WAdd(EndOfInst(r), WSignedFromBytes(Sub(bs, k + 1, 1))), A)
           [] op = 15 /\ bs[k + 2] \in {132, 130} -> SameAddr(WAdd(EndOfInst(r), WSignedFromBytes(Sub(bs, k + 2, 4))), A)
           [] OTHER -> FALSE
    [] r.kind = "absmem" ->       \* form 0: mov ecx,[m] (8B /1)   1: mov dword [m],imm32 (C7 /0)   2: add byte [m],imm8 (80 /0)
         LET has67 == bs[1] = 103
             k == IF has67 \/ (arch = "x64" /\ IsRex(bs[1])) THEN 1 ELSE 0
             opc == CASE r.form = 0 -> 139 [] r.form = 1 -> 199 [] OTHER -> 128
             regf == IF r.form = 0 THEN 8 ELSE 0             \* ModRM.reg << 3
         IN /\ bs[k + 1] = opc
            /\ CASE bs[k + 2] = regf + 5 /\ arch = "x64" -> WEq(WAdd(EndOfInst(r), WSignedFromBytes(Sub(bs, k + 2, 4))), A)    \* [rip + disp32]
                 [] bs[k + 2] = regf + 5 /\ arch = "x86" -> WEq(WFromBytes(Sub(bs, k + 2, 4)), A)                                \* [disp32]
                 [] bs[k + 2] = regf + 4 /\ bs[k + 3] = 37 ->                                                                    \* [sib: disp32]
                      IF has67 THEN WEq(WFromBytes(Sub(bs, k + 3, 4)), A) ELSE WEq(WSignedFromBytes(Sub(bs, k + 3, 4)), A)
                 [] OTHER -> FALSE
    [] OTHER -> FALSE

(* examining the bytes at reference site i in the final image *)
Site(i, bs) ==
  /\ phase \in {"relocated", "relocfailed"} /\ i \in 1 .. Len(refs) /\ i \notin seen /\ Len(bs) = refs[i].len
  /\ LET r == refs[i] IN
       IF i \in Unbound THEN bad' = bad \cup {i}
       ELSE CASE r.kind \in PcRelKinds -> bad' = (IF ExactPcRel(r, bs) THEN bad ELSE bad \cup {i})
              [] r.kind \in AbsKinds -> /\ (phase = "relocated" => ExactAbs(r, bs))      \* AbsExact (C04)
                                        /\ bad' = bad
              [] r.kind = "embeddelta" -> /\ ((phase = "relocated" \/ r.immediate) => ExactDelta(r, bs))
                                          /\ bad' = bad
              [] r.kind \in TargetKinds -> /\ (phase = "relocated" => ExactTarget(r, bs))
                                           /\ bad' = bad
  /\ seen' = seen \cup {i}
  /\ UNCHANGED <<arch, base, secs, cur, labels, refs, phase, atab>>

(* the end of an execution: every site was examined; the reported number of unresolved references is the     *)
(* number of references whose site does not hold the exact value (NeverTruncated + ZeroIffNone)              *)
(* ADRP is the one kind where the implementation may refuse more than the architecture does (it only accepts a  *)
(* target with the same page offset as the site); such a reference may stay counted although the placeholder   *)
(* happens to denote the right page.                                                                            *)
Conservative == {i \in 1 .. Len(refs) : refs[i].kind = "adrp"}
Finished(n) == /\ seen = 1 .. Len(refs)
               /\ n >= Cardinality(bad \cap Countable)                       \* every site that is not exact is counted
               /\ n <= Cardinality((bad \cup Conservative) \cap Countable)    \* and nothing else is
               /\ UNCHANGED cvars
=============================================================================
