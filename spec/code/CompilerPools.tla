---------------------------- MODULE CompilerPools -----------------------------
(* Contract extension of Builder.tla for the Compiler front end (property C08): *)
(* functions (add_func / end_func) and the built-in local / global constant    *)
(* pools (new_const and the new_*_const helpers).                               *)
(*                                                                              *)
(*   cfunc   closed, or the node ids [f, x, e] (FuncNode, exit label, end sentinel)  *)
(*           of the function being generated                                    *)
(*   lpool / gpool   the open local / global pool: its label and the constants *)
(*           added so far with the offsets new_const reported                   *)
(*                                                                              *)
(* PoolsPlacement (documented in constpool.h / x86compiler.h / compiler.h):     *)
(*   local  - "always embedded right after the current function", "added after *)
(*            the function epilog sequence": end_func() puts the pool node next *)
(*            to the function's end sentinel (after the exit label), wherever   *)
(*            the cursor is, and leaves the cursor on the end sentinel;         *)
(*   global - "embedded at the end of the currently compiled code", "flushed   *)
(*            at the end of the generated code by finalize()": after finalize() *)
(*            the pool node is the last node of the list, wherever the cursor   *)
(*            was.                                                              *)
(* Byte identity is decided by Finalize of Builder.tla: the harness' direct run *)
(* issues embed_const_pool(label, pool) at the pool node's place in the         *)
(* abstract list (local) / after the last node (global), pools built with the  *)
(* same add order.                                                              *)
EXTENDS Builder

VARIABLES cfunc, lpool, gpool
pvars == <<cfunc, lpool, gpool>>

Closed == [open |-> FALSE, label |-> 0, items |-> <<>>]
NoFunc == [open |-> FALSE, f |-> 0, x |-> 0, e |-> 0]
PInit == cfunc = NoFunc /\ lpool = Closed /\ gpool = Closed

ValidConstSize(n) == n \in {1, 2, 4, 8, 16, 32, 64}

(* new_const(scope, data, size) returned Ok and the memory operand [label + off]: no node is added *)
NewConst(scope, data, label, off, isLabelMem, p) ==
  /\ Open
  /\ scope \in {0, 1}
  /\ ValidConstSize(Len(data))
  /\ isLabelMem
  /\ off % Len(data) = 0
  /\ LET pl == IF scope = 0 THEN lpool ELSE gpool
         other == IF scope = 0 THEN gpool ELSE lpool
         item == [data |-> data, off |-> off]
         np == IF pl.open THEN [pl EXCEPT !.items = Append(@, item)]
                          ELSE [open |-> TRUE, label |-> label, items |-> <<item>>]
     IN /\ pl.open => label = pl.label                      \* one pool, one label, until it is flushed
        /\ other.open => label # other.label
        /\ \A i \in DOMAIN pl.items : pl.items[i].data = data => pl.items[i].off = off   \* duplicates are shared
        /\ IF scope = 0 THEN lpool' = np /\ UNCHANGED gpool ELSE gpool' = np /\ UNCHANGED lpool
  /\ UNCHANGED <<seq, cur, callOf, rej, done, cfunc>>
  /\ Agrees(p, seq, cur)

(* add_func(): FuncNode, exit label and end sentinel are inserted after the cursor; the cursor is the FuncNode *)
AddFunc(ns, ps, p) ==
  /\ Open /\ ~cfunc.open
  /\ Len(ns) = 3 /\ Len(ps) = 3 /\ Distinct(ns)
  /\ \A i \in DOMAIN ns : ns[i] # Null /\ ~InSeq(seq, ns[i])
  /\ ps[1].k = "Func" /\ ps[2].k = "Bind" /\ ps[3].k = "Sentinel"
  /\ seq' = InsertAfter(seq, cur, ns)
  /\ cur' = ns[1]
  /\ callOf' = Assign(callOf, ns, ps)
  /\ cfunc' = [open |-> TRUE, f |-> ns[1], x |-> ns[2], e |-> ns[3]]
  /\ UNCHANGED <<rej, done, lpool, gpool>>
  /\ Agrees(p, seq', cur')

(* end_func(): the open local pool (if any) becomes a node next to the end sentinel - independent of the cursor *)
EndFunc(n, payload, p) ==
  /\ Open /\ cfunc.open /\ InSeq(seq, cfunc.e)
  /\ IF lpool.open
       THEN /\ n # Null /\ ~InSeq(seq, n)
            /\ payload.k = "Pool" /\ payload.label = lpool.label
            /\ \E s2 \in {InsertBefore(seq, cfunc.e, <<n>>), InsertAfter(seq, cfunc.e, <<n>>)} : seq' = s2
            /\ callOf' = Assign(callOf, <<n>>, <<payload>>)
       ELSE UNCHANGED <<seq, callOf>>
  /\ cur' = cfunc.e
  /\ cfunc' = NoFunc
  /\ lpool' = Closed
  /\ UNCHANGED <<rej, done, gpool>>
  /\ Agrees(p, seq', cur')

Count(s, v) == Cardinality({i \in DOMAIN s : s[i] = v})

(* the list after finalize(): finalPools = labels of the pool nodes walking `next`; last node = the global pool *)
FinalPlacement(lastIsPool, lastLabel, finalPools) ==
  /\ ~cfunc.open
  /\ gpool.open => /\ lastIsPool /\ lastLabel = gpool.label
                   /\ Count(finalPools, gpool.label) = 1
  /\ \A i \in DOMAIN seq : callOf[seq[i]].k = "Pool" => Count(finalPools, callOf[seq[i]].label) = 1
=============================================================================
