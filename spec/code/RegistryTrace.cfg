SPECIFICATION TSpecG
CONSTANTS
  MaxLabelName = 2048
  MaxSectionName = 35
  MaxLabels = 2147483647
  MaxSections = 2147483647
  MaxRelocs = 2147483647
  RegSize = 8
  OrderMin <- TOrderMin
  OrderMax = 2147483647
  DupCheck = TRUE
  Known = {}
INVARIANTS RInv
CONSTRAINT Progress
POSTCONDITION TraceAccepted
