---------------------------- MODULE EmitContract ----------------------------
(* Contract-level specification of property C14:                                *)
(*   "Invalid input is rejected with an error and leaves emitter state          *)
(*    untouched."                                                               *)
(*                                                                              *)
(* State = the projection of (emitter, code holder) that the property talks     *)
(* about.  There is ONE action, Call, parameterised by what the code reported   *)
(* (return value, handler invocations, whether an exception left the call) and  *)
(* by the projection observed after the call.  It is enabled exactly for the    *)
(* outcomes the property allows:                                                *)
(*   Ok       - the projection may grow as the call kind allows;                *)
(*   Err(code)- the projection is UNCHANGED, the one-shot state is cleared,     *)
(*              the handler was told exactly once, with the returned code,      *)
(*              and - with a throwing handler - the exception left the call.    *)
(* The spec never decides WHETHER a call should fail (that is C13/C01/C02) and  *)
(* never compares error codes between emitters.                                 *)
(*                                                                              *)
(* Projection record (all Nat):                                                 *)
(*   ss  sequence of section buffer sizes          sd  digests of section bytes *)
(*   nl  labels   nf unresolved fixups   nr relocations   na addr-table entries *)
(*   nn  Builder nodes   cu  cursor position   cs  current section   off cursor *)
(*   nv  virtual registers (Compiler)                                           *)
(* One-shot state: <<options lo16, options hi16, extra-reg present, comment>>   *)
EXTENDS Naturals, Sequences, FiniteSets

VARIABLES proj,     \* projection after the last call
          os,       \* one-shot state after the last call
          cfg,      \* [arch, em, hk, att, vi] of the running execution (constant within one execution)
          pend      \* Builder with kValidateIntermediate: error with which a strictly validating Assembler refused a
                    \* request that the Builder accepted (0 = none so far)

evars == <<proj, os, cfg, pend>>

OsClear == <<0, 0, 0, 0>>

(* nb = bound labels; gf = fixups on the holder's global list (detached from their label: cross-section or        *)
(* out-of-range references); gb = how many of those carry no valid label id / section id; gd = digest of the list *)
EmptyProj == [ss |-> <<>>, sd |-> <<>>, nl |-> 0, nf |-> 0, nr |-> 0, na |-> 0,
              nn |-> 0, cu |-> 0, cs |-> 0, off |-> 0, nv |-> 0, nb |-> 0, gf |-> 0, gb |-> 0, gd |-> 0, eh |-> 1]

(* eh = 1 iff the emitter's configuration is what was attached: error_handler() is the attached handler (pointer      *)
(* identity; none when none), has_own_error_handler, logger identity, diagnostic options.  No call - least of all a  *)
(* refused finalize() whose handler throws - may change it.                                                          *)
ConfigIntact(np) == np.eh = 1

(* A detached fixup always names its label (fixup.h): the consumers of the holder - resolve_cross_section_fixups, *)
(* JitRuntime::add - index the label table with it.                                                              *)
FixupsWellFormed(np) == np.gb = 0 /\ ConfigIntact(np)

InstKinds == {"inst"}
IsInst(k) == k \in InstKinds

(* ---------------------------------------------------------------------------- *)
(* What the handler must have seen.  hk = "none": no handler attached.          *)
(*   hc  = sequence of codes handed to handle_error during the call             *)
(*   th  = 1 iff a C++ exception propagated out of the call                     *)
(* `must` = the property demands a notification for this call kind (instruction *)
(* emission).  For the other calls at most one notification is allowed.         *)
(* ---------------------------------------------------------------------------- *)
HandlerErr(hk, must, r, hc, th) ==
  IF hk = "none"
    THEN hc = <<>> /\ th = 0
    ELSE /\ Len(hc) <= 1
         /\ (must => Len(hc) = 1)
         /\ (Len(hc) = 1 => hc[1] = r)
         /\ (hk = "throw" => (th = 1 <=> Len(hc) = 1))
         /\ (hk = "rec" => th = 0)

HandlerOk(hc, th) == hc = <<>> /\ th = 0

(* ---------------------------------------------------------------------------- *)
(* Err outcome.                                                                 *)
(* ---------------------------------------------------------------------------- *)
OsKeptOrCleared(osin, nos) == \A i \in 1 .. 4 : nos[i] \in {0, osin[i]}

(* bind: a failing bind (e.g. one reference out of range) may still have resolved OTHER pending references of  *)
(* that label: bytes inside the buffers are patched and the unresolved-fixup count drops; nothing is appended  *)
(* or created, which is all the property demands.                                                             *)
UnchangedFor(k, np) ==
  IF k = "bind"
    THEN /\ np.ss = proj.ss /\ Len(np.sd) = Len(proj.sd) /\ np.nf <= proj.nf
         /\ np.nb \in {proj.nb, proj.nb + 1} /\ np.gf >= proj.gf
         /\ np.nl = proj.nl /\ np.nr = proj.nr /\ np.na = proj.na /\ np.nn = proj.nn /\ np.cu = proj.cu
         /\ np.cs = proj.cs /\ np.off = proj.off /\ np.nv = proj.nv
    ELSE np = proj

ErrOutcome(k, r, hc, th, osin, np, nos) ==
  /\ r # 0
  /\ UnchangedFor(k, np)                                    \* nothing appended / created / moved
  /\ IF IsInst(k) THEN nos = OsClear                        \* one-shot instruction state cleared
                  ELSE OsKeptOrCleared(osin, nos)           \* other calls: never garbage
  /\ HandlerErr(cfg.hk, IsInst(k), r, hc, th)

(* ---------------------------------------------------------------------------- *)
(* Ok outcome: deliberately loose (whether the bytes are CORRECT is C01/C02).    *)
(* ---------------------------------------------------------------------------- *)
Grown(a, b) == /\ Len(b) >= Len(a)
               /\ \A i \in 1 .. Len(a) : b[i] >= a[i]

SameExcept(a, b, i) == /\ Len(b) \in {Len(a), Len(a) + 1}      \* (+1: the implicit address-table section)
                       /\ \A j \in 1 .. Len(a) : j # i => b[j] = a[j]

\* a64: one instruction word, or a short sequence for pseudo forms (mov Xd, #imm64 = movz + up to 3 movk)
InstLenOk(arch, n) == IF arch = "a64" THEN n \in {4, 8, 12, 16} ELSE n >= 1 /\ n <= 15

OkInstAsm(np) ==
  LET c == proj.cs + 1 IN
  /\ np.cs = proj.cs
  /\ c <= Len(proj.ss)
  /\ SameExcept(proj.ss, np.ss, c) /\ SameExcept(proj.sd, np.sd, c)
  /\ Len(np.ss) = Len(np.sd)
  /\ InstLenOk(cfg.arch, np.ss[c] - proj.ss[c]) /\ np.ss[c] >= proj.ss[c]
  /\ np.off = proj.off + (np.ss[c] - proj.ss[c])
  /\ np.nl = proj.nl
  /\ np.nf \in {proj.nf, proj.nf + 1}
  /\ np.nr \in {proj.nr, proj.nr + 1}
  /\ np.na \in {proj.na, proj.na + 1}
  /\ np.nn = proj.nn /\ np.cu = proj.cu /\ np.nv = proj.nv
  /\ np.nb = proj.nb
  /\ np.gf \in {proj.gf, proj.gf + 1}     \* a reference to a label bound in ANOTHER section goes straight to the global list

OkInstNode(np) ==           \* Builder / Compiler: exactly one node after the cursor, nothing assembled yet
  /\ np.ss = proj.ss /\ np.sd = proj.sd
  /\ np.nl = proj.nl /\ np.nf = proj.nf /\ np.nr = proj.nr /\ np.na = proj.na
  /\ np.nn = proj.nn + 1 /\ np.cu = proj.cu + 1
  /\ np.nb = proj.nb /\ np.gf = proj.gf /\ np.gd = proj.gd

OkOther(np) ==
  /\ Grown(proj.ss, np.ss) /\ Len(np.ss) = Len(np.sd)
  /\ np.nl >= proj.nl /\ np.nr >= proj.nr /\ np.na >= proj.na /\ np.nn >= proj.nn /\ np.nv >= proj.nv

OkOutcome(k, hc, th, np) ==
  /\ HandlerOk(hc, th)
  /\ IF IsInst(k)
       THEN IF cfg.em = "asm" THEN OkInstAsm(np) ELSE OkInstNode(np)
       ELSE OkOther(np)

(* ---------------------------------------------------------------------------- *)
(* Finalize of a Builder / Compiler serialises MANY nodes: a failure may leave  *)
(* the output of the nodes before the failing one, so only the reporting        *)
(* discipline is demanded.                                                      *)
(* ---------------------------------------------------------------------------- *)
FinalizeOutcome(r, hc, th, np) ==
  /\ Grown(proj.ss, np.ss)
  /\ (r = 0 => pend = 0)       \* accepted under validation, refused by the strict Assembler, yet serialised "Ok" = garbage
  /\ IF r = 0 THEN HandlerOk(hc, th)
              ELSE HandlerErr(cfg.hk, FALSE, r, hc, th)

(* ---------------------------------------------------------------------------- *)
(* The one action.                                                              *)
(* ---------------------------------------------------------------------------- *)
(* A plain Builder (not a Compiler) has no virtual registers: with kValidateIntermediate on, a request whose register  *)
(* operand / memory base / memory index carries a virtual id (>= Operand::kVirtIdMin) must be refused.  vr = 1 iff   *)
(* the request carries one.  (Without validation the Builder is documented to accept anything until finalize.)       *)
(* x86 only: the AArch64 back end has no operand validator (a64instapi.cpp validate() accepts everything).        *)
VirtRule(k, r, vr) == (IsInst(k) /\ cfg.em = "builder" /\ cfg.arch # "a64" /\ cfg.vi /\ vr = 1) => r # 0

(* Operand fields outside their DOCUMENTED range: the 3-bit segment field of an x86 memory operand holds 7 (SReg ids   *)
(* are 0..6, x86operand.h) or its 3-bit broadcast field holds 7 (Broadcast is kNone..k1To64 = 0..6).  With strict       *)
(* validation on (Assembler: kValidateAssembler; Builder/Compiler: kValidateIntermediate) such a request denotes no      *)
(* instruction of the ISA and must be refused.  fr = 1 iff the request carries such a field.                             *)
ValidationOn == IF cfg.em = "asm" THEN cfg.va ELSE cfg.vi
FieldsInDocumentedRange(k, r, fr) == (IsInst(k) /\ cfg.arch # "a64" /\ ValidationOn /\ fr = 1) => r # 0

(* Fast path = Assembler without logger and without diagnostic options.  tw = what the SAME request returned in the    *)
(* twin execution (same seed, same calls, logger attached = slow path, no validation either).  Loggers and options are *)
(* documented not to change what is valid: accepted / refused must agree.                                               *)
FastSlowAgree(k, r, tw) == (IsInst(k) /\ cfg.fast) => ((r = 0) <=> (tw = 0))

(* embed_data_array on an Assembler: accepted => exactly item_count * size * repeat bytes were appended, computed as   *)
(* integers.  ew = 1 iff that product does not fit (>= 2^31; the harness computes it in 128 bits), eb = the product   *)
(* otherwise.  A wrapped product must be refused.                                                                     *)
Sum(seq) == LET RECURSIVE S(_) S(i) == IF i = 0 THEN 0 ELSE seq[i] + S(i - 1) IN S(Len(seq))
EmbedArrayExact(k, r, np, ew, eb) ==
  (k = "earr" /\ cfg.em = "asm" /\ r = 0) => (ew = 0 /\ Sum(np.ss) - Sum(proj.ss) = eb)

(* Requests that the documentation itself names as invalid must be refused (whatever the emitter kind or options):     *)
(* di = 1 iff the harness built one of                                                                                  *)
(*   - new_named_label(type kLocal, parent id that is not an existing label id) / (kGlobal|kExternal with a parent id)  *)
(*     -> kInvalidParentLabel (codeholder.h: "parent_id ... must be a valid label id of this holder");                  *)
(*   - AArch64 Assembler: a pc-relative word-scaled reference (b/bl/cbz/tbz/ldr literal) to a label already bound in    *)
(*     the current section at a distance that is not a multiple of 4 -> kInvalidDisplacement (the field cannot hold it; *)
(*     accepting would silently drop the low bits).                                                                     *)
DocumentedInvalidRefused(k, r, di) == di = 1 => r # 0

Call(k, r, hc, th, osin, np, nos, vr, sh, fr, tw, ew, eb, di) ==
  /\ IF k = "finalize" THEN FinalizeOutcome(r, hc, th, np)
     ELSE IF r = 0 THEN OkOutcome(k, hc, th, np)
     ELSE ErrOutcome(k, r, hc, th, osin, np, nos)
  /\ FixupsWellFormed(np)
  /\ VirtRule(k, r, vr)
  /\ FieldsInDocumentedRange(k, r, fr)
  /\ FastSlowAgree(k, r, tw)
  /\ DocumentedInvalidRefused(k, r, di)
  /\ EmbedArrayExact(k, r, np, ew, eb)
  /\ proj' = np
  /\ os' = nos
  /\ pend' = IF IsInst(k) /\ r = 0 /\ sh # 0 /\ pend = 0 THEN sh ELSE pend
  /\ UNCHANGED cfg

(* FreshEquivalent: a fixed valid probe program, emitted on the used emitter,   *)
(* produces exactly what it produces on a fresh emitter + holder.  `used` and   *)
(* `fresh` are the two observations (digest of the appended bytes / nodes,      *)
(* their count, labels / relocations / fixups created, first error).            *)
Probe(used, fresh, np, nos) ==
  /\ used = fresh
  /\ FixupsWellFormed(np)
  /\ proj' = np
  /\ os' = nos
  /\ UNCHANGED <<cfg, pend>>

(* Finishing phase: the consumers of the holder state (flatten, resolve_cross_section_fixups, relocate_to_base or *)
(* JitRuntime::add + release) ran to completion on the used holder - a crash never reaches this event - and,     *)
(* when every refused call had left the projection unchanged (cmp), produced exactly what they produce on the    *)
(* reference execution in which the refused calls are simply omitted: same result codes, unresolved count,       *)
(* labels, fixup list, section sizes and bytes.                                                                   *)
Finish(used, ref, cmp, np, nos) ==
  /\ (cmp => used = ref)
  /\ FixupsWellFormed(np)
  /\ proj' = np
  /\ os' = nos
  /\ UNCHANGED <<cfg, pend>>

CInit == proj = EmptyProj /\ os = OsClear /\ pend = 0
         /\ cfg = [arch |-> "x64", em |-> "asm", hk |-> "none", att |-> TRUE, vi |-> TRUE, va |-> TRUE, fast |-> FALSE]
=============================================================================
