SPECIFICATION Spec
CONSTANTS
  NL = 2
  NS = 2
  R = 2
  MaxOps = 7
  Quanta = {1, 2}
  ChainBoundLabels = FALSE
INVARIANTS ChainShape PatchedExact ZeroIffNone NeverTruncated
