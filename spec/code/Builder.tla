------------------------------- MODULE Builder -------------------------------
(* Contract-level specification of asmjit's BaseBuilder node list (property C08). *)
(*                                                                                *)
(* Abstract state = the node list as the user understands it:                    *)
(*   seq     sequence of node ids (the code, in order)                           *)
(*   cur     the cursor: a node id of seq, or Null (= insert before the first)   *)
(*   callOf  node id -> the complete emitter call the node stands for            *)
(*   rej     1 once an emitter call was refused when it was recorded             *)
(*   done    1 after Finalize                                                     *)
(*                                                                                *)
(* Every action is parameterised by what the real code reported: the payload the *)
(* node stores and the projection `p` of the real list after the call            *)
(*   p.fwd  ids walking `next` from first     p.bwd  ids walking `prev` from last *)
(*   p.cur  id of the cursor (0 = null)       p.act  ids of nodes flagged active  *)
(* and is enabled exactly when that projection equals the abstract list after the *)
(* abstract edit.  The same actions serve the refinement check of BuilderImpl and *)
(* the validation of traces recorded from the real Builder/Compiler.              *)
EXTENDS Naturals, Sequences, FiniteSets

VARIABLES seq, cur, callOf, rej, done
cvars == <<seq, cur, callOf, rej, done>>

Null == 0
Range(s) == {s[i] : i \in DOMAIN s}
InSeq(s, n) == n \in Range(s)
Idx(s, n) == CHOOSE i \in DOMAIN s : s[i] = n
Rev(s) == [i \in 1 .. Len(s) |-> s[Len(s) + 1 - i]]
Distinct(s) == \A i, j \in DOMAIN s : i # j => s[i] # s[j]
SetMin(S) == CHOOSE x \in S : \A y \in S : x <= y

InsertAfter(s, c, ns) == IF c = Null THEN ns \o s
                         ELSE SubSeq(s, 1, Idx(s, c)) \o ns \o SubSeq(s, Idx(s, c) + 1, Len(s))
InsertBefore(s, r, ns) == SubSeq(s, 1, Idx(s, r) - 1) \o ns \o SubSeq(s, Idx(s, r), Len(s))
Cut(s, i, j) == SubSeq(s, 1, i - 1) \o SubSeq(s, j + 1, Len(s))
Assign(co, ns, ps) == [x \in DOMAIN co \cup Range(ns) |-> IF x \in Range(ns) THEN ps[Idx(ns, x)] ELSE co[x]]
NodeBefore(s, i) == IF i <= 1 THEN Null ELSE s[i - 1]

(* the real list equals the abstract list *)
Agrees(p, s, c) == /\ p.fwd = s
                   /\ p.bwd = Rev(s)
                   /\ p.cur = c
                   /\ Len(p.act) = Len(s) /\ Range(p.act) = Range(s)

Open == rej = 0 /\ done = 0

SectionCall(s) == [k |-> "Section", sec |-> s]
IsSectionOf(n, s) == callOf[n].k = "Section" /\ callOf[n].sec = s
SecIdx(s) == {i \in DOMAIN seq : IsSectionOf(seq[i], s)}
(* last position of the region that starts at position i (a section node) *)
RegionEnd(i) == LET later == {j \in i + 1 .. Len(seq) : callOf[seq[j]].k = "Section"}
                IN IF later = {} THEN Len(seq) ELSE SetMin(later) - 1

CInit0(n0) == /\ seq = <<n0>> /\ cur = n0
              /\ callOf = [x \in {n0} |-> SectionCall(0)]
              /\ rej = 0 /\ done = 0

(* ---- emitter calls -------------------------------------------------------------------------------------- *)
(* An accepted emitter call: `ns` new nodes (one, except for embed_const_pool which the Builder records as   *)
(* several) are inserted after the cursor, the cursor becomes the last of them, and a single node stores      *)
(* exactly the call (instruction id, options, extra register, all operands, inline comment / data / label...). *)
Emit(call, ns, ps, p) ==
  /\ Open
  /\ call.k # "Section"
  /\ Len(ns) >= 1 /\ Len(ps) = Len(ns) /\ Distinct(ns)
  /\ \A i \in DOMAIN ns : ns[i] # Null /\ ~InSeq(seq, ns[i])
  /\ (call.k # "ConstPool" => Len(ns) = 1 /\ ps[1] = call)
  /\ seq' = InsertAfter(seq, cur, ns)
  /\ cur' = ns[Len(ns)]
  /\ callOf' = Assign(callOf, ns, ps)
  /\ UNCHANGED <<rej, done>>
  /\ Agrees(p, seq', cur')

(* A call refused when recorded changes nothing; whether refusing was right is decided by Finalize. *)
Rejected(call, p) ==
  /\ Open
  /\ rej' = 1
  /\ UNCHANGED <<seq, cur, callOf, done>>
  /\ Agrees(p, seq, cur)

(* section(s): a section that is not part of the code is appended at the end of the list; otherwise the *)
(* cursor moves to the end of the section's region, so that new code continues that section.           *)
SectionSwitch(s, n, payload, p) ==
  /\ Open
  /\ IF SecIdx(s) # {}
       THEN /\ cur' = seq[RegionEnd(SetMin(SecIdx(s)))]
            /\ UNCHANGED <<seq, callOf>>
       ELSE /\ Len(seq) >= 1
            /\ n # Null /\ ~InSeq(seq, n)
            /\ payload = SectionCall(s)
            /\ (n \in DOMAIN callOf => callOf[n] = payload)
            /\ seq' = Append(seq, n)
            /\ cur' = n
            /\ callOf' = Assign(callOf, <<n>>, <<payload>>)
  /\ UNCHANGED <<rej, done>>
  /\ Agrees(p, seq', cur')

(* ---- editing ---------------------------------------------------------------------------------------------- *)
SetCursor(n, p) ==
  /\ Open
  /\ n = Null \/ InSeq(seq, n)
  /\ cur' = n
  /\ UNCHANGED <<seq, callOf, rej, done>>
  /\ Agrees(p, seq, n)

(* a node that was removed keeps its payload; a node created by new_*_node() brings its own *)
Known(n, payload) == n # Null /\ ~InSeq(seq, n) /\ (n \in DOMAIN callOf => callOf[n] = payload)

AddNode(n, payload, p) ==
  /\ Open /\ Known(n, payload)
  /\ seq' = InsertAfter(seq, cur, <<n>>)
  /\ cur' = n
  /\ callOf' = Assign(callOf, <<n>>, <<payload>>)
  /\ UNCHANGED <<rej, done>>
  /\ Agrees(p, seq', cur')

AddAfter(n, ref, payload, p) ==
  /\ Open /\ Known(n, payload) /\ InSeq(seq, ref)
  /\ seq' = InsertAfter(seq, ref, <<n>>)
  /\ cur' = cur
  /\ callOf' = Assign(callOf, <<n>>, <<payload>>)
  /\ UNCHANGED <<rej, done>>
  /\ Agrees(p, seq', cur')

AddBefore(n, ref, payload, p) ==
  /\ Open /\ Known(n, payload) /\ InSeq(seq, ref)
  /\ seq' = InsertBefore(seq, ref, <<n>>)
  /\ cur' = cur
  /\ callOf' = Assign(callOf, <<n>>, <<payload>>)
  /\ UNCHANGED <<rej, done>>
  /\ Agrees(p, seq', cur')

(* removing the cursor node moves the cursor to the node before it (null if it was the first) *)
RemoveNode(n, p) ==
  /\ Open
  /\ IF ~InSeq(seq, n)
       THEN UNCHANGED <<seq, cur>>
       ELSE LET i == Idx(seq, n) IN
            /\ seq' = Cut(seq, i, i)
            /\ cur' = IF cur = n THEN NodeBefore(seq, i) ELSE cur
  /\ UNCHANGED <<callOf, rej, done>>
  /\ Agrees(p, seq', cur')

RemoveNodes(f, l, p) ==
  /\ Open
  /\ IF ~InSeq(seq, f)
       THEN UNCHANGED <<seq, cur>>
       ELSE /\ InSeq(seq, l) /\ Idx(seq, f) <= Idx(seq, l)
            /\ LET i == Idx(seq, f)
                   j == Idx(seq, l)
               IN /\ seq' = Cut(seq, i, j)
                  /\ cur' = IF cur # Null /\ Idx(seq, cur) \in i .. j THEN NodeBefore(seq, i) ELSE cur
  /\ UNCHANGED <<callOf, rej, done>>
  /\ Agrees(p, seq', cur')

(* ---- serialisation ---------------------------------------------------------------------------------------- *)
(* serialize_to(dst): the calls handed to the destination emitter are the recorded calls in list order; it    *)
(* stops at the first call the destination refuses (perr = its 1-based position, 0 = none refused).          *)
Serialized(calls, perr) ==
  /\ done = 0
  /\ Len(calls) <= Len(seq)
  /\ \A i \in DOMAIN calls : calls[i] = callOf[seq[i]]
  /\ IF perr = 0 THEN Len(calls) = Len(seq) ELSE Len(calls) = perr
  /\ UNCHANGED cvars

(* finalize(): `order` is the order in which the harness issued the recorded calls to a fresh Assembler on a  *)
(* fresh, identically configured CodeHolder (followed by the refused call, if any); dB / dD are the digests   *)
(* (section bytes, label positions, relocations) of the Builder's and of the direct run; finOk = finalize()   *)
(* returned Ok; perr = position at which serialisation stopped (0 unknown); errD = 1-based position of the    *)
(* first call the direct Assembler refused (0 = none).  Both runs stop at their first failure; the position    *)
(* of that failure and everything produced before it must coincide.  Error codes are not compared.           *)
(* `extra` = number of calls the emitter itself appends after the last node when it finalizes (0 for a Builder; *)
(* 1 for a Compiler with an open global constant pool, see CompilerPools.tla).                                    *)
FinalizeX(order, dB, dD, finOk, perr, errD, extra) ==
  /\ done = 0
  /\ order = seq
  /\ dB = dD
  /\ \/ finOk /\ rej = 0 /\ errD = 0
     \/ finOk /\ rej = 1 /\ errD = Len(seq) + extra + 1
     \/ ~finOk /\ errD \in 1 .. Len(seq) + extra /\ (perr > 0 => perr = errD)
  /\ done' = 1
  /\ UNCHANGED <<seq, cur, callOf, rej>>

Finalize(order, dB, dD, finOk, perr, errD) == FinalizeX(order, dB, dD, finOk, perr, errD, 0)

(* ---- sanity of the abstract state ---- *)
CInv == /\ Distinct(seq)
        /\ cur = Null \/ InSeq(seq, cur)
        /\ Range(seq) \subseteq DOMAIN callOf
=============================================================================
