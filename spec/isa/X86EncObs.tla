------------------------------ MODULE X86EncObs --------------------------------
(* C01, binding (P): every line of the observation file (env OBS) is one initial state; the invariant is the       *)
(* verdict of X86Enc.tla on that observation.  Rejected observations print <<"REJECT", line, clause, row>>, not   *)
(* judged ones <<"UNJUDGED", line, why>> (they do not violate the invariant); TLC runs with -continue.            *)
(* Accepted observations that needed a named deviation action print <<"DEVIATION", line, name>>.                   *)
EXTENDS X86Enc

VARIABLE i

Obs == ndJsonDeserialize(IOEnv.OBS)

Init == i \in 1..Len(Obs)
Next == UNCHANGED i
Spec == Init /\ [][Next]_i

Conforms == LET v == Verdict(Obs[i])
            IN CASE v[1] = "ok" -> v[2] = "" \/ PrintT(<<"DEVIATION", i, v[2]>>)
                 [] v[1] = "U"  -> PrintT(<<"UNJUDGED", i, v[2]>>)
                 [] OTHER       -> PrintT(<<"REJECT", i, v[2], v[3]>>) /\ FALSE
=============================================================================
