-------------------------------- MODULE A64Enc ---------------------------------
(* C02: AArch64 instruction encodings.                                                                     *)
(*                                                                                                          *)
(* A word is <<lo16, hi16>>.  A ROW is one bit template of the ISA database (db/isa_aarch64.json, exported  *)
(* by tools/db_export_a64.js): literal bits (mask/val limbs) and named fields, each field a list of         *)
(* segments <<word_lo, width, field_lo>> (split fields such as idx[1:0] .. idx[2] have several) and a FIELD *)
(* RULE.  The rules are written here from the Arm ARM (DDI 0487) encoding descriptions: register numbers,   *)
(* SP/ZR, shifts/extends, scaled offsets, element indices (H:L:M comes out of the row's own idx[..] pieces), *)
(* immh:immb shift immediates, bitfield aliases, bitmask and floating-point immediates (A64Imm.tla).        *)
(* Nothing is transcribed from asmjit's a64assembler.cpp.                                                    *)
(*                                                                                                          *)
(*   RuleVal(row, f, o)   the value the architecture assigns to field f for operands o;                     *)
(*                        NoVal = these operands have no encoding in this row; AnyVal = not determined       *)
(*   RuleChk(row, f, o, x) for the immediates whose encoding is defined by a decoder (bitmask, fp8)          *)
(*   Matches(row, o, w)   literals equal and every field equal to its rule's value                           *)
(*   Refused(row, o)      some field has NoVal                                                               *)
(*   AcceptedDenotesRow   an accepted instruction must have a database row whose operand pattern is the one   *)
(*                        passed (LegVerdict: rs = {} => "accepted-non-form") and whose template it matches   *)
EXTENDS A64Imm, Json, IOUtils

NoVal  == 0 - 1
AnyVal == 0 - 2

Pow2(n) == 2^n
(* bits lo+n-1..lo of a word, n <= 26 *)
WField(w, lo, n) ==
  IF lo >= 16 THEN (w[2] \div Pow2(lo - 16)) % Pow2(n)
  ELSE IF lo + n <= 16 THEN (w[1] \div Pow2(lo)) % Pow2(n)
  ELSE (w[1] \div Pow2(lo)) + (w[2] % Pow2(lo + n - 16)) * Pow2(16 - lo)

(* literal bits: for every set mask bit the word bit equals the value bit; evaluated limb-wise on bit vectors *)
LitOK(row, w) ==
  \A h \in 1..2 : \A b \in 0..15 :
     ((row.mask[h] \div Pow2(b)) % 2 = 1) => ((w[h] \div Pow2(b)) % 2 = (row.val[h] \div Pow2(b)) % 2)

(* value of field bits <<flo + width - 1 .. flo>> of x *)
Piece(x, flo, n) == (x \div Pow2(flo)) % Pow2(n)
SegsOK(w, segs, x) == \A s \in 1..Len(segs) : WField(w, segs[s][1], segs[s][2]) = Piece(x, segs[s][3], segs[s][2])

-----------------------------------------------------------------------------
(* operands *)
Absent(op)  == op.k = "-"
ESize(ch)   == CASE ch = "B" -> 0 [] ch = "H" -> 1 [] ch = "S" -> 2 [] ch = "D" -> 3 [] ch = "Q" -> 4
                 [] ch = "b" -> 0 [] ch = "h" -> 1 [] ch = "s" -> 2 [] ch = "d" -> 3 [] ch = "q" -> 4
(* log2 of the element size of an arrangement / element type / scalar type *)
ArrESize(a) == CASE a \in {"8B", "16B", "4B", "B"} -> 0 [] a \in {"2H", "4H", "8H", "H"} -> 1
                 [] a \in {"2S", "4S", "S", "1S"} -> 2 [] a \in {"1D", "2D", "D"} -> 3 [] a \in {"1Q", "Q"} -> 4
VecESize(op) == IF op.arr = "" THEN ESize(op.t) ELSE ArrESize(op.arr)
VecOps(o)   == {k \in 1..Len(o) : o[k].k = "v"}
MinESize(o) == LET S == {VecESize(o[k]) : k \in VecOps(o)} IN CHOOSE m \in S : \A x \in S : m <= x

(* the entries of the row's arrangement list (t / ta.tb) the operands instantiate; row.ov[k] names the variable *)
ArrEntries(row, o) ==
  {e \in 1..Len(row.tl) :
     \A k \in 1..Len(o) : (row.ov[k] # "" /\ o[k].k = "v") =>
        o[k].arr = (IF row.ov[k] = "tb" THEN row.tl[e][2] ELSE row.tl[e][1])}
EntryESize(row, e) == LET S == {ArrESize(row.tl[e][j]) : j \in 1..Len(row.tl[e])} IN CHOOSE m \in S : \A x \in S : m <= x

SInt(v, n)  == IF v >= 0 THEN v ELSE Pow2(n) + v           \* two's complement of a small negative number
InS(v, n)   == v >= 0 - Pow2(n - 1) /\ v < Pow2(n - 1)
InU(v, n)   == v >= 0 /\ v < Pow2(n)
Small(op)   == op.big = 0

ShiftIdx(s) == CASE s = "lsl" -> 0 [] s = "lsr" -> 1 [] s = "asr" -> 2 [] s = "ror" -> 3 [] OTHER -> 9
ExtIdx(s)   == CASE s = "uxtb" -> 0 [] s = "uxth" -> 1 [] s = "uxtw" -> 2 [] s = "uxtx" -> 3
                 [] s = "sxtb" -> 4 [] s = "sxth" -> 5 [] s = "sxtw" -> 6 [] s = "sxtx" -> 7 [] OTHER -> 9

-----------------------------------------------------------------------------
(* bitfield aliases (Arm ARM, alias conditions of UBFM/SBFM/BFM): a = first immediate, b = second, size = 32/64 *)
BFValid(nm, a, b, size) ==
  IF nm \in {"lsl", "lsr", "asr"} THEN InU(a, 6) /\ a < size
  ELSE IF nm \in {"ubfx", "sbfx", "bfxil", "ubfiz", "sbfiz", "bfi", "bfc"} THEN a >= 0 /\ a < size /\ b >= 1 /\ a + b <= size
  ELSE a >= 0 /\ a < size /\ b >= 0 /\ b < size
BFImmr(nm, a, b, size) ==
  IF nm \in {"lsl", "ubfiz", "sbfiz", "bfi", "bfc"} THEN (size - a) % size ELSE a
BFImms(nm, a, b, size) ==
  IF nm = "lsl" THEN size - 1 - a
  ELSE IF nm \in {"lsr", "asr"} THEN size - 1
  ELSE IF nm \in {"ubfx", "sbfx", "bfxil"} THEN a + b - 1
  ELSE IF nm \in {"ubfiz", "sbfiz", "bfi", "bfc"} THEN b - 1
  ELSE b

(* AdvSIMD shift by immediate: enc = immh:immb.  es = log2 of the (narrower) element size in bytes.             *)
(*   right shifts (SSHR.., SHRN.., fixed-point fbits): shift = 2*esize - enc, 1 <= shift <= esize               *)
(*   left shifts (SHL, SLI, SQSHL.., SSHLL..):         shift = enc - esize,   0 <= shift <  esize               *)
ShEnc(kind, n, es) ==
  LET esize == 8 * Pow2(es)
  IN IF es > 3 THEN NoVal
     ELSE IF kind \in {"shr", "shrn"} THEN (IF n >= 1 /\ n <= esize THEN 2 * esize - n ELSE NoVal)
     ELSE (IF n >= 0 /\ n < esize THEN esize + n ELSE NoVal)

(* add/sub immediate: <<sh, imm12>> for the immediate operand and the optional "lsl #0|12" *)
AddSub(imm, mod) ==
  LET none == <<NoVal, NoVal>> IN
  IF imm.big = 1 \/ imm.v < 0 THEN none
  ELSE IF Absent(mod) \/ mod.amt < 0 THEN
         (IF imm.v < 4096 THEN <<0, imm.v>>
          ELSE IF imm.v % 4096 = 0 /\ imm.v \div 4096 < 4096 THEN <<1, imm.v \div 4096>> ELSE none)
  ELSE IF mod.op # "lsl" \/ imm.v >= 4096 THEN none
  ELSE IF mod.amt = 0 THEN <<0, imm.v>> ELSE IF mod.amt = 12 THEN <<1, imm.v>> ELSE none

-----------------------------------------------------------------------------
(* PC-relative operands.  The operand that was passed denotes a TARGET; the field holds target - PC (ADRP: page(target) - page(PC)).  *)
(* The target is either given as a displacement (immediate form, A.v / A.off) or as a LABEL bound at section offset lpos, plus the      *)
(* offset of a label-based memory operand (moff): target = label position + offset.  The instruction sits at section offset pc; the     *)
(* section base is page aligned.  This holds whether the label is bound before (backward reference) or after (fixup) the instruction. *)
IsLab(A)    == "lab" \in DOMAIN A /\ A.lab = 1
RelDisp(A)  == IF IsLab(A) THEN A.lpos - A.pc ELSE A.v
MemDisp(A)  == IF IsLab(A) THEN A.lpos + A.moff - A.pc ELSE A.off
PageDisp(A) == IF IsLab(A) THEN (A.lpos \div 4096) - (A.pc \div 4096) ELSE IF A.v % 4096 = 0 THEN A.v \div 4096 ELSE 0 - 16777216

RuleVal(row, f, o) ==
  LET A == o[f.a]
      B == o[f.b]
      r == f.rule
  IN
  CASE r = "gp" -> IF A.id < 31 THEN A.id ELSE IF A.id = 31 /\ A.sp = f.p THEN 31 ELSE NoVal
    [] r = "vreg" -> IF A.id <= f.p THEN A.id ELSE NoVal
    [] r = "gplist" -> IF /\ \A j \in 1..Len(A.ids) : A.ids[j] = A.id + j - 1 /\ A.ids[j] < 31
                          /\ Len(A.ids) = f.p /\ (f.p = 2 => A.id % 2 = 0) THEN 0 ELSE NoVal
    [] r = "vlist" -> IF Len(A.ids) = f.p /\ \A j \in 1..Len(A.ids) : A.ids[j] = (A.id + j - 1) % 32 /\ A.ids[j] <= 31 THEN 0 ELSE NoVal
    [] r = "membase" -> IF A.b < 31 THEN A.b ELSE IF A.b = 31 /\ A.bsp = 1 THEN 31 ELSE NoVal
    [] r = "memidx" -> IF A.xi >= 0 /\ A.xi < 31 THEN A.xi ELSE IF A.xi = 31 /\ A.xsp = 0 /\ f.p = 0 THEN 31 ELSE NoVal
    [] r = "sz_arr" -> LET E == ArrEntries(row, o) IN
                       IF E = {} THEN NoVal ELSE LET s == EntryESize(row, CHOOSE e \in E : TRUE) IN
                       IF f.p = 2 THEN (IF s <= 3 THEN s ELSE NoVal) ELSE (IF s \in {2, 3} THEN s - 2 ELSE NoVal)
    [] r = "sz_min" -> LET s == MinESize(o) IN IF f.p = 2 THEN (IF s <= 3 THEN s ELSE NoVal) ELSE (IF s \in {2, 3} THEN s - 2 ELSE NoVal)
    [] r = "arr_in_list" -> IF ArrEntries(row, o) = {} THEN NoVal ELSE 0
    [] r = "eidx" -> IF A.ei >= 0 /\ A.ei <= f.p THEN A.ei ELSE NoVal
    [] r = "eidx_fixed" -> IF A.ei = f.p THEN 0 ELSE NoVal
    [] r = "ext_option" ->
         LET code == IF Absent(A) \/ A.op = "lsl" THEN (IF f.p = 64 THEN 3 ELSE 2) ELSE ExtIdx(A.op)
         IN IF code = 9 THEN NoVal
            ELSE IF f.p = 64 /\ (B.t = "x") # (code \in {3, 7}) THEN NoVal
            ELSE IF f.p = 32 /\ B.t # "w" THEN NoVal ELSE code
    [] r = "ext_amount" -> IF Absent(A) \/ A.amt < 0 THEN 0 ELSE IF A.amt <= 4 THEN A.amt ELSE NoVal
    [] r = "sop" -> IF Absent(A) THEN 0 ELSE IF ShiftIdx(A.op) < f.p THEN ShiftIdx(A.op) ELSE NoVal
    [] r = "shamt" -> IF Absent(A) \/ A.amt < 0 THEN 0 ELSE IF A.amt < f.p THEN A.amt ELSE NoVal
    [] r = "lsl_amount" -> IF Absent(A) \/ A.amt < 0 THEN 0 ELSE IF A.op = "lsl" /\ A.amt <= f.p THEN A.amt ELSE NoVal
    [] r = "mem_notpost" -> IF A.mode = "post" THEN 0 ELSE 1
    [] r = "mem_wback" -> IF A.mode = "o" THEN 0 ELSE 1
    [] r = "mem_mode" -> LET bit == CASE A.mode = "o" -> 1 [] A.mode = "post" -> 2 [] A.mode = "pre" -> 4
                         IN IF (f.p \div bit) % 2 = 1 THEN 0 ELSE NoVal
    [] r = "off_s" -> LET d == MemDisp(A) IN IF A.xi >= 0 THEN NoVal ELSE IF d % f.p = 0 /\ InS(d \div f.p, f.q) THEN SInt(d \div f.p, f.q) ELSE NoVal
    [] r = "off_u" -> LET d == MemDisp(A) IN IF A.xi >= 0 THEN NoVal ELSE IF d % f.p = 0 /\ InU(d \div f.p, f.q) THEN d \div f.p ELSE NoVal
    [] r = "off_fixed" -> IF A.xi < 0 /\ A.off = f.p THEN 0 ELSE NoVal
    [] r = "off_fixed_shl" -> IF A.xi < 0 /\ A.off = f.p * Pow2(MinESize(o)) THEN 0 ELSE NoVal
    [] r = "idx_option" ->
         LET code == CASE A.sh \in {"", "lsl"} -> 3 [] A.sh = "uxtw" -> 2 [] A.sh = "sxtw" -> 6 [] A.sh = "sxtx" -> 7 [] OTHER -> 9
         IN IF A.xi < 0 \/ code = 9 THEN NoVal ELSE IF (A.xt = "x") # (code \in {3, 7}) THEN NoVal ELSE code
    [] r = "idx_s" -> IF A.amt < 0 THEN 0 ELSE IF A.amt = 0 THEN (IF f.p = 0 THEN AnyVal ELSE 0) ELSE IF A.amt = f.p THEN 1 ELSE NoVal
    [] r = "idx_plain" -> IF A.xi >= 0 /\ A.xi < 31 /\ A.xt = "x" /\ A.amt < 0 /\ A.sh = "" THEN 0 ELSE NoVal
    [] r = "cond" -> IF A.c >= 0 /\ A.c <= 15 THEN A.c ELSE NoVal
    [] r = "cond_inv" -> IF A.c >= 0 /\ A.c <= 13 THEN (IF A.c % 2 = 0 THEN A.c + 1 ELSE A.c - 1) ELSE NoVal
    [] r = "rel" -> LET d == RelDisp(A) IN IF d % f.p = 0 /\ InS(d \div f.p, f.q) THEN SInt(d \div f.p, f.q) ELSE NoVal
    [] r = "rel_page" -> LET d == PageDisp(A) IN IF InS(d, f.q) THEN SInt(d, f.q) ELSE NoVal
    [] r = "imm_u" -> IF Small(A) /\ InU(A.v, f.p) THEN A.v ELSE NoVal
    [] r = "imm_u_opt" -> IF Absent(A) THEN f.q ELSE IF Small(A) /\ InU(A.v, f.p) THEN A.v ELSE NoVal
    [] r = "imm_s" -> IF Small(A) /\ InS(A.v, f.p) THEN SInt(A.v, f.p) ELSE NoVal
    [] r = "imm_u_lt" -> IF Small(A) /\ A.v >= 0 /\ A.v < f.p THEN A.v ELSE NoVal
    [] r = "sysreg16" -> IF Small(A) /\ A.v >= 32768 /\ A.v < 65536 THEN A.v - 32768 ELSE NoVal   \* op0<1> = 1 is a literal bit
    [] r = "imm_fixed" -> IF Small(A) /\ A.v = f.p THEN 0 ELSE NoVal
    [] r = "hw" -> IF Absent(A) \/ A.amt < 0 THEN 0
                   ELSE IF A.op = "lsl" /\ A.amt % 16 = 0 /\ A.amt >= 0 /\ A.amt < f.p THEN A.amt \div 16 ELSE NoVal
    [] r = "addsub_sh" -> AddSub(A, B)[1]
    [] r = "addsub_imm12" -> AddSub(A, B)[2]
    [] r = "fbits_scale" -> IF Small(A) /\ A.v >= 1 /\ A.v <= f.p THEN 64 - A.v ELSE NoVal
    [] r = "simd_sh_h" ->
         LET e == IF Small(A) THEN ShEnc(f.q2, A.v, MinESize(o)) ELSE NoVal IN IF e = NoVal THEN NoVal ELSE e \div 8
    [] r = "simd_sh_b" ->
         LET e == IF Small(A) THEN ShEnc(f.q2, A.v, MinESize(o)) ELSE NoVal IN IF e = NoVal THEN NoVal ELSE e % 8
    [] r = "bf_immr" -> IF Small(A) /\ (f.b = 0 \/ Small(B)) /\ BFValid(f.q2, A.v, IF f.b = 0 THEN 0 ELSE B.v, f.p)
                        THEN BFImmr(f.q2, A.v, IF f.b = 0 THEN 0 ELSE B.v, f.p) ELSE NoVal
    [] r = "bf_imms" -> IF Small(A) /\ (f.b = 0 \/ Small(B)) /\ BFValid(f.q2, A.v, IF f.b = 0 THEN 0 ELSE B.v, f.p)
                        THEN BFImms(f.q2, A.v, IF f.b = 0 THEN 0 ELSE B.v, f.p) ELSE NoVal
    [] r \in {"logimm13", "fp8", "fp8_abc", "fp8_defgh"} -> AnyVal         \* decided by RuleChk / RuleEnc
    [] OTHER -> Assert(FALSE, <<"unknown rule", r>>)

(* immediates defined by the architecture's DECODER: the field value x is right iff decoding it gives the operand *)
LogImmEnc(A, size) == (size = 64 \/ (A.l[3] = 0 /\ A.l[4] = 0)) /\ <<A.l[1], A.l[2], A.l[3], A.l[4]>> \in LogicalValues(size)
RuleEnc(row, f, o) ==
  CASE f.rule = "logimm13" -> LogImmEnc(o[f.a], f.p)
    [] f.rule \in {"fp8", "fp8_abc", "fp8_defgh"} -> FPMember(o[f.a].l, 64)
    [] OTHER -> RuleVal(row, f, o) # NoVal
FP8Of(A) == FPCand(BitsOfLimbs(A.l), 64)
RuleChk(row, f, o, w) ==
  CASE f.rule = "logimm13" ->
         LET x == WField(w, f.segs[1][1], 13)
             m == DecodeBitMasks(x \div 4096, x % 64, (x \div 64) % 64, f.p)
         IN m # Undef /\ LimbsOf(m) = <<o[f.a].l[1], o[f.a].l[2], IF f.p = 64 THEN o[f.a].l[3] ELSE 0, IF f.p = 64 THEN o[f.a].l[4] ELSE 0>>
    [] f.rule = "fp8" -> SegsOK(w, f.segs, FP8Of(o[f.a]))
    [] f.rule = "fp8_abc" -> SegsOK(w, f.segs, FP8Of(o[f.a]) \div 32)
    [] f.rule = "fp8_defgh" -> SegsOK(w, f.segs, FP8Of(o[f.a]) % 32)
    [] OTHER -> LET v == RuleVal(row, f, o) IN v = AnyVal \/ (Len(f.segs) = 0) \/ SegsOK(w, f.segs, v)

Refused(row, o) == \E k \in 1..Len(row.f) : ~RuleEnc(row, row.f[k], o)
FirstRefusing(row, o) == LET K == {k \in 1..Len(row.f) : ~RuleEnc(row, row.f[k], o)}
                         IN row.f[CHOOSE k \in K : \A j \in K : k <= j]
(* "" when the word is the row's encoding of the operands, else the name of the first failing clause *)
MatchClause(row, o, w) ==
  IF ~LitOK(row, w) THEN "literal-bits"
  ELSE LET K == {k \in 1..Len(row.f) : ~RuleChk(row, row.f[k], o, w)}
       IN IF K = {} THEN "" ELSE row.f[CHOOSE k \in K : \A j \in K : k <= j].n
Matches(row, o, w) == MatchClause(row, o, w) = ""

-----------------------------------------------------------------------------
(* One leg of an observation: the assembler (asmjit, or llvm-mc for corroboration) answered `ok` and appended ws. *)
(* rs = the database rows with this mnemonic whose operand signature the operands fit (primary row first).        *)
LegVerdict(Rows, rs, o, ok, ws) ==
  IF ~ok THEN <<"", "">>                                                       \* a refusal is not judged by C02
  ELSE IF Len(rs) = 0 THEN <<"accepted-non-form", "">>                         \* AcceptedDenotesRow: no database row has this operand pattern
  ELSE LET enc == {j \in 1..Len(rs) : ~Refused(Rows[rs[j]], o)}
       IN IF enc = {} THEN <<"accepts-unencodable", FirstRefusing(Rows[rs[1]], o).n>>
          ELSE IF Len(ws) # 1 THEN <<"length", "">>
          ELSE IF \E j \in enc : Matches(Rows[rs[j]], o, ws[1]) THEN <<"", "">>
          ELSE <<"field", MatchClause(Rows[rs[CHOOSE j \in enc : \A j2 \in enc : j <= j2]], o, ws[1])>>

(* mov Rd, #imm (any value; one to four words): the sequence must compute the value (A64Imm!MovEval) *)
MovVerdict(o, ok, ws) ==
  IF ~ok THEN <<"", "">>
  ELSE IF o[1].id >= 31 THEN <<"", "">>
  ELSE IF Len(ws) < 1 \/ Len(ws) > 4 THEN <<"length", "">>
  ELSE LET r == MovEval(Undef, ws, 1, o[1].id)
           want == IF o[1].t = "x" THEN o[2].l ELSE <<o[2].l[1], o[2].l[2], 0, 0>>
       IN IF r = Undef THEN <<"field", "not-a-mov-sequence">> ELSE IF r # want THEN <<"field", "value">>
          ELSE IF o[1].t = "w" /\ \E k \in 1..Len(ws) : WBit(ws[k], 31) = 1 THEN <<"field", "sf">> ELSE <<"", "">>
=============================================================================
