------------------------------- MODULE Validate --------------------------------
(* C13 - validation, encoder and ISA database agree on which instruction forms exist.                              *)
(*                                                                                                                 *)
(* State-free predicates over ONE observation of the real code (harness/instforms.cpp):                            *)
(*   o = [a (x86|a64), f (row id), n (mnemonic), m (32|64), mb (ANY|X86|X64: the modes the DB row allows),           *)
(*        kind (base | xmode | nm), what (which near-miss mutation), ops, k, z, er, sae, opt (decorations / prefix    *)
(*        bits of the request), v (error name of InstAPI::validate, ValidationFlags::kNone),                         *)
(*        on  = [e, b]  (Assembler::emit WITH DiagnosticOptions::kValidateAssembler: error name, bytes appended),    *)
(*        off = [e, b]  (the same emit without validation),                                                          *)
(*        impl (is this (row signature, variant, instance, mode) in the vendored list of the pinned release)]         *)
(* and the digested ISA database  Forms / Names  (tools/db_export_x86.js; per row: operand notation, arch, the         *)
(* decorations and prefixes the row allows, apx/avx102 = extension the pinned release does not implement, i32/i64 =    *)
(* some instance of the row is vendored for that mode).                                                              *)
(*                                                                                                                 *)
(* Verdict(o) is a pair <<class, text>>:  ""  the property holds on this observation                               *)
(*                                        "V" the property is violated (TLC invariant fails)                        *)
(*                                        "I" information (validator / encoder disagree where the property does not decide) *)
(*                                        "X" accepted non-instruction that belongs to a class C01 already reports    *)
(*                                        "U" not judged (and why)                                                   *)
EXTENDS Integers, Sequences, FiniteSets, TLC, Json, IOUtils

Forms == IF "FORMS" \in DOMAIN IOEnv THEN ndJsonDeserialize(IOEnv.FORMS) ELSE <<>>
Names == IF "NAMES" \in DOMAIN IOEnv THEN JsonDeserialize(IOEnv.NAMES) ELSE [x \in {} |-> <<>>]

InSeq(x, s) == \E j \in 1..Len(s) : s[j] = x
Bit(x, n) == (x \div (2 ^ n)) % 2
IsVec(c) == c \in {"xmm", "ymm", "zmm"}
Ok(e) == e = "Ok"
NONE == <<"", "">>          \* verdict = <<class, text>>; class "" holds, V violation, I information, X cross-reference, U not judged

\* ------------------------------------------------------------------------------------------------------------------
\* "this DB row is an instruction with these operands / decorations / prefixes in this mode"
\* ------------------------------------------------------------------------------------------------------------------
(* operand kind / class / size the row's operand notation admits (same reading as X86Enc!OpFits, plus {1toN} = the    *)
(* row's full width)                                                                                              *)
OpFits(fo, oo) ==
  CASE oo.t = "r" -> InSeq(oo.c, fo.regs) /\ (fo.fixed < 0 \/ fo.fixed = oo.id)
    [] oo.t = "m" -> /\ fo.msz >= 0
                     /\ IF oo.bc > 0 THEN fo.bcst > 0 /\ oo.sz * 8 = fo.bcst /\ oo.bc * fo.bcst = fo.msz * 8
                        ELSE fo.msz = 0 \/ oo.sz = 0 \/ oo.sz = fo.msz
                     /\ (IF fo.vsib = "" THEN ~IsVec(oo.it) ELSE oo.it = fo.vsib)
    [] oo.t = "i" -> fo.ibits > 0 \/ fo.iconst >= 0
    [] oo.t = "l" -> fo.rbits > 0
    [] OTHER -> FALSE

(* the operands passed: all operands of the row, or all but the implicit ones *)
Align(f, o) == IF Len(o.ops) = Len(f.ops) THEN [j \in 1..Len(f.ops) |-> j]
               ELSE IF Len(o.ops) = Len(f.expl) THEN f.expl ELSE <<0>>
Shape(f, o) == LET al == Align(f, o) IN al # <<0>> /\ \A j \in 1..Len(o.ops) : OpFits(f.ops[al[j]], o.ops[j])
ArchOk(f, mode) == f.arch = "ANY" \/ (f.arch = "X64" /\ mode = 64) \/ (f.arch = "X86" /\ mode = 32)

HasMem(o) == \E j \in 1..Len(o.ops) : o.ops[j].t = "m"
Deco(o) == o.k > 0 \/ o.z = 1 \/ o.er >= 0 \/ o.sae = 1 \/ \E j \in 1..Len(o.ops) : o.ops[j].t = "m" /\ o.ops[j].bc > 0

(* {k} {z} {er} {sae}: only where the row carries them; rounding control only without a memory operand (SDM 2.7.5)   *)
DecoOk(f, o) == /\ o.k > 0 => f.k = 1
                /\ o.z = 1 => (f.z = 1 /\ o.k > 0)
                /\ o.er >= 0 => (f.er = 1 /\ ~HasMem(o))
                /\ o.sae = 1 => (f.sae = 1 /\ ~HasMem(o))

(* option bits of a request: 1 lock, 2 rep, 4 repne, 8 xacquire, 16 xrelease; anything else is not generated           *)
Lock(o) == Bit(o.opt, 0) = 1
OnlyKnownOptions(o) == o.opt < 128           \* + 32 short_(), 64 long_(): size hints for a label operand
(* LOCK needs a memory operand (SDM vol.2 LOCK); XACQUIRE needs LOCK, XRELEASE needs LOCK unless the row is not lockable (mov) *)
PrefixOk(f, o) == /\ Lock(o) => (f.lock = 1 /\ HasMem(o))
                  (* repi: the row says [repIgnore] (rep ret).  bnd: the row says [bnd] - F2 is the MPX BND prefix on branches; F3 on *)
                  (* a branch is ignored by the CPU and the database annotates only the prefix that has a meaning, so F3 is not    *)
                  (* "excluded by the database" there (asmjit documents it as InstFlags::kRepIgnored)                              *)
                  /\ Bit(o.opt, 1) = 1 => (f.rep = 1 \/ f.repi \/ f.bnd)
                  /\ Bit(o.opt, 2) = 1 => (f.repne = 1 \/ f.repi \/ f.bnd)
                  /\ (Bit(o.opt, 5) = 1 \/ Bit(o.opt, 6) = 1) => (Bit(o.opt, 5) + Bit(o.opt, 6) = 1 /\ \E j \in 1..Len(o.ops) : o.ops[j].t = "l")
                  /\ Bit(o.opt, 3) = 1 => (f.xacq = 1 /\ Lock(o) /\ HasMem(o))
                  /\ Bit(o.opt, 4) = 1 => (f.xrel = 1 /\ HasMem(o) /\ (f.lock = 1 => Lock(o)))

ZeroingIntoMemory(o) == o.z = 1 /\ Len(o.ops) > 0 /\ o.ops[1].t = "m"

Admits(f, o) == ArchOk(f, o.m) /\ Shape(f, o) /\ DecoOk(f, o) /\ PrefixOk(f, o)
Implemented(f, mode) == IF mode = 64 THEN f.i64 ELSE f.i32

RowsOf(n) == IF n \in DOMAIN Names THEN Names[n] ELSE <<>>
(* Exists(form, mode) over ALL rows of the mnemonic with that operand signature *)
(* (Names also lists the EVEX twins an assembler may promote vpand/vpor/vmovdqa.. to: only rows of the mnemonic itself count) *)
AnyRow(o)  == \E r \in 1..Len(RowsOf(o.n)) : LET f == Forms[RowsOf(o.n)[r]] IN f.name = o.n /\ Admits(f, o)
ImplRow(o) == \E r \in 1..Len(RowsOf(o.n)) : LET f == Forms[RowsOf(o.n)[r]] IN f.name = o.n /\ Admits(f, o) /\ Implemented(f, o.m)

(* C01's class of accepted non-instructions: a decoration on an operand signature that has no EVEX row at all *)
C01DecoClass(o) == Deco(o) /\ ~\E r \in 1..Len(RowsOf(o.n)) :
                      LET f == Forms[RowsOf(o.n)[r]] IN f.name = o.n /\ f.ok /\ ~f.avx102 /\ f.pk = "E" /\ ArchOk(f, o.m) /\ Shape(f, o)

\* ------------------------------------------------------------------------------------------------------------------
\* the clauses of the property
\* ------------------------------------------------------------------------------------------------------------------
(* switching validation on changes neither the success nor the bytes *)
OnOffClause(o) == IF Ok(o.off.e) /\ ~Ok(o.on.e) THEN <<"V", "validation-on-refuses-what-the-assembler-encodes">>
                  ELSE IF Ok(o.on.e) /\ ~Ok(o.off.e) THEN <<"V", "validation-on-accepts-what-the-assembler-refuses">>
                  ELSE IF Ok(o.on.e) /\ Ok(o.off.e) /\ o.on.b # o.off.b THEN <<"V", "validation-on-changes-the-bytes">>
                  ELSE NONE

(* Absolute memory operands (no base register): which address values the row has (SDM vol.2 2.1.5 / 2.2.1.3, MOV moffs).        *)
(*   32-bit mode: any 32-bit value.  64-bit mode, forced absolute: a moffs row takes any 64-bit address (A0..A3 with a 64-bit     *)
(*   offset); a ModRM row takes [disp32] sign-extended, or zero-extended with the 67h prefix - with an index register only when    *)
(*   that index is a 32-bit register.  Default / relative address type in 64-bit mode denotes a target relative to the (unknown)   *)
(*   base address of the code: decided only for small (sign-extended 32-bit) values, as before.                                  *)
S32(d) == \/ (d[5] = 0 /\ d[6] = 0 /\ d[7] = 0 /\ d[8] = 0 /\ d[4] < 128)
          \/ (d[5] = 255 /\ d[6] = 255 /\ d[7] = 255 /\ d[8] = 255 /\ d[4] >= 128)
U32(d) == d[5] = 0 /\ d[6] = 0 /\ d[7] = 0 /\ d[8] = 0
AddrClassOp(fo, oo, mode) ==
  IF ~(oo.t = "m" /\ oo.bt = "") THEN "ok"
  ELSE IF mode = 32 THEN (IF oo.at = 2 THEN "undecided" ELSE IF S32(oo.d) \/ U32(oo.d) THEN "ok" ELSE "no")
  ELSE IF oo.at # 1 THEN (IF S32(oo.d) THEN "ok" ELSE "undecided")
  ELSE IF fo.moff /\ oo.it = "" THEN "ok"
  ELSE IF oo.it = "" \/ oo.it = "gpd" THEN (IF S32(oo.d) \/ U32(oo.d) THEN "ok" ELSE "no")
  ELSE IF S32(oo.d) THEN "ok" ELSE "no"
AddrClass(f, o) == LET al == Align(f, o)
                       cs == {AddrClassOp(f.ops[al[j]], o.ops[j], o.m) : j \in 1..Len(o.ops)}
                   IN IF "no" \in cs THEN "no" ELSE IF "undecided" \in cs THEN "undecided" ELSE "ok"

(* a vendored (row, mode) must keep being accepted by validator and encoder, with the same bytes *)
BaseVerdict(o) ==
  LET f == Forms[o.f] IN
  IF ~o.known THEN (IF o.impl THEN <<"V", "vendored-form-name-no-longer-known">> ELSE <<"U", "mnemonic-unknown-to-this-release">>)
  ELSE IF ~OnlyKnownOptions(o) \/ ~Admits(f, o) THEN <<"U", "instance-does-not-fit-its-own-row">>
  ELSE IF AddrClass(f, o) = "undecided" THEN <<"U", "address-class-not-decided-by-the-database">>
  ELSE IF AddrClass(f, o) = "no" THEN
       (IF Ok(o.v) /\ Ok(o.on.e) THEN <<"I", "address-outside-the-form-accepted-by-validator-and-encoder">>
        ELSE IF Ok(o.off.e) THEN <<"I", "address-outside-the-form-accepted-by-the-plain-encoder">>
        ELSE NONE)
  ELSE IF o.impl THEN
       (IF ~Ok(o.v) THEN <<"V", "vendored-form-refused-by-validator">>
        ELSE IF ~Ok(o.off.e) THEN <<"V", "vendored-form-refused-by-encoder">>
        ELSE OnOffClause(o))
  ELSE IF Ok(o.on.e) /\ Ok(o.off.e) /\ o.on.b # o.off.b THEN <<"V", "validation-on-changes-the-bytes">>
  ELSE IF Ok(o.off.e) /\ Ok(o.v) THEN <<"I", "accepted-form-not-in-the-vendored-list">>
  ELSE IF Ok(o.off.e) THEN <<"I", "unvendored-form:encoder-accepts-validator-refuses">>
  ELSE IF Ok(o.v) THEN <<"I", "unvendored-form:validator-accepts-encoder-refuses">>
  ELSE NONE

(* a row instantiated in a mode it excludes: refused by validation unless another row with that signature covers the mode *)
XModeVerdict(o) ==
  IF ~o.known THEN <<"U", "mnemonic-unknown-to-this-release">>
  ELSE IF ~OnlyKnownOptions(o) THEN <<"U", "option">>
  ELSE IF ImplRow(o) THEN OnOffClause(o)
  ELSE IF AnyRow(o) THEN <<"U", "covered-by-another-row-that-is-not-vendored">>
  ELSE IF Ok(o.v) THEN <<"V", "validator-accepts-form-in-excluded-mode">>
  ELSE IF Ok(o.off.e) THEN <<"I", "excluded-mode:encoder-accepts-without-validation">>
  ELSE NONE

(* near misses: judged only where the database decides *)
NearMissVerdict(o) ==
  IF ~o.known THEN <<"U", "mnemonic-unknown-to-this-release">>
  ELSE IF ~OnlyKnownOptions(o) THEN <<"U", "option">>
  (* the notation "xmm/m128 {kz}" does not say whether {z} goes with the memory alternative (architecturally it does not) *)
  ELSE IF ZeroingIntoMemory(o) /\ AnyRow(o) THEN <<"U", "zeroing-masking-with-memory-destination-not-decided-by-the-database-notation">>
  ELSE IF ImplRow(o) THEN OnOffClause(o)                       \* the mutation happens to be another implemented form
  ELSE IF AnyRow(o) THEN <<"U", "matches-only-rows-not-implemented-by-the-pinned-release">>
  ELSE IF Ok(o.v) /\ Ok(o.on.e) THEN                          \* provably not an instruction, accepted by validator and encoder
       (IF C01DecoClass(o) THEN <<"X", "class:mask-or-evex-decoration-accepted-for-operand-signature-without-evex-row">>
        ELSE <<"V", "accepted-non-instruction">>)
  (* no operand at all, although every row of the mnemonic has explicit operands: database AND encoder say "not a form"; *)
  (* a validator that answers Ok stands alone (Builder/Compiler with kValidateIntermediate rely on this answer only)     *)
  ELSE IF Ok(o.v) /\ Len(o.ops) = 0 /\ o.what = "no-operands" THEN <<"V", "validator-accepts-request-without-operands">>
  ELSE IF Ok(o.v) THEN <<"I", "near-miss:validator-accepts-encoder-refuses">>
  ELSE IF Ok(o.off.e) THEN <<"I", "near-miss:validator-refuses-encoder-accepts">>
  ELSE NONE

(* emitter-integrated validation.  o.ev = the same request on a real x86::Assembler / Builder / Compiler (em) with the option     *)
(* subset d (1 = kValidateAssembler, 2 = kValidateIntermediate), with / without logger, at some position of the code.  "Strict  *)
(* validation on" must mean InstAPI::validate wherever the request is emitted:                                                 *)
(*   Assembler with kValidateAssembler     accepts  <=>  validate accepts and the plain encoder accepts                         *)
(*   Assembler without kValidateAssembler  accepts  <=>  the plain encoder accepts                                              *)
(*   Builder / Compiler with kValidateIntermediate   accepts (at emit time)  <=>  validate accepts                               *)
EmitterLegVerdict(o, e) ==
  IF e.em = "asm" THEN
       (IF Bit(e.d, 0) = 1 THEN
             (IF Ok(e.e) /\ ~Ok(o.v) THEN <<"V", "assembler-with-validation-on-accepts-what-validate-refuses">>
              ELSE IF Ok(e.e) /\ ~Ok(o.off.e) THEN <<"V", "assembler-with-validation-on-accepts-what-the-plain-assembler-refuses">>
              ELSE IF ~Ok(e.e) /\ Ok(o.v) /\ Ok(o.off.e) THEN <<"V", "assembler-with-validation-on-refuses-what-validate-and-encoder-accept">>
              ELSE NONE)
        ELSE IF Ok(e.e) # Ok(o.off.e) THEN <<"V", "assembler-without-kValidateAssembler-differs-from-the-plain-assembler">>
        ELSE NONE)
  ELSE IF Bit(e.d, 1) = 1 THEN
       (IF Ok(e.e) /\ ~Ok(o.v) THEN <<"V", "builder-with-validation-on-accepts-what-validate-refuses">>
        ELSE IF ~Ok(e.e) /\ Ok(o.v) THEN <<"V", "builder-with-validation-on-refuses-what-validate-accepts">>
        ELSE NONE)
  ELSE NONE

EmitterVerdict(o) ==
  IF ~o.known \/ Len(o.ev) = 0 THEN NONE
  ELSE LET bad == {j \in 1..Len(o.ev) : EmitterLegVerdict(o, o.ev[j]) # NONE}
       IN IF bad = {} THEN NONE ELSE EmitterLegVerdict(o, o.ev[CHOOSE j \in bad : \A k \in bad : j <= k])

X86FormVerdict(o) == CASE o.kind = "base" -> BaseVerdict(o)
                       [] o.kind = "xmode" -> XModeVerdict(o)
                       [] o.kind = "nm" -> NearMissVerdict(o)
                       [] OTHER -> <<"U", "kind">>
(* a violation of the form clauses first, then one of the emitter clause, then the information of the form clauses *)
X86Verdict(o) == LET fv == X86FormVerdict(o)
                     ev == EmitterVerdict(o)
                 IN IF fv[1] = "V" THEN fv ELSE IF ev # NONE THEN ev ELSE fv

\* ------------------------------------------------------------------------------------------------------------------
\* AArch64: which operand patterns the database has (rows of db/isa_aarch64.json as read by tools/db_export_a64.js)
\* ------------------------------------------------------------------------------------------------------------------
A64Rows  == IF "A64ROWS" \in DOMAIN IOEnv THEN JsonDeserialize(IOEnv.A64ROWS) ELSE <<>>
A64Names == IF "A64NAMES" \in DOMAIN IOEnv THEN JsonDeserialize(IOEnv.A64NAMES) ELSE [x \in {} |-> <<>>]
A64RowsOf(n) == IF n \in DOMAIN A64Names THEN A64Names[n] ELSE <<>>

HasIds(v) == "ids" \in DOMAIN v
(* arrangement of operand k under the row's arrangement list entry e (ta = first column, tb = second); rows without a list   *)
(* carry the arrangement literally                                                                                       *)
ArrOk(row, k, lit, arr, e) == IF row.ov[k] = "" \/ e = <<>> THEN arr = lit
                              ELSE arr = e[IF row.ov[k] = "tb" THEN 2 ELSE 1]
(* general-purpose register: width as the row says (Rm = either); number 31 is SP where the row says Xn|SP, ZR elsewhere *)
GpOk(w, sp, v) == (w = "r" \/ w = v.t) /\ (v.id = 31 => ((v.sp = 1) <=> sp))

A64OpFits(row, k, e, v) ==
  LET o == row.ops[k] IN
  CASE o.k = "gp"   -> v.k = "r" /\ ~HasIds(v) /\ GpOk(o.w, o.sp, v)
    [] o.k = "vs"   -> v.k = "v" /\ ~HasIds(v) /\ v.t = o.t
    [] o.k = "va"   -> v.k = "v" /\ ~HasIds(v) /\ v.t = "v" /\ v.ei < 0 /\ ArrOk(row, k, o.arr, v.arr, e)
    [] o.k = "ve"   -> v.k = "v" /\ ~HasIds(v) /\ v.t = "v" /\ v.ei >= 0 /\ v.arr = o.et
    [] o.k = "list" -> /\ v.k \in {"v", "r"} /\ HasIds(v) /\ Len(v.ids) = o.n
                       /\ CASE o.ek = "gp" -> v.k = "r" /\ v.t = o.ew
                            [] o.ek = "va" -> v.k = "v" /\ v.t = "v" /\ v.ei < 0 /\ ArrOk(row, k, o.earr, v.arr, e)
                            [] OTHER       -> v.k = "v" /\ v.t = "v" /\ v.ei >= 0 /\ v.arr = o.eet
    [] o.k = "imm"  -> IF v.k = "-" THEN o.opt ELSE v.k = "i"
    [] o.k = "mod"  -> v.k = "-" \/ (v.k = "s" /\ (Len(o.shops) = 0 \/ InSeq(v.op, o.shops)))
    [] o.k = "mem"  -> v.k = "m" /\ ~o.pc /\ ((v.xi >= 0) <=> o.hasidx) /\ (v.xi >= 0 => (o.idxmod <=> (v.mode # "post")))
    [] o.k = "cond" -> v.k = "c"
    [] o.k = "cc"   -> v.k = "cc"
    [] o.k = "rel"  -> v.k = "l"
    [] o.k = "fimm" -> v.k = "f"
    [] OTHER -> FALSE

A64Fits(row, ops) == /\ row.ok /\ Len(ops) = Len(row.ops)
                     /\ \E e \in (IF Len(row.tl) = 0 THEN {<<>>} ELSE {row.tl[j] : j \in 1..Len(row.tl)}) :
                           \A k \in 1..Len(ops) : A64OpFits(row, k, e, ops[k])
A64AnyRow(o) == \E r \in 1..Len(A64RowsOf(o.n)) : A64Fits(A64Rows[A64RowsOf(o.n)[r]], o.o)
(* a row of this mnemonic the exporter cannot explain: its operand pattern is unknown, so "no row fits" cannot be concluded *)
A64Unexplained(o) == \E r \in 1..Len(A64RowsOf(o.n)) : ~A64Rows[A64RowsOf(o.n)[r]].ok

(* a probe = the operands of a database row with ONE dimension moved outside the row (arrangement, element type, scalar    *)
(* view, element index, register width, SP/ZR, shift kind).  AArch64 has no operand validator: the encoder's acceptance is  *)
(* the acceptance.  Accepted => some row of the mnemonic has this operand pattern.                                         *)
A64ProbeVerdict(o) ==
  IF ~o.known THEN <<"U", "mnemonic-unknown-to-this-release">>
  ELSE IF Ok(o.on.e) /\ Ok(o.off.e) /\ o.on.b # o.off.b THEN <<"V", "validation-on-changes-the-bytes">>
  ELSE IF Ok(o.on.e) # Ok(o.off.e) THEN OnOffClause(o)
  ELSE IF ~Ok(o.off.e) THEN NONE
  ELSE IF A64AnyRow(o) THEN NONE
  ELSE IF A64Unexplained(o) THEN <<"U", "mnemonic-has-rows-the-exporter-cannot-explain">>
  ELSE <<"V", "accepted-non-instruction">>

(* AArch64: one mode, InstAPI::validate has no operand validator in the pinned release (it answers Ok); the invariants  *)
(* reduce to: a vendored form keeps being accepted, and validation on/off changes nothing                             *)
(* a value instance of a row (shift amount, lane number, hw slot, condition ...) is a database instance iff the field rules of   *)
(* C02's specification give every field a value: A64Enc!Refused                                                             *)
A64E == INSTANCE A64Enc
A64EncRows == IF "A64ENCROWS" \in DOMAIN IOEnv THEN JsonDeserialize(IOEnv.A64ENCROWS) ELSE <<>>

A64Verdict(o) ==
  IF o.kind = "probe" THEN A64ProbeVerdict(o)
  ELSE IF o.kind = "base" /\ o.ix > 0 /\ A64E!Refused(A64EncRows[o.r], o.o)
       THEN <<"U", "value-outside-the-field-domain-of-the-row">>
  ELSE IF ~o.known THEN (IF o.impl THEN <<"V", "vendored-form-name-no-longer-known">> ELSE <<"U", "mnemonic-unknown-to-this-release">>)
  ELSE IF o.kind = "base" THEN
       (IF o.impl THEN (IF ~Ok(o.v) THEN <<"V", "vendored-form-refused-by-validator">>
                        ELSE IF ~Ok(o.off.e) THEN <<"V", "vendored-form-refused-by-encoder">>
                        ELSE OnOffClause(o))
        ELSE IF OnOffClause(o) # NONE THEN OnOffClause(o)
        ELSE IF Ok(o.off.e) THEN <<"I", "accepted-form-not-in-the-vendored-list">>
        ELSE IF Ok(o.v) THEN <<"I", "unvendored-form:validator-accepts-encoder-refuses">> ELSE NONE)
  ELSE IF Ok(o.on.e) /\ Ok(o.off.e) /\ o.on.b # o.off.b THEN <<"V", "validation-on-changes-the-bytes">>
  ELSE IF Ok(o.v) /\ ~Ok(o.off.e) THEN <<"I", "near-miss:validator-accepts-encoder-refuses">>
  ELSE IF Ok(o.v) /\ Ok(o.off.e) THEN <<"I", "near-miss:accepted-by-validator-and-encoder">>
  ELSE NONE

Verdict(o) == IF o.a = "x86" THEN X86Verdict(o) ELSE A64Verdict(o)

\* ------------------------------------------------------------------------------------------------------------------
\* name round trip (T = the whole observed table: one record per instruction id, alias and unknown-name probe)
\* ------------------------------------------------------------------------------------------------------------------
IdRecs(T, a) == {j \in 1..Len(T) : T[j].kind = "id" /\ T[j].a = a}
Unique(T, o) == Cardinality({j \in IdRecs(T, o.a) : T[j].name = o.name}) = 1
IsName(T, a, s) == \E j \in IdRecs(T, a) : T[j].name = s

NameVerdict(T, o) ==
  CASE o.kind = "id" ->
         IF o.id2 = 0 THEN <<"V", "name-not-found">>
         ELSE IF o.name2 # o.name THEN <<"V", "name-maps-to-an-id-with-another-name">>
         ELSE IF Unique(T, o) /\ o.id2 # o.id THEN <<"V", "unique-name-maps-to-another-id">>
         ELSE NONE
    [] o.kind = "alias" ->
         IF o.idc = 0 THEN <<"U", "canonical-name-unknown-to-this-release">>
         ELSE IF o.id2 = 0 THEN (IF o.impl THEN <<"V", "vendored-alias-no-longer-known">> ELSE <<"I", "alias-unknown-to-this-release">>)
         ELSE IF o.name2 = o.canon \/ o.name2 = o.name THEN NONE
         ELSE <<"V", "alias-maps-to-another-instruction">>
    [] o.kind = "unknown" ->
         IF IsName(T, o.a, o.name) THEN <<"U", "probe-is-a-name">>
         ELSE IF o.id2 # 0 THEN <<"V", "unknown-name-resolves-to-an-id">> ELSE NONE
    [] OTHER -> <<"U", "kind">>
=============================================================================
