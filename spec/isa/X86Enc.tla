------------------------------- MODULE X86Enc ---------------------------------
(* C01 - the x86 / x86-64 INSTRUCTION FORMAT as a form-guided decoder.                                          *)
(*                                                                                                             *)
(* Written from Intel SDM vol.2 ch.2 (instruction format: legacy prefixes, REX 2.2.1, ModRM/SIB tables 2-1..2-3, *)
(* VEX 2.3.5, EVEX 2.7 incl. compressed disp8*N tables 2-34/2-35, static rounding 2.7.5) and AMD APM vol.3      *)
(* (XOP 1.2.5 / 3-byte escape 8F).  It is parameterised by one row of the ISA database (record `f`, produced by   *)
(* tools/db_export_x86.js from db/isa_x86.json) - NOT by anything of asmjit's encoder.                          *)
(*                                                                                                             *)
(*   Parse(b, mode, f)    splits the byte string b the way the format prescribes for a row of f's kind          *)
(*   Clause(f, o)         "" iff the observation o = (operands, options, mode, bytes) is an encoding of row f    *)
(*                        with exactly those operands; otherwise the name of the first clause that fails        *)
(*   Verdict(o)           "" iff SOME row of the instruction o.n matches (the assembler is free to pick any valid *)
(*                        row / alternative encoding); "U:.." = not judged (row kind not modelled); "R:.." = reject *)
(*                                                                                                             *)
(* Memory operands are compared semantically (segment, base, index, scale, displacement value, address size).   *)
(* TLC integers are 32-bit: 64-bit immediates / addresses are 8-byte little-endian sequences.                  *)
EXTENDS Integers, Sequences, FiniteSets, TLC, Json, IOUtils

(* the digested ISA database: Forms = sequence of rows, Names = instruction name -> sequence of row indices *)
Forms == ndJsonDeserialize(IOEnv.FORMS)
Names == JsonDeserialize(IOEnv.NAMES)

\* ---------------------------------------------------------------- small helpers ------------------------------
Pow2(n) == 2 ^ n
Bit(x, n) == (x \div Pow2(n)) % 2
Fld(x, lo, w) == (x \div Pow2(lo)) % Pow2(w)
At(b, j) == IF j >= 1 /\ j <= Len(b) THEN b[j] ELSE 0 - 1
Sub(b, from, n) == [j \in 1..n |-> At(b, from + j - 1)]
InSeq(x, s) == \E j \in 1..Len(s) : s[j] = x
RECURSIVE SumSeq(_, _)
SumSeq(s, n) == IF n = 0 THEN 0 ELSE s[n] + SumSeq(s, n - 1)

S8(x) == IF x >= 128 THEN x - 256 ELSE x
SignedOf(F) == IF Len(F) = 1 THEN S8(F[1])                      \* little-endian two's complement, 1/2/4 bytes
               ELSE IF Len(F) = 2 THEN F[1] + 256 * S8(F[2])
               ELSE F[1] + 256 * F[2] + 65536 * F[3] + 16777216 * S8(F[4])
SExt(F, w) == [j \in 1..w |-> IF j <= Len(F) THEN F[j] ELSE IF F[Len(F)] >= 128 THEN 255 ELSE 0]
Low(v, w) == [j \in 1..w |-> v[j]]
HighAll(v, w, x) == \A j \in (w + 1)..Len(v) : v[j] = x
IntBytes(x, w) == IF x >= 0 THEN [j \in 1..w |-> IF j <= 4 THEN (x \div (256 ^ (j - 1))) % 256 ELSE 0]
                  ELSE LET y == (0 - x) - 1 IN [j \in 1..w |-> IF j <= 4 THEN 255 - ((y \div (256 ^ (j - 1))) % 256) ELSE 255]

\* ---------------------------------------------------------------- prefixes -----------------------------------
SegPfx == {38, 46, 54, 62, 100, 101}                      \* 26 es, 2E cs, 36 ss, 3E ds, 64 fs, 65 gs
LegacyPfx == {102, 103, 240, 242, 243} \cup SegPfx        \* 66 67 F0 F2 F3
SegByte(s) == CASE s = 0 -> 38 [] s = 1 -> 46 [] s = 2 -> 54 [] s = 3 -> 62 [] s = 4 -> 100 [] s = 5 -> 101   \* es cs ss ds fs gs
PfxBytes(f) == IF f.fw = 1 THEN LegacyPfx \cup {155} ELSE LegacyPfx          \* 9B (x87 wait forms)
RECURSIVE PfxLen(_, _, _)
PfxLen(b, j, S) == IF At(b, j) \in S THEN PfxLen(b, j + 1, S) ELSE j - 1

\* ---------------------------------------------------------------- Parse --------------------------------------
(* Result: all format fields.  Extension bits are given in their TRUE sense (VEX/EVEX store them inverted).      *)
Parse(b, mode, f) ==
  LET np   == PfxLen(b, 1, PfxBytes(f))
      pfx  == {b[j] : j \in 1..np}
      q    == np + 1
      b0   == At(b, q)
      b1   == At(b, q + 1)
      b2   == At(b, q + 2)
      b3   == At(b, q + 3)
      kind == IF f.pk = "L" THEN "L"
              ELSE IF f.pk = "V" /\ b0 = 197 THEN "V2"
              ELSE IF f.pk = "V" /\ b0 = 196 THEN "V3"
              ELSE IF f.pk = "X" /\ b0 = 143 THEN "X3"
              ELSE IF f.pk = "E" /\ b0 = 98 THEN "E" ELSE "bad"
      rex  == kind = "L" /\ mode = 64 /\ b0 >= 64 /\ b0 <= 79
      three == kind = "V3" \/ kind = "X3"
      R    == IF rex THEN Bit(b0, 2) ELSE IF kind = "L" \/ kind = "bad" THEN 0 ELSE 1 - Bit(b1, 7)
      X    == IF rex THEN Bit(b0, 1) ELSE IF three \/ kind = "E" THEN 1 - Bit(b1, 6) ELSE 0
      B    == IF rex THEN Bit(b0, 0) ELSE IF three \/ kind = "E" THEN 1 - Bit(b1, 5) ELSE 0
      R2   == IF kind = "E" THEN 1 - Bit(b1, 4) ELSE 0
      W    == IF rex THEN Bit(b0, 3) ELSE IF three \/ kind = "E" THEN Bit(b2, 7) ELSE 0
      mm   == IF three THEN Fld(b1, 0, 5) ELSE IF kind = "E" THEN Fld(b1, 0, 3) ELSE IF kind = "V2" THEN 1 ELSE 0
      pb   == IF kind = "V2" THEN b1 ELSE b2                      \* the byte holding vvvv / L / pp
      vvvv == IF kind \in {"V2", "V3", "X3", "E"} THEN 15 - Fld(pb, 3, 4) ELSE 0
      pp   == IF kind \in {"V2", "V3", "X3", "E"} THEN Fld(pb, 0, 2) ELSE 0
      LL   == IF kind = "E" THEN Fld(b3, 5, 2) ELSE IF kind \in {"V2", "V3", "X3"} THEN Bit(pb, 2) ELSE 0
      zz   == IF kind = "E" THEN Bit(b3, 7) ELSE 0
      bb   == IF kind = "E" THEN Bit(b3, 4) ELSE 0
      V2   == IF kind = "E" THEN 1 - Bit(b3, 3) ELSE 0
      aaa  == IF kind = "E" THEN Fld(b3, 0, 3) ELSE 0
      resv == kind = "E" => (Bit(b1, 3) = 0 /\ Bit(b2, 2) = 1)    \* reserved bits of P0 / P1 (pre-APX)
      o    == q + (CASE kind = "L" -> (IF rex THEN 1 ELSE 0) [] kind = "V2" -> 2 [] three -> 3 [] kind = "E" -> 4 [] OTHER -> 0)
      nop  == Len(f.opb)
      m    == o + nop                                                 \* index of ModRM (if any)
      lastop == At(b, m - 1)
      hasM == f.modrm = 1
      mrm  == At(b, m)
      mod  == IF hasM /\ mrm >= 0 THEN Fld(mrm, 6, 2) ELSE 0
      reg  == IF hasM /\ mrm >= 0 THEN Fld(mrm, 3, 3) ELSE 0
      rm   == IF hasM /\ mrm >= 0 THEN Fld(mrm, 0, 3) ELSE 0
      a67  == 103 \in pfx
      asz  == IF a67 THEN (IF mode = 64 THEN 32 ELSE 16) ELSE mode
      sibP == hasM /\ mod # 3 /\ rm = 4 /\ asz # 16
      sib  == At(b, m + 1)
      ss   == IF sibP /\ sib >= 0 THEN Fld(sib, 6, 2) ELSE 0
      idx  == IF sibP /\ sib >= 0 THEN Fld(sib, 3, 3) ELSE 0
      bas  == IF sibP /\ sib >= 0 THEN Fld(sib, 0, 3) ELSE 0
      ds   == IF ~hasM \/ mod = 3 THEN 0
              ELSE IF asz = 16 THEN (IF mod = 1 THEN 1 ELSE IF mod = 2 \/ (mod = 0 /\ rm = 6) THEN 2 ELSE 0)
              ELSE IF mod = 1 THEN 1 ELSE IF mod = 2 THEN 4
              ELSE IF rm = 5 \/ (sibP /\ bas = 5) THEN 4 ELSE 0
      dpos == m + 1 + (IF sibP THEN 1 ELSE 0)
      aft  == IF hasM THEN dpos + ds ELSE m                           \* first byte after ModRM/SIB/disp
      mofs == IF f.moff = 1 THEN asz \div 8 ELSE 0
      ipos == aft + mofs
      isz  == SumSeq(f.imms, Len(f.imms))
      sfxn == IF f.sfx >= 0 THEN 1 ELSE 0                             \* 3DNow!: opcode byte after ModRM/SIB/disp
      total == ipos + isz + f.rel + sfxn - 1
  IN [np |-> np, pfx |-> pfx, kind |-> kind, rex |-> rex, R |-> R, X |-> X, B |-> B, R2 |-> R2, W |-> W, mm |-> mm,
      vvvv |-> vvvv, pp |-> pp, LL |-> LL, z |-> zz, bb |-> bb, V2 |-> V2, aaa |-> aaa, resv |-> resv, o |-> o, m |-> m,
      lastop |-> lastop, mod |-> mod, reg |-> reg, rm |-> rm, asz |-> asz, a67 |-> a67, sibP |-> sibP, ss |-> ss, idx |-> idx,
      bas |-> bas, ds |-> ds, disp |-> Sub(b, dpos, ds), aft |-> aft, mofs |-> mofs, ipos |-> ipos, total |-> total]

\* ---------------------------------------------------------------- operand helpers ---------------------------
GpSize(c) == CASE c = "gpw" -> 16 [] c = "gpd" -> 32 [] c = "gpq" -> 64 [] OTHER -> 0
IsVec(c) == c \in {"xmm", "ymm", "zmm"}

(* does the observed operand oo have the kind / class / size the row's operand fo admits? *)
OpFits(fo, oo) ==
  CASE oo.t = "r" -> InSeq(oo.c, fo.regs) /\ (fo.fixed < 0 \/ fo.fixed = oo.id)
    [] oo.t = "m" -> /\ fo.msz >= 0
                     /\ \/ fo.msz = 0 \/ oo.sz = 0 \/ oo.sz = fo.msz
                        \/ (oo.bc > 0 /\ fo.bcst > 0 /\ oo.sz * 8 = fo.bcst)
                     /\ (oo.bc > 0 => fo.bcst > 0)
                     /\ (IF fo.vsib = "" THEN ~IsVec(oo.it) ELSE oo.it = fo.vsib)
    [] oo.t = "i" -> fo.ibits > 0 \/ fo.iconst >= 0
    [] oo.t = "l" -> fo.rbits > 0
    [] OTHER -> FALSE

(* alignment of the operands passed to the assembler with the row's operand list: all operands, or all but the     *)
(* implicit ones                                                                                               *)
Align(f, o) == IF Len(o.ops) = Len(f.ops) THEN [j \in 1..Len(f.ops) |-> j]
               ELSE IF Len(o.ops) = Len(f.expl) THEN f.expl ELSE <<0>>
Shape(f, o) == LET al == Align(f, o) IN al # <<0>> /\ \A j \in 1..Len(o.ops) : OpFits(f.ops[al[j]], o.ops[j])
ArchOk(f, mode) == f.arch = "ANY" \/ (f.arch = "X64" /\ mode = 64) \/ (f.arch = "X86" /\ mode = 32)

(* a register number v (after extension bits) in a field, against the observed register.  8-bit registers:      *)
(* without REX the values 4..7 are AH CH DH BH, with REX they are SPL BPL SIL DIL (SDM 3.1.1.1)                    *)
RegIs(oo, v, p) ==
  IF oo.c = "creg" /\ oo.id = 8 /\ 240 \in p.pfx /\ ~p.rex THEN v = 0
  ELSE IF oo.c = "gpb" THEN v = oo.id /\ (oo.id \in 4..7 => p.rex)
  ELSE IF oo.c = "gph" THEN v = oo.id + 4 /\ ~p.rex /\ p.kind = "L"
  ELSE v = oo.id

\* ---------------------------------------------------------------- EVEX disp8*N (SDM tables 2-34, 2-35) ----------
DispN(f, p) ==
  IF p.kind # "E" THEN 1
  ELSE LET VL == 16 * Pow2(IF p.LL = 3 THEN 2 ELSE p.LL)
           w1 == IF f.w = 2 THEN p.W = 1 ELSE f.w = 1
           be == IF f.bc = 16 THEN 2 ELSE IF w1 THEN 8 ELSE 4
       IN CASE f.tt = "fv" -> IF p.bb = 1 THEN be ELSE VL
            [] f.tt = "hv" -> IF p.bb = 1 THEN be ELSE VL \div 2
            [] f.tt = "qv" -> IF p.bb = 1 THEN be ELSE VL \div 4
            [] f.tt \in {"fvm", "fm"} -> VL
            [] f.tt = "hvm" -> VL \div 2
            [] f.tt = "qvm" -> VL \div 4
            [] f.tt = "ovm" -> VL \div 8
            [] f.tt = "m128" -> 16
            [] f.tt = "movddup" -> IF VL = 16 THEN 8 ELSE VL
            [] f.tt \in {"t1s", "t1f", "t1"} -> IF f.esz > 0 THEN f.esz ELSE 1
            [] f.tt = "t2" -> IF w1 THEN 16 ELSE 8
            [] f.tt = "t4" -> IF w1 THEN 32 ELSE 16
            [] f.tt = "t8" -> 32
            [] OTHER -> 1

\* ---------------------------------------------------------------- memory operand (semantic comparison) ----------
(* 16-bit addressing, SDM table 2-1: rm -> (base, index); bx=3 bp=5 si=6 di=7, -1 none *)
M16Base(rm) == CASE rm = 0 -> 3 [] rm = 1 -> 3 [] rm = 2 -> 5 [] rm = 3 -> 5 [] rm = 4 -> 6 [] rm = 5 -> 7 [] rm = 6 -> 5 [] rm = 7 -> 3
M16Index(rm) == CASE rm = 0 -> 6 [] rm = 1 -> 7 [] rm = 2 -> 6 [] rm = 3 -> 7 [] OTHER -> 0 - 1

MemClause(fo, oo, p, f, mode) ==
  LET vs     == fo.vsib # ""
      hasB   == oo.bt # ""
      hasI   == oo.it # ""
      want   == IF oo.bt \in {"gpw", "gpd", "gpq"} THEN GpSize(oo.bt)            \* address size the operand asks for
                ELSE IF oo.it \in {"gpw", "gpd", "gpq"} THEN GpSize(oo.it)
                ELSE IF oo.bt = "rip" THEN 64 ELSE 0
      N      == DispN(f, p)
      dval   == IF p.ds = 0 THEN 0 ELSE IF p.ds = 1 THEN N * S8(p.disp[1]) ELSE 0
      dbytes == IF p.ds = 0 THEN IntBytes(0, 8) ELSE IF p.ds = 1 THEN IntBytes(dval, 8) ELSE SExt(p.disp, 8)
  IN
  IF p.mod = 3 THEN "mem-mod11"
  ELSE IF oo.bt = "lbl" THEN
       (* [label + off]: oo.ld = position of the label relative to the START of the instruction.                                   *)
       (* 64-bit mode: rip-relative, and rip is the address of the END of the instruction (after a trailing immediate, SDM vol.2     *)
       (* 2.2.1.6), so disp32 = label + off - (start + length).  32-bit mode: absolute disp32 that is relocated later (C04 owns the   *)
       (* value), only the form - no base, the requested index - is judged.                                                         *)
       (LET nobase == p.mod = 0 /\ ((~p.sibP /\ p.rm = 5) \/ (p.sibP /\ p.bas = 5))
            pidx   == p.idx + 8 * p.X
            noidx  == ~p.sibP \/ pidx = 4
        IN IF p.asz # mode THEN "mem-addrsize"
           ELSE IF mode = 64 THEN
                (IF hasI \/ p.sibP \/ p.rm # 5 \/ p.mod # 0 THEN "label-memory-form"
                 ELSE IF SignedOf(p.disp) # oo.ld + SignedOf(Low(oo.d, 4)) - p.total THEN "label-memory-displacement" ELSE "")
           ELSE IF ~nobase \/ p.ds # 4 THEN "label-memory-form"
           ELSE IF hasI # ~noidx THEN "label-memory-form"
           ELSE IF hasI /\ (pidx # oo.i \/ p.ss # oo.sh) THEN "label-memory-form"
           ELSE "")
  ELSE IF want # 0 /\ want # p.asz THEN "mem-addrsize"
  ELSE IF hasB /\ hasI /\ ~vs /\ oo.bt # "rip" /\ oo.bt # oo.it THEN "mem-mixed-base-index-size"
  ELSE IF p.asz = 16 THEN
       (LET pb == IF p.mod = 0 /\ p.rm = 6 THEN 0 - 1 ELSE M16Base(p.rm)
            pi == M16Index(p.rm)
            ob == IF hasB THEN oo.b ELSE 0 - 1
            oi == IF hasI THEN oo.i ELSE 0 - 1
        IN IF vs \/ mode # 32 THEN "mem-16bit-not-possible"
           ELSE IF hasI /\ oo.sh # 0 THEN "mem-16bit-scale"
           ELSE IF ~(<<ob, oi>> = <<pb, pi>> \/ <<oi, ob>> = <<pb, pi>>) THEN "mem-16bit-regs"
           ELSE IF Low(oo.d, 2) # Low(dbytes, 2) THEN "mem-disp" ELSE "")
  ELSE
   LET riprel == mode = 64 /\ p.mod = 0 /\ ~p.sibP /\ p.rm = 5
       nobase == p.mod = 0 /\ ((~p.sibP /\ p.rm = 5) \/ (p.sibP /\ p.bas = 5))
       pbase  == (IF p.sibP THEN p.bas ELSE p.rm) + 8 * p.B
       pidx   == p.idx + 8 * p.X + (IF vs THEN 16 * p.V2 ELSE 0)
       noidx  == ~p.sibP \/ (~vs /\ pidx = 4)
   IN IF vs /\ ~p.sibP THEN "mem-vsib-needs-sib"
      ELSE IF ~p.sibP /\ p.X # 0 THEN "mem-x-bit-without-sib"
      ELSE IF oo.bt = "rip" THEN (IF ~riprel THEN "mem-rip" ELSE IF hasI THEN "mem-rip-index"
                                  ELSE IF oo.d # dbytes THEN "mem-disp" ELSE "")
      ELSE IF riprel THEN (IF ~hasB /\ ~hasI /\ oo.at # 1 THEN ""              \* default / rel address type: rip-relative, displacement relocated later (C04)
                           ELSE "mem-rip-unwanted")
      ELSE IF hasB # ~nobase THEN "mem-base-presence"
      ELSE IF hasB /\ pbase # oo.b THEN "mem-base"
      ELSE IF hasI # ~noidx THEN "mem-index-presence"
      ELSE IF hasI /\ pidx # oo.i THEN "mem-index"
      ELSE IF hasI /\ p.ss # oo.sh THEN "mem-scale"
      ELSE IF p.asz = 64 /\ oo.d # dbytes THEN "mem-disp"
      ELSE IF p.asz = 32 /\ Low(oo.d, 4) # Low(dbytes, 4) THEN "mem-disp"
      ELSE IF p.asz = 32 /\ mode = 64 /\ ~hasB /\ ~hasI /\ ~HighAll(oo.d, 4, 0) THEN "mem-abs-zero-extension"
      ELSE ""

\* ---------------------------------------------------------------- immediates --------------------------------
(* field F (n bytes) extended to the value width w (bytes) must be the requested value v (8 bytes) truncated to w; *)
(* the requested value must be representable in w bytes (as signed or unsigned)                                 *)
ImmOk(F, w, v) == /\ Low(v, w) = SExt(F, w)
                  /\ (HighAll(v, w, 0) \/ (HighAll(v, w, 255) /\ v[w] >= 128))

\* ---------------------------------------------------------------- the match ---------------------------------
(* option bits of an observation (same numbering as harness/x86sweep.cpp) *)
Opt(o, n) == Bit(o.opt, n) = 1
OLock(o) == Opt(o, 0)   ORep(o) == Opt(o, 1)   ORepne(o) == Opt(o, 2)  OXacq(o) == Opt(o, 3)   OXrel(o) == Opt(o, 4)
OShort(o) == Opt(o, 5)  OLong(o) == Opt(o, 6)  OModMR(o) == Opt(o, 7)  OModRM(o) == Opt(o, 8)  OVex3(o) == Opt(o, 9)
OVex(o) == Opt(o, 10)   OEvex(o) == Opt(o, 11) ORex(o) == Opt(o, 12)
OTaken(o) == Opt(o, 13) ONotTaken(o) == Opt(o, 14)
(* emitter-level encoding options: bit 0 optimize-for-size, bit 1 predicted jumps (branch hints are only emitted when it is on) *)
EPredictedJumps(o) == Bit(o.eo, 1) = 1

Clause(f, o) ==
  LET b    == o.b
      mode == o.m
      p    == Parse(b, mode, f)
      al   == Align(f, o)
      n    == Len(o.ops)
      FO(j) == f.ops[al[j]]
      OO(j) == o.ops[j]
      hasFld(x) == \E j \in 1..n : FO(j).fld = x
      memJ == {j \in 1..n : OO(j).t = "m"}
      rmMem == \E j \in memJ : FO(j).fld = "rm"
      vexlike == p.kind \in {"V2", "V3", "X3", "E"}
      segWant == {SegByte(OO(j).sg - 1) : j \in {k \in memJ : OO(k).sg > 0 /\ ~(FO(k).mseg = "es") /\ ~(FO(k).mseg = "ds" /\ OO(k).sg = 4)}}
      hintWant == IF f.jcc = 1 /\ EPredictedJumps(o) THEN (IF OTaken(o) THEN {62} ELSE IF ONotTaken(o) THEN {46} ELSE {}) ELSE {}    \* 3E taken, 2E not taken
      segHave == p.pfx \cap SegPfx
      esRedundant == IF \E j \in memJ : FO(j).mseg = "es" /\ OO(j).sg = 1 THEN {38} ELSE {}      \* explicit es: on the es:[zdi] operand
      implMem == {j \in memJ : FO(j).memreg # ""}
      want67 == IF f.a67 = 1 THEN TRUE
                ELSE IF implMem # {} THEN \E j \in implMem : GpSize(OO(j).bt) # mode
                ELSE p.a67                                              \* decided by the ModRM memory operand (MemClause)
      anyMemFld == rmMem \/ hasFld("moff") \/ implMem # {}
      cr8alt == mode = 32 /\ \E j \in 1..n : OO(j).t = "r" /\ OO(j).c = "creg" /\ OO(j).id = 8      \* APM vol.2: LOCK MOV CR0 = CR8 outside 64-bit mode
      erOn  == o.er >= 0
      saeOn == o.sae = 1
      bcOn  == \E j \in memJ : OO(j).bc > 0
      immF(k) == Sub(b, p.ipos + SumSeq(f.imms, k - 1), f.imms[k])    \* k-th immediate field
      is4B == At(b, p.ipos + SumSeq(f.imms, Len(f.imms)) - 1)          \* /is4 byte is the last immediate byte
      fieldClause(j) ==
        LET fo == FO(j) oo == OO(j) IN
        CASE fo.fld = "reg"  -> IF RegIs(oo, p.reg + 8 * p.R + 16 * p.R2, p) THEN "" ELSE "reg-field"
          [] fo.fld = "rm"   -> IF oo.t = "r"
                                THEN (IF p.mod = 3 /\ RegIs(oo, p.rm + 8 * p.B + (IF p.kind = "E" THEN 16 * p.X ELSE 0), p)
                                         /\ (p.kind # "E" => p.X = 0) THEN "" ELSE "rm-field")
                                ELSE MemClause(fo, oo, p, f, mode)
          [] fo.fld = "regmem" -> IF oo.t = "m" /\ oo.bt \in {"gpw", "gpd", "gpq"} /\ oo.it = "" /\ HighAll(oo.d, 0, 0) /\ p.reg + 8 * p.R = oo.b /\ p.R2 = 0
                                  THEN "" ELSE "register-addressed-memory"
          [] fo.fld = "rmmem"  -> IF oo.t = "m" /\ oo.bt \in {"gpw", "gpd", "gpq"} /\ oo.it = "" /\ HighAll(oo.d, 0, 0) /\ p.mod = 3 /\ p.rm + 8 * p.B = oo.b /\ p.X = 0
                                  THEN "" ELSE "register-addressed-memory"
          [] fo.fld = "vvvv" -> IF RegIs(oo, p.vvvv + 16 * p.V2, p) THEN "" ELSE "vvvv-field"
          [] fo.fld = "is4"  -> IF is4B >= 0 /\ RegIs(oo, IF mode = 64 THEN is4B \div 16 ELSE (is4B \div 16) % 8, p) THEN "" ELSE "is4-field"
          [] fo.fld = "imm4" -> IF is4B >= 0 /\ IntBytes(is4B % 16, 8) = oo.v THEN "" ELSE "imm4-field"
          [] fo.fld = "opr"  -> IF RegIs(oo, (p.lastop % 8) + 8 * p.B, p) THEN "" ELSE "opcode-reg-field"
          [] fo.fld = "imm"  -> IF ImmOk(immF(fo.immi), fo.iw \div 8, oo.v) THEN "" ELSE "immediate"
          [] fo.fld = "rel"  -> LET F == Sub(b, p.ipos, f.rel) IN
                                IF f.rel \in {1, 4} /\ SignedOf(F) + Len(b) = oo.id THEN "" ELSE "rel-displacement"
          [] fo.fld = "moff" -> LET F == Sub(b, p.aft, p.mofs) IN
                                IF oo.t = "m" /\ oo.bt = "" /\ oo.it = "" /\ Low(oo.d, p.mofs) = F /\ HighAll(oo.d, p.mofs, 0) THEN "" ELSE "moffs"
          [] fo.fld = "none" -> IF oo.t = "i" THEN (IF fo.iconst >= 0 /\ oo.v = IntBytes(fo.iconst, 8) THEN "" ELSE "implicit-constant")
                                ELSE IF oo.t = "m" /\ fo.memreg # ""
                                THEN (IF oo.bt \in {"gpw", "gpd", "gpq"} /\ oo.it = "" /\ HighAll(oo.d, 0, 0)
                                         /\ oo.b = (CASE fo.memreg = "zdi" -> 7 [] fo.memreg = "zsi" -> 6 [] fo.memreg = "zax" -> 0 [] OTHER -> 0 - 1)
                                      THEN "" ELSE "implicit-memory")
                                ELSE ""
          [] OTHER -> "field-kind"
      bad == {j \in 1..n : fieldClause(j) # ""}
  IN
  IF p.total # Len(b) THEN "length"                                    \* nothing else appended; all fields present
  ELSE IF Len(b) > 15 THEN "longer-than-15"
  ELSE IF p.kind = "bad" THEN "prefix-kind"
  ELSE IF Cardinality(p.pfx) # p.np THEN "duplicate-prefix"
  ELSE IF ~p.resv THEN "evex-reserved-bits"
  ELSE IF mode = 32 /\ vexlike /\ (p.R # 0 \/ p.X # 0 \/ p.R2 # 0 \/ p.V2 # 0 \/ p.vvvv >= 8) THEN "extension-bit-in-32-bit-mode"
  \* opcode bytes
  ELSE IF \E j \in 1..Len(f.opb) : (IF j = Len(f.opb) /\ f.plusr = 1 THEN (At(b, p.o + j - 1) \div 8) * 8 ELSE At(b, p.o + j - 1)) # f.opb[j] THEN "opcode"
  ELSE IF f.sfx >= 0 /\ At(b, p.total) # f.sfx THEN "opcode-suffix"
  ELSE IF vexlike /\ (p.pp # f.pp \/ p.mm # f.mm) THEN "pp-mm"
  ELSE IF (f.w = 0 /\ p.W # 0) \/ (f.w = 1 /\ p.W # 1) THEN "w-bit"
  ELSE IF vexlike /\ f.l \in {0, 1, 2} /\ ~(p.kind = "E" /\ (erOn \/ saeOn)) /\ p.LL # f.l THEN "vector-length"
  \* legacy prefixes
  ELSE IF vexlike /\ p.pfx \cap {102, 240, 242, 243} # {} THEN "legacy-prefix-before-vex"
  ELSE IF ~vexlike /\ ((102 \in p.pfx) # (f.p66 = 1)) THEN "prefix-66"
  ELSE IF ~vexlike /\ ((242 \in p.pfx) # (f.pF2 = 1 \/ ORepne(o) \/ OXacq(o))) THEN "prefix-F2"
  ELSE IF ~vexlike /\ ((243 \in p.pfx) # (f.pF3 = 1 \/ ORep(o) \/ OXrel(o))) THEN "prefix-F3"
  ELSE IF (ORep(o) /\ f.rep = 0) \/ (ORepne(o) /\ f.repne = 0) THEN "U-rep-prefix-not-allowed-by-row"
  ELSE IF (OXacq(o) /\ f.xacq = 0) \/ (OXrel(o) /\ f.xrel = 0) THEN "U-hle-prefix-not-allowed-by-row"
  ELSE IF (240 \in p.pfx) # (OLock(o) \/ cr8alt) THEN "prefix-lock"
  ELSE IF OLock(o) /\ (f.lock = 0 \/ ~rmMem) THEN "lock-needs-lockable-memory-destination"
  ELSE IF f.fw = 1 /\ ~(155 \in p.pfx) THEN "prefix-9B"
  ELSE IF p.a67 # want67 THEN "prefix-67"
  ELSE IF ~anyMemFld /\ f.a67 = 0 /\ p.a67 THEN "prefix-67"
  ELSE IF hintWant # {} /\ segHave # hintWant THEN "branch-hint-prefix"
  ELSE IF hintWant = {} /\ segHave # segWant /\ segHave # segWant \cup esRedundant THEN "segment-prefix"
  \* ModRM fixed parts
  ELSE IF f.digit >= 0 /\ (p.reg # f.digit \/ p.R # 0 \/ p.R2 # 0) THEN "modrm-digit"
  ELSE IF f.rmfix >= 0 /\ p.rm # f.rmfix THEN "modrm-rm-fixed"
  ELSE IF f.modreq = 1 /\ p.mod # 3 THEN "modrm-mod"
  ELSE IF f.modreq = 2 /\ p.mod = 3 THEN "modrm-mod"
  \* unused extension fields must be clear
  ELSE IF ~hasFld("reg") /\ ~hasFld("regmem") /\ f.digit < 0 /\ (p.R # 0 \/ p.R2 # 0) THEN "unused-R"
  ELSE IF f.modrm = 0 /\ (p.X # 0 \/ (p.B # 0 /\ ~hasFld("opr"))) THEN "unused-XB"
  ELSE IF vexlike /\ ~hasFld("vvvv") /\ (p.vvvv # 0 \/ (p.V2 # 0 /\ ~(\E j \in memJ : FO(j).vsib # ""))) THEN "unused-vvvv"
  \* EVEX decorations
  ELSE IF p.kind # "E" /\ (o.k # 0 \/ o.z # 0 \/ erOn \/ saeOn \/ bcOn) THEN "decoration-without-evex"
  ELSE IF p.kind = "E" /\ p.aaa # o.k THEN "evex-aaa"
  ELSE IF p.kind = "E" /\ p.z # o.z THEN "evex-z"
  ELSE IF p.kind = "E" /\ o.z = 1 /\ (f.z = 0 \/ o.k = 0) THEN "U-evex-z-not-allowed-by-row"
  ELSE IF p.kind = "E" /\ o.k # 0 /\ f.k = 0 THEN "U-evex-mask-not-allowed-by-row"
  ELSE IF p.kind = "E" /\ o.k = 0 /\ (\E j \in memJ : FO(j).vsib # "") THEN "U-evex-gather-scatter-needs-a-mask"
  ELSE IF p.kind = "E" /\ p.bb # (IF erOn \/ saeOn \/ bcOn THEN 1 ELSE 0) THEN "evex-b"
  ELSE IF p.kind = "E" /\ (erOn \/ saeOn) /\ f.l \in {0, 1} THEN "U-er-sae-on-a-128-or-256-bit-form"          \* b=1 implies 512-bit: no such instruction (C13)
  ELSE IF p.kind = "E" /\ saeOn /\ ~erOn /\ f.er = 1 THEN "U-sae-alone-on-a-rounding-capable-form"     \* L'L is the rounding mode there (C13)
  ELSE IF p.kind = "E" /\ erOn /\ (f.er = 0 \/ p.mod # 3 \/ p.LL # o.er) THEN "evex-rounding"
  ELSE IF p.kind = "E" /\ saeOn /\ ~erOn /\ (f.sae = 0 \/ p.mod # 3) THEN "evex-sae"
  \* options
  ELSE IF OVex3(o) /\ p.kind = "V2" THEN "option-vex3"
  ELSE IF ORex(o) /\ p.kind = "L" /\ mode = 64 /\ (\E j \in 1..n : FO(j).fld \in {"reg", "rm", "opr"} /\ ~InSeq("st", FO(j).regs)) /\ f.fw = 0 /\ ~p.rex /\ ~(\E j \in 1..n : OO(j).t = "r" /\ OO(j).c = "gph") THEN "option-rex"
  ELSE IF bad # {} THEN fieldClause(CHOOSE j \in bad : \A k \in bad : j <= k)
  ELSE ""

\* ---------------------------------------------------------------- verdict -----------------------------------
ClauseOrder == <<"length", "longer-than-15", "prefix-kind", "duplicate-prefix", "evex-reserved-bits", "extension-bit-in-32-bit-mode", "opcode", "opcode-suffix", "pp-mm",
                 "w-bit", "vector-length", "legacy-prefix-before-vex", "prefix-66", "prefix-F2", "prefix-F3", "U-rep-prefix-not-allowed-by-row",
                 "U-hle-prefix-not-allowed-by-row", "prefix-lock", "lock-needs-lockable-memory-destination", "prefix-9B", "prefix-67", "branch-hint-prefix", "segment-prefix",
                 "modrm-digit", "modrm-rm-fixed", "modrm-mod", "unused-R", "unused-XB", "unused-vvvv", "decoration-without-evex", "evex-aaa", "evex-z",
                 "U-evex-z-not-allowed-by-row", "U-evex-mask-not-allowed-by-row", "U-evex-gather-scatter-needs-a-mask", "evex-b", "U-er-sae-on-a-128-or-256-bit-form",
                 "U-sae-alone-on-a-rounding-capable-form", "evex-rounding",
                 "evex-sae", "option-vex3", "option-rex">>
ClauseRank(c) == IF c = "" THEN 100
                 ELSE IF \E j \in 1..Len(ClauseOrder) : ClauseOrder[j] = c THEN CHOOSE j \in 1..Len(ClauseOrder) : ClauseOrder[j] = c
                 ELSE 60          \* operand field clauses come last

CandSeq(o) == IF o.n \in DOMAIN Names THEN Names[o.n] ELSE <<>>
Cands(o) == {CandSeq(o)[j] : j \in 1..Len(CandSeq(o))}
Fitting(o) == {k \in Cands(o) : ArchOk(Forms[k], o.m) /\ Shape(Forms[k], o)}

(* option side conditions that relate the chosen row to its siblings *)
OptionsOk(k, o, fit) ==
  LET f == Forms[k] IN
  /\ (OEvex(o) /\ (\E k2 \in fit : Forms[k2].pk = "E" /\ Forms[k2].ok) => f.pk = "E")
  /\ (OLong(o) /\ (\E j \in 1..Len(f.ops) : f.ops[j].isgn = "s" /\ f.ops[j].ibits = 8)
        => ~\E k2 \in fit : Forms[k2].ok /\ k2 # k /\ \E j \in 1..Len(Forms[k2].ops) : Forms[k2].ops[j].ibits \in {16, 32})

(* semantically neutral rewritings an assembler may apply: lea r64,[abs unsigned-32] = lea r32,[abs] (zero extension);  *)
(* ret 0 = ret                                                                                                    *)
(* Each rewriting is a NAMED deviation action: Dev(o) = <<name, rewritten observation>>; the name is reported with the verdict  *)
(* (<<"DEVIATION", line, name>> in the TLC output, tallied in the evidence), nothing is accepted silently.                       *)
AbsU32(m) == m.t = "m" /\ m.bt = "" /\ m.it = "" /\ HighAll(m.d, 4, 0) /\ m.d[4] >= 128        \* absolute address in 0x80000000..0xFFFFFFFF
RexW(o) == LET x == At(o.b, PfxLen(o.b, 1, LegacyPfx) + 1) IN o.m = 64 /\ x >= 72 /\ x <= 79           \* a REX prefix with W = 1
Dev(o) ==
  IF o.n = "lea" /\ Len(o.ops) = 2 /\ o.ops[1].t = "r" /\ o.ops[1].c = "gpq" /\ AbsU32(o.ops[2])
     /\ ~RexW(o)
  THEN <<"LeaAbsU32AsLea32", [o EXCEPT !.ops[1].c = "gpd", !.ops[2].d = SExt(Low(o.ops[2].d, 4), 8)]>>     \* lea r64,[u32] = lea r32,[disp32]: the 32-bit write zero-extends
  ELSE IF o.n = "lea" /\ o.m = 64 /\ Len(o.ops) = 2 /\ o.ops[1].t = "r" /\ o.ops[1].c \in {"gpw", "gpd"} /\ AbsU32(o.ops[2])
  THEN <<"LeaAbsU32SignExtendedAddress", [o EXCEPT !.ops[2].d = SExt(Low(o.ops[2].d, 4), 8)]>>           \* destination <= 32 bits: sign- and zero-extended address give the same result
  ELSE IF o.n = "xchg" /\ o.m = 64 /\ o.b \in {<<144>>, <<64, 144>>} /\ Len(o.ops) = 2 /\ o.ops[1] = o.ops[2] /\ o.ops[1].t = "r" /\ o.ops[1].c = "gpq" /\ o.ops[1].id = 0
  THEN <<"XchgRaxRaxAsNop", [o EXCEPT !.ops[1].c = "gpd", !.ops[2].c = "gpd"]>>                             \* xchg rax,rax = nop = 90
  ELSE IF o.n \in {"ret", "retf"} /\ Len(o.ops) = 1 /\ o.ops[1].t = "i" /\ HighAll(o.ops[1].v, 0, 0) /\ Len(o.b) = 1
  THEN <<"RetZeroAsRet", [o EXCEPT !.ops = <<>>]>>
  ELSE IF o.n = "mov" /\ o.m = 64 /\ Len(o.ops) = 2 /\ o.ops[1].t = "r" /\ o.ops[1].c = "gpq" /\ o.ops[2].t = "i" /\ HighAll(o.ops[2].v, 4, 0) /\ ~RexW(o)
  THEN <<"MovImm64ToImm32", [o EXCEPT !.ops[1].c = "gpd"]>>          \* mov r64,u32 = mov r32,imm32 (B8+r id): the 32-bit write zero-extends
  ELSE IF o.n = "and" /\ o.m = 64 /\ Len(o.ops) = 2 /\ o.ops[1].t = "r" /\ o.ops[1].c = "gpq" /\ o.ops[2].t = "i" /\ HighAll(o.ops[2].v, 4, 0) /\ ~RexW(o)
  THEN <<"AndZext32", [o EXCEPT !.ops[1].c = "gpd"]>>                \* and r64,u32 = and r32,imm: the 32-bit write zero-extends, the mask clears the upper half anyway
  ELSE <<"", o>>
Norm(o) == Dev(o)[2]
(* a row of the database that itself states a zero-extending narrowing (and r64, immu32 = 81 /4 id without REX.W) *)
ZextRow(f) == f.w # 1 /\ (\E j \in 1..Len(f.ops) : f.ops[j].isgn = "u" /\ f.ops[j].ibits = 32) /\ (\E j \in 1..Len(f.ops) : InSeq("gpq", f.ops[j].regs))

(* an unmodelled row can only explain bytes of its own prefix kind: EVEX rows need 62, REX2 rows D5 *)
FirstOpByte(o) == At(o.b, PfxLen(o.b, 1, LegacyPfx) + 1)
CouldBe(f, o) == CASE f.pk = "E" -> FirstOpByte(o) = 98
                   [] f.pk = "U" -> FirstOpByte(o) = 213
                   [] OTHER -> TRUE

Verdict(o0) ==
  LET o == Norm(o0) IN
  IF o.e # 0 THEN <<"ok", "", 0>>
  ELSE LET fit == Fitting(o)
           okf == {k \in fit : Forms[k].ok}
           UC  == {"U-evex-z-not-allowed-by-row", "U-evex-mask-not-allowed-by-row", "U-rep-prefix-not-allowed-by-row",
                   "U-hle-prefix-not-allowed-by-row", "U-evex-gather-scatter-needs-a-mask", "U-er-sae-on-a-128-or-256-bit-form",
                   "U-sae-alone-on-a-rounding-capable-form"}
           Hit(k) == Clause(Forms[k], o) = "" /\ OptionsOk(k, o, fit)
       IN IF \E k \in okf : Hit(k)
          THEN <<"ok", IF Dev(o0)[1] # "" THEN Dev(o0)[1]
                       ELSE IF (\E k \in okf : ZextRow(Forms[k])) /\ (\A k \in okf : Hit(k) => ZextRow(Forms[k])) THEN "Zext32RowOfTheDatabase" ELSE "", 0>>
          ELSE IF fit = {} THEN <<"U", "operand-signature-not-in-database", 0>>
          ELSE IF okf = {} \/ \E k \in fit \ okf : CouldBe(Forms[k], o) THEN <<"U", "row-kind-not-modelled", 0>>
          ELSE IF \E k \in okf : Clause(Forms[k], o) \in UC
               THEN <<"U", Clause(Forms[CHOOSE k \in okf : Clause(Forms[k], o) \in UC], o), 0>>      \* bytes fit a row but for a decoration / prefix the row does not allow: C13
          ELSE LET rk(k) == ClauseRank(Clause(Forms[k], o))               \* diagnose against the row that fits furthest
                   best == {k \in okf : \A k2 \in okf : rk(k) >= rk(k2)}
                   k == IF o.f \in best THEN o.f ELSE CHOOSE k \in best : \A k2 \in best : k <= k2
                   c == Clause(Forms[k], o)
               IN <<"R", IF c = "" THEN "option" ELSE c, k>>
=============================================================================
