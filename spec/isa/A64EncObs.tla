------------------------------ MODULE A64EncObs --------------------------------
(* C02: pointwise conformance.  Every observation of the sweep (env OBS; rows from env ROWS) is an initial state;  *)
(* the invariant is evaluated on all of them.  An observation carries the answer of asmjit (ok, w) and the answer *)
(* of the independent assembler llvm-mc for the same operands (lx = leg present, lok, lw); both are judged by the   *)
(* same predicate of A64Enc.tla.  Conforms fails (TLC exit 12) only for a CORROBORATED rejection of asmjit's       *)
(* answer; every other disagreement is printed as a REJECT line for the runner's "unjudged" lists.                 *)
EXTENDS A64Enc

VARIABLE i

ObsFile  == IF "OBS" \in DOMAIN IOEnv THEN IOEnv.OBS ELSE "obs.ndjson"
RowsFile == IF "ROWS" \in DOMAIN IOEnv THEN IOEnv.ROWS ELSE "rows_tla.json"
Obs  == ndJsonDeserialize(ObsFile)
Rows == JsonDeserialize(RowsFile)

Init == i \in 1..Len(Obs)
Next == UNCHANGED i
Spec == Init /\ [][Next]_i

Verdicts(ob) ==
  LET va0 == IF ob.cls = "mov" THEN MovVerdict(ob.o, ob.ok, ob.w) ELSE LegVerdict(Rows, ob.rs, ob.o, ob.ok, ob.w)
      (* an operand pattern without a row may be another WRITING of the same registers (v3.1d is d3; an untyped d3/q3 of a       *)
      (* bytewise operation is v3.8b/v3.16b): alts lists these rewritings; the word must then be the row's encoding of them.      *)
      va == IF va0[1] = "accepted-non-form" /\ \E a \in 1..Len(ob.alts) :
                   LegVerdict(Rows, ob.alts[a].rs, ob.alts[a].o, ob.ok, ob.w)[1] = ""
            THEN <<"equivalent-view", "">> ELSE va0
      vl == IF ob.lx = 0 THEN <<"", "">>
            ELSE IF ob.cls = "mov" THEN MovVerdict(ob.o, ob.lok, ob.lw) ELSE LegVerdict(Rows, ob.rs, ob.o, ob.lok, ob.lw)
      cor == CASE ob.cls = "mov" -> va[1] # "" /\ ob.lx = 1 /\ (~ob.lok \/ vl[1] = "")    \* llvm-mc has no multi-word mov
               [] va[1] = "accepted-non-form" -> ob.lx = 1 /\ ~ob.lok       \* the independent assembler knows no such form either
               [] va[1] = "accepts-unencodable" -> (ob.lx = 1 /\ ~ob.lok) \/ ob.nl = 1
               [] va[1] \in {"field", "length"} -> ob.lx = 1 /\ ob.lok /\ vl[1] = ""
               [] OTHER -> FALSE
  IN <<va, vl, cor>>

Conforms ==
  LET v == Verdicts(Obs[i])
  IN \/ (v[1][1] = "" /\ v[2][1] = "")
     \/ (PrintT(<<"REJECT", i, v[1][1], v[1][2], v[2][1], v[2][2], v[3]>>) /\ ~v[3])
=============================================================================
