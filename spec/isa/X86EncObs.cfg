SPECIFICATION Spec
INVARIANT Conforms
