------------------------------ MODULE FmtObs --------------------------------
(* C20, binding (P): every line of the observation file (env OBS) is one initial state; the invariant is the       *)
(* verdict of Fmt.tla on that observation.  Rejections print <<"REJECT", line, role, token index, expected, got>>, *)
(* requests outside the modelled domain <<"UNJUDGED", line, why>> (no violation); TLC runs with -continue.         *)
EXTENDS Fmt, Json, IOUtils

VARIABLE i

Obs == ndJsonDeserialize(IOEnv.OBS)

Init == i \in 1..Len(Obs)
Next == UNCHANGED i
Spec == Init /\ [][Next]_i

Conforms == LET v == Verdict(Obs[i])
            IN CASE v[1] = "ok" -> TRUE
                 [] v[1] = "U"  -> PrintT(<<"UNJUDGED", i, v[2]>>)
                 [] OTHER       -> PrintT(<<"REJECT", i, v[2], v[3], v[4], v[5]>>) /\ FALSE
=============================================================================
