SPECIFICATION Spec
INVARIANT Conforms
