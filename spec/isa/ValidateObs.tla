------------------------------ MODULE ValidateObs -------------------------------
(* C13, binding (P): every line of the observation file (env OBS) is one initial state; the invariant is the verdict *)
(* of Validate.tla on that observation.  Every observation whose verdict is not "" prints <<"R", line, verdict>>;     *)
(* only "V:.." verdicts violate the invariant.  TLC runs with -continue.                                           *)
EXTENDS Validate

VARIABLE i

Obs == ndJsonDeserialize(IOEnv.OBS)

Init == i \in 1..Len(Obs)
Next == UNCHANGED i
Spec == Init /\ [][Next]_i

Conforms == LET v == Verdict(Obs[i])
            IN IF v = NONE THEN TRUE
               ELSE PrintT(<<"R", i, v[1], v[2]>>) /\ v[1] # "V"
=============================================================================
