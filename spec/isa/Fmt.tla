--------------------------------- MODULE Fmt ---------------------------------
(***************************************************************************************************************)
(* C20 - the DENOTATION of a formatted instruction line.                                                       *)
(*                                                                                                             *)
(* An observation carries the request (instruction name, operand descriptors, decorations, option bits, format  *)
(* flags), the TOKENS a generic lexer made of asmjit's text (words, numbers as 64-bit magnitude m / negation n  *)
(* in four 16-bit limbs, one-character punctuation) and, for logger lines, the machine-code column hx (byte      *)
(* values, -1 for a masked ".." pair) next to the bytes b that were appended.                                    *)
(*                                                                                                             *)
(* Denote(o) is the sequence of ITEMS the text has to consist of: which mnemonic (or an alias the manuals give  *)
(* for the same opcode), which register BY ITS ARCHITECTURAL NAME (tables below, written from the Intel SDM /   *)
(* AMD APM / Arm ARM - not from asmjit's tables), which memory size keyword, segment, base, index, scale,       *)
(* displacement VALUE (sign included, modulo 2^64, decimal or hexadecimal), broadcast, which immediate VALUE,   *)
(* mask / zeroing / rounding decorations, which label name.  Pure syntax is not judged: blanks, case, ",", "#", *)
(* "+", ":", the "ptr" keyword, number base, "*1", a zero displacement, the order of option prefixes, the text   *)
(* explaining an immediate (FormatFlags::kExplainImms).                                                         *)
(* Verdict(o) = <<"ok">> | <<"U", why>> | <<"R", role, index of the offending token, expected, got>>.           *)
(***************************************************************************************************************)
EXTENDS Integers, Sequences, FiniteSets, TLC

\* ------------------------------------------------------------------------------------------------------------
\* architectural register names
\* ------------------------------------------------------------------------------------------------------------
\* Intel SDM vol. 1, 3.4.1 / 3.4.1.1 (general-purpose registers in 64-bit mode), AMD APM vol. 3 figure 2-3
GP64 == <<"rax", "rcx", "rdx", "rbx", "rsp", "rbp", "rsi", "rdi", "r8", "r9", "r10", "r11", "r12", "r13", "r14", "r15">>
GP32 == <<"eax", "ecx", "edx", "ebx", "esp", "ebp", "esi", "edi", "r8d", "r9d", "r10d", "r11d", "r12d", "r13d", "r14d", "r15d">>
GP16 == <<"ax", "cx", "dx", "bx", "sp", "bp", "si", "di", "r8w", "r9w", "r10w", "r11w", "r12w", "r13w", "r14w", "r15w">>
GP8  == <<"al", "cl", "dl", "bl", "spl", "bpl", "sil", "dil", "r8b", "r9b", "r10b", "r11b", "r12b", "r13b", "r14b", "r15b">>
GP8I == <<"al", "cl", "dl", "bl", "spl", "bpl", "sil", "dil", "r8l", "r9l", "r10l", "r11l", "r12l", "r13l", "r14l", "r15l">>   \* Intel spelling of r8b..
GP8H == <<"ah", "ch", "dh", "bh">>
SEGN == <<"es", "cs", "ss", "ds", "fs", "gs">>

X86Count == [gpb |-> 16, gph |-> 4, gpw |-> 16, gpd |-> 16, gpq |-> 16, xmm |-> 32, ymm |-> 32, zmm |-> 32, mm |-> 8, k |-> 8,
             sreg |-> 6, creg |-> 16, dreg |-> 16, st |-> 8, bnd |-> 4, tmm |-> 8]

X86RegNames(c, id) ==      \* the set of spellings the manuals use for register `id` of class `c`
  CASE c = "gpq" -> {GP64[id + 1]}
    [] c = "gpd" -> {GP32[id + 1]}
    [] c = "gpw" -> {GP16[id + 1]}
    [] c = "gpb" -> {GP8[id + 1], GP8I[id + 1]}
    [] c = "gph" -> {GP8H[id + 1]}
    [] c = "sreg" -> {SEGN[id + 1]}
    [] c = "creg" -> {"cr" \o ToString(id)}
    [] c = "dreg" -> {"dr" \o ToString(id)}
    [] c = "rip" -> {"rip"}
    [] OTHER -> {c \o ToString(id)}          \* xmm ymm zmm mm k st bnd tmm <n>

X86RegKnown(c, id) == c \in DOMAIN X86Count /\ id >= 0 /\ id < X86Count[c]

\* Arm ARM C1.2.5 / B1.2.1 (register names), C1.2.6 (vector arrangements)
A64Gp(t, id, sp) == IF id = 31 THEN (IF sp = 1 THEN (IF t = "x" THEN "sp" ELSE "wsp") ELSE (IF t = "x" THEN "xzr" ELSE "wzr"))
                    ELSE t \o ToString(id)
ArrLow == [x \in {"8B", "16B", "4H", "8H", "2S", "4S", "1D", "2D", "2H", "4B", "1Q"} |->
             CASE x = "8B" -> "8b" [] x = "16B" -> "16b" [] x = "4H" -> "4h" [] x = "8H" -> "8h" [] x = "2S" -> "2s" [] x = "4S" -> "4s"
               [] x = "1D" -> "1d" [] x = "2D" -> "2d" [] x = "2H" -> "2h" [] x = "4B" -> "4b" [] OTHER -> "1q"]
\* element (lane) notation: Vn.T[i]; the full-register arrangement in front of the index (Vn.4S[1]) denotes the same lane
LaneWords(e) == CASE e = "B" -> {"b", "16b"} [] e = "H" -> {"h", "8h"} [] e = "S" -> {"s", "4s"} [] e = "D" -> {"d", "2d"}
                  [] e = "4B" -> {"4b"} [] e = "2H" -> {"2h"} [] OTHER -> {}
\* condition 0b1111 is NV in the Arm ARM; asmjit's documented CondCode name for it is kNA ("na")
CondNames == <<{"eq"}, {"ne"}, {"cs", "hs"}, {"cc", "lo"}, {"mi"}, {"pl"}, {"vs"}, {"vc"}, {"hi"}, {"ls"}, {"ge"}, {"lt"}, {"gt"}, {"le"}, {"al"}, {"nv", "na"}>>

\* ------------------------------------------------------------------------------------------------------------
\* mnemonic aliases (Intel SDM vol. 2, appendix B.1.4.7 condition test field: one opcode, several mnemonics)
\* ------------------------------------------------------------------------------------------------------------
CCClasses == {{"o"}, {"no"}, {"b", "nae", "c"}, {"nb", "ae", "nc"}, {"z", "e"}, {"nz", "ne"}, {"be", "na"}, {"nbe", "a"},
              {"s"}, {"ns"}, {"p", "pe"}, {"np", "po"}, {"l", "nge"}, {"nl", "ge"}, {"le", "ng"}, {"nle", "g"}}
CCStems == {"cmov", "set", "j"}
OtherAliasSets == {{"sal", "shl"}, {"wait", "fwait"}, {"xlat", "xlatb"}, {"loope", "loopz"}, {"loopne", "loopnz"}}
AliasSets == {{st \o c : c \in cl} : st \in CCStems, cl \in CCClasses} \cup OtherAliasSets
Aliases(n) == {n} \cup UNION {S \in AliasSets : n \in S}

\* ------------------------------------------------------------------------------------------------------------
\* numbers
\* ------------------------------------------------------------------------------------------------------------
Bytes8ToLimbs(b) == <<b[1] + 256 * b[2], b[3] + 256 * b[4], b[5] + 256 * b[6], b[7] + 256 * b[8]>>
IntToLimbs(x) ==      \* -2^31 < x < 2^31
  IF x >= 0 THEN <<x % 65536, x \div 65536, 0, 0>>
  ELSE LET v == 0 - (x + 1) IN <<65535 - (v % 65536), 65535 - (v \div 65536), 65535, 65535>>
Pow2 == <<1, 2, 4, 8, 16, 32, 64, 128>>
Bit(fl, b) == (fl \div b) % 2 = 1
FMachineCode(fl) == Bit(fl, 1)
FExplain(fl) == Bit(fl, 16)
FRegCasts(fl) == Bit(fl, 256)
FRegType(fl) == Bit(fl, 1024)

\* ------------------------------------------------------------------------------------------------------------
\* tokens -> canonical tokens (syntax removed, signs folded into the value)
\* ------------------------------------------------------------------------------------------------------------
Noise == {"#", "ptr", "+", ":"}        \* "," is kept: Match skips it wherever it stands (it separates an explained immediate from a decoration)
RECURSIVE CanonFrom(_, _)
CanonFrom(tk, i) ==
  IF i > Len(tk) THEN <<>>
  ELSE LET t == tk[i] IN
    IF t.s \in Noise THEN CanonFrom(tk, i + 1)
    ELSE IF t.s = "-" /\ i < Len(tk) /\ tk[i + 1].s = "<num>" THEN <<[s |-> "<num>", v |-> tk[i + 1].n]>> \o CanonFrom(tk, i + 2)
    ELSE IF t.s = "<num>" THEN <<[s |-> "<num>", v |-> t.m]>> \o CanonFrom(tk, i + 1)
    ELSE <<[s |-> t.s, v |-> <<>>]>> \o CanonFrom(tk, i + 1)
Canon(tk) == CanonFrom(tk, 1)

\* ------------------------------------------------------------------------------------------------------------
\* items
\* ------------------------------------------------------------------------------------------------------------
Item(ss, vs, opt, role, lab) == [k |-> "t", ss |-> ss, vs |-> vs, opt |-> opt, role |-> role, lab |-> lab]
Wd(s, role) == Item({s}, {}, FALSE, role, s)
WdO(s, role) == Item({s}, {}, TRUE, role, s)
Ws(S, role, lab) == Item(S, {}, FALSE, role, lab)
WsO(S, role, lab) == Item(S, {}, TRUE, role, lab)
Nm(v, role) == Item({}, {v}, FALSE, role, "<num>")
NmO(v, role) == Item({}, {v}, TRUE, role, "<num>")
ScaleOne == [k |-> "scale1", ss |-> {}, vs |-> {}, opt |-> TRUE, role |-> "mem-scale", lab |-> "*1"]     \* "*1" may be written or not
SkipBrace == [k |-> "skip", ss |-> {}, vs |-> {}, opt |-> TRUE, role |-> "explain", lab |-> "{..}"]
MnItem(S, lab) == [k |-> "mn", ss |-> S, vs |-> {}, opt |-> FALSE, role |-> "mnemonic", lab |-> lab]
Bad(why) == [k |-> "bad", ss |-> {}, vs |-> {}, opt |-> FALSE, role |-> why, lab |-> why]     \* request outside the modelled domain

Fits(x, t) == IF t.s = "<num>" THEN t.v \in x.vs ELSE t.s \in x.ss

RECURSIVE CloseBrace(_, _)
CloseBrace(act, i) == IF i > Len(act) THEN i ELSE IF act[i].s = "}" THEN i ELSE CloseBrace(act, i + 1)

\* mnemonic at act[i]: one word of the alias set, or asmjit's alias notation  stem . cc | cc | cc  (all spellings must be aliases)
RECURSIVE DotEnd(_, _)
DotEnd(act, i) == IF i + 1 <= Len(act) /\ act[i].s = "|" THEN DotEnd(act, i + 2) ELSE i      \* i = index after the last cc
DotWords(act, i, e) == {act[j].s : j \in {j \in i..(e - 1) : (j - i) % 2 = 0}}
MnSpan(act, i, S) ==        \* number of tokens the mnemonic occupies, 0 = does not denote the instruction
  IF i > Len(act) THEN 0
  ELSE IF i + 2 <= Len(act) /\ act[i + 1].s = "|"                                   \* name|name|name
       THEN LET e == DotEnd(act, i + 1) IN IF DotWords(act, i, e) \subseteq S THEN e - i ELSE 0
  ELSE IF i + 2 <= Len(act) /\ act[i + 1].s = "." /\ act[i].s \in CCStems /\ ~(act[i].s \in S)
       THEN LET e == DotEnd(act, i + 3) IN
            IF {act[i].s \o c : c \in DotWords(act, i + 2, e)} \subseteq S THEN e - i ELSE 0
  ELSE IF act[i].s \in S THEN 1 ELSE 0

\* Match(exp, act, j, i): <<0, 0>> when exp[j..] denotes exactly act[i..], else <<index of the offending token, index of the item>>
RECURSIVE Match(_, _, _, _)
Match(exp, act, j, i) ==
  IF i <= Len(act) /\ act[i].s = "," /\ (j > Len(exp) \/ exp[j].k # "skip") THEN Match(exp, act, j, i + 1)
  ELSE IF j > Len(exp) THEN (IF i > Len(act) THEN <<0, 0>> ELSE <<i, j>>)
  ELSE LET x == exp[j] IN
    IF x.k = "skip" THEN (IF i <= Len(act) /\ act[i].s = "{" THEN Match(exp, act, j + 1, CloseBrace(act, i) + 1) ELSE Match(exp, act, j + 1, i))
    ELSE IF x.k = "scale1" THEN (IF i + 1 <= Len(act) /\ act[i].s = "*" /\ act[i + 1].s = "<num>" /\ act[i + 1].v = <<1, 0, 0, 0>> THEN Match(exp, act, j + 1, i + 2) ELSE Match(exp, act, j + 1, i))
    ELSE IF x.k = "mn" THEN (LET n == MnSpan(act, i, x.ss) IN IF n > 0 THEN Match(exp, act, j + 1, i + n) ELSE <<i, j>>)
    ELSE IF x.k = "bad" THEN <<i, j>>
    ELSE IF i <= Len(act) /\ Fits(x, act[i]) THEN Match(exp, act, j + 1, i + 1)
    ELSE IF x.opt THEN Match(exp, act, j + 1, i)
    ELSE <<i, j>>

\* ------------------------------------------------------------------------------------------------------------
\* labels and virtual registers (both architectures)
\* ------------------------------------------------------------------------------------------------------------
LabelItems(d) ==       \* L<id> anonymous | name | parent.local | L<parent>.local | L<id>@name
  LET anon == "l" \o ToString(d.id) IN
  CASE d.kind = 0 -> <<Wd(anon, "label")>>
    [] d.kind = 1 -> <<Wd(d.nm, "label")>>
    [] d.kind = 2 -> <<Wd(d.pnm, "label"), Wd(".", "label"), Wd(d.nm, "label")>>
    [] d.kind = 3 -> <<Wd("l" \o ToString(d.pid), "label"), Wd(".", "label"), Wd(d.nm, "label")>>
    [] OTHER -> <<Wd(anon, "label"), Wd("@", "label"), Wd(d.nm, "label")>>

VirtName(d) == IF d.nm = "" THEN <<Wd("%", "vreg"), Nm(IntToLimbs(d.ix), "vreg")>> ELSE <<Wd(d.nm, "vreg")>>
\* @type: required when FormatFlags::kRegType, or kRegCasts and the operand's type differs from the virtual register's
X86VirtItems(d, fl, casts) ==
  LET need == FRegType(fl) \/ (casts /\ FRegCasts(fl) /\ d.c # d.vc)
      ty == IF d.c = "gph" THEN <<Item({"gpb"}, {}, ~need, "vreg-type", "gpb.hi"), Item({"."}, {}, ~need, "vreg-type", "."), Item({"hi"}, {}, ~need, "vreg-type", "hi")>>
            ELSE <<Item({d.c}, {}, ~need, "vreg-type", d.c)>>
  IN VirtName(d) \o <<Item({"@"}, {}, ~need, "vreg-type", "@")>> \o ty

\* ------------------------------------------------------------------------------------------------------------
\* x86 operands
\* ------------------------------------------------------------------------------------------------------------
SizeWords(sz) == CASE sz = 1 -> {"byte"} [] sz = 2 -> {"word"} [] sz = 4 -> {"dword"} [] sz = 6 -> {"fword"} [] sz = 8 -> {"qword"}
                   [] sz = 10 -> {"tbyte", "tword"} [] sz = 16 -> {"xmmword", "oword"} [] sz = 32 -> {"ymmword"} [] sz = 64 -> {"zmmword"} [] OTHER -> {}

X86Reg(c, id, role) == IF X86RegKnown(c, id) THEN <<Ws(X86RegNames(c, id), role, CHOOSE s \in X86RegNames(c, id) : TRUE)>> ELSE <<Bad("U:register id outside the architecture")>>

X86MemItems(o, fl, inInst) ==
  LET sw == SizeWords(o.sz)
      size == IF sw = {} THEN <<>> ELSE <<Ws(sw, "mem-size", CHOOSE s \in sw : TRUE)>>
      seg == IF o.sg = 0 THEN <<>> ELSE <<Wd(SEGN[o.sg], "mem-segment")>>
      at == IF o.at = 1 THEN <<Wd("abs", "mem-addrtype")>> ELSE IF o.at = 2 THEN <<Wd("rel", "mem-addrtype")>> ELSE <<>>
      base == CASE o.bt = "" -> <<>>
                [] o.bt = "rip" -> <<Wd("rip", "mem-base")>>
                [] o.bt = "lb" -> LabelItems(o.lb)
                [] o.bt = "vr" -> X86VirtItems(o.vr, fl, TRUE)
                [] OTHER -> X86Reg(o.bt, o.b, "mem-base")
      index == IF o.it = "" THEN <<>> ELSE X86Reg(o.it, o.i, "mem-index") \o
               (IF o.sh = 0 THEN <<ScaleOne>> ELSE <<Wd("*", "mem-scale"), Nm(<<Pow2[o.sh + 1], 0, 0, 0>>, "mem-scale")>>)
      dl == Bytes8ToLimbs(o.d)
      zero == dl = <<0, 0, 0, 0>> /\ (o.bt # "" \/ o.it # "")
      disp == <<Item({}, {dl}, zero, "mem-disp", "<num>")>>
      bc == IF o.bc = 0 THEN <<>> ELSE <<Item({"{"}, {}, ~inInst, "broadcast", "{"), Item({"1to" \o ToString(o.bc)}, {}, ~inInst, "broadcast", "1to" \o ToString(o.bc)),
                                         Item({"}"}, {}, ~inInst, "broadcast", "}")>>
  IN size \o seg \o <<Wd("[", "mem")>> \o at \o base \o index \o disp \o <<Wd("]", "mem")>> \o bc

X86OpItems(o, fl, lbls, li, inInst) ==
  CASE o.t = "r" -> X86Reg(o.c, o.id, "reg")
    [] o.t = "m" -> X86MemItems(o, fl, inInst)
    [] o.t = "i" -> <<Nm(Bytes8ToLimbs(o.v), "imm")>> \o (IF FExplain(fl) THEN <<SkipBrace>> ELSE <<>>)
    [] o.t = "l" -> IF li <= Len(lbls) THEN LabelItems(lbls[li]) ELSE <<Bad("U:label operand without a label record")>>
    [] o.t = "lb" -> LabelItems(o.lb)
    [] o.t = "vr" -> X86VirtItems(o, fl, TRUE)
    [] OTHER -> <<Bad("U:operand kind")>>

LabelsBefore(ops, j) == Cardinality({q \in 1..(j - 1) : ops[q].t = "l"})

ERNames == <<"rn", "rd", "ru", "rz">>
X86Deco(o) ==     \* after the first operand
  (IF o.k # 0 THEN <<Wd("{", "mask"), Wd("k" \o ToString(o.k), "mask"), Wd("}", "mask")>> ELSE <<>>) \o
  (IF o.z # 0 THEN <<Wd("{", "zeroing"), Wd("z", "zeroing"), Wd("}", "zeroing")>> ELSE <<>>)
X86Round(o) ==
  IF o.er >= 0 THEN <<Wd("{", "rounding"), Wd(ERNames[o.er + 1], "rounding"), Wd("-", "rounding"), Wd("sae", "rounding"), Wd("}", "rounding")>>
  ELSE IF o.sae # 0 THEN <<Wd("{", "sae"), Wd("sae", "sae"), Wd("}", "sae")>> ELSE <<>>

RECURSIVE X86OpsFrom(_, _, _, _)
X86OpsFrom(o, fl, j, inInst) ==
  IF j > Len(o.ops) THEN <<>>
  ELSE X86OpItems(o.ops[j], fl, o.lbl, LabelsBefore(o.ops, j) + 1, inInst) \o (IF j = 1 THEN X86Deco(o) ELSE <<>>) \o X86OpsFrom(o, fl, j + 1, inInst)

\* option prefixes: any order, with or without braces
OptWords == {"vex", "vex3", "evex", "modrm", "modmr", "short", "long", "xacquire", "xrelease", "lock", "rep", "repe", "repz", "repne", "repnz", "rex"}
CanonOpt(w) == IF w \in {"repe", "repz"} THEN "rep" ELSE IF w = "repnz" THEN "repne" ELSE w
RECURSIVE PrefixEnd(_, _)
PrefixEnd(act, i) ==
  IF i <= Len(act) /\ act[i].s \in OptWords THEN PrefixEnd(act, i + 1)
  ELSE IF i + 2 <= Len(act) /\ act[i].s = "{" /\ act[i + 1].s \in OptWords /\ act[i + 2].s = "}" THEN PrefixEnd(act, i + 3)
  ELSE i
Pow2Big(b) == CASE b = 1 -> 1 [] b = 2 -> 2 [] b = 3 -> 4 [] b = 4 -> 8 [] b = 5 -> 16 [] b = 6 -> 32 [] b = 7 -> 64 [] b = 8 -> 128 [] b = 9 -> 256
                [] b = 10 -> 512 [] b = 11 -> 1024 [] b = 12 -> 2048 [] OTHER -> 4096
OptNames == <<"lock", "rep", "repne", "xacquire", "xrelease", "short", "long", "modmr", "modrm", "vex3", "vex", "evex", "rex">>
ExpectedOpts(opt) == {OptNames[b] : b \in {b \in 1..13 : Bit(opt, Pow2Big(b))}}


\* ------------------------------------------------------------------------------------------------------------
\* AArch64 operands
\* ------------------------------------------------------------------------------------------------------------
A64GpItem(t, id, sp, role) == IF id >= 0 /\ id <= 31 THEN <<Wd(A64Gp(t, id, sp), role)>> ELSE <<Bad("U:register id outside the architecture")>>

A64VecItems(d, id) ==
  IF id < 0 \/ id > 31 THEN <<Bad("U:register id outside the architecture")>>
  ELSE IF d.t # "v" THEN <<Wd(d.t \o ToString(id), "reg")>>
  ELSE IF d.ei >= 0 THEN <<Wd("v" \o ToString(id), "reg"), Wd(".", "vec-arrangement"), Ws(LaneWords(d.arr), "vec-arrangement", d.arr),
                            Wd("[", "vec-lane"), Nm(IntToLimbs(d.ei), "vec-lane"), Wd("]", "vec-lane")>>
  ELSE IF d.arr = "1Q" THEN <<Wd("q" \o ToString(id), "reg")>>       \* asmjit has no .1Q view: lib_a64forms.h passes the plain 128-bit register
  ELSE IF d.arr \in DOMAIN ArrLow THEN <<Wd("v" \o ToString(id), "reg"), Wd(".", "vec-arrangement"), Wd(ArrLow[d.arr], "vec-arrangement")>>
  ELSE <<Bad("U:arrangement")>>

A64VirtItems(d) ==
  VirtName(d) \o
  (IF d.t # "v" THEN <<>>
   ELSE IF d.ei >= 0 THEN <<Wd(".", "vec-arrangement"), Ws(LaneWords(d.arr), "vec-arrangement", d.arr), Wd("[", "vec-lane"), Nm(IntToLimbs(d.ei), "vec-lane"), Wd("]", "vec-lane")>>
   ELSE <<Wd(".", "vec-arrangement"), Wd(ArrLow[d.arr], "vec-arrangement")>>)

RECURSIVE A64GpList(_, _)
A64GpList(d, j) == IF j > Len(d.ids) THEN <<>> ELSE A64GpItem(d.t, d.ids[j], 0, "reg") \o A64GpList(d, j + 1)
RECURSIVE A64VecList(_, _)
A64VecList(d, j) == IF j > Len(d.ids) THEN <<>> ELSE A64VecItems(d, d.ids[j]) \o A64VecList(d, j + 1)

Extends == {"uxtb", "uxth", "uxtw", "uxtx", "sxtb", "sxth", "sxtw", "sxtx"}
\* LSL is the default shift: its name may be omitted.  A shift by 0 and an UXTX/SXTX of an X register by 0 leave the value as it is
\* (the same address / operand value is denoted), so they may be omitted altogether.  UXTW / SXTW (and the byte / halfword extends)
\* say how a W register is widened: their name is part of the denotation even when the amount is 0.
NameOptional(op, a) == op = "lsl" \/ (a = 0 /\ op \in {"lsr", "asr", "ror", "uxtx", "sxtx"})
A64ShiftItems(op, amt, role) ==
  LET a == IF amt < 0 THEN 0 ELSE amt IN
  <<Item({op}, {}, NameOptional(op, a), role, op), Item({}, {IntToLimbs(a)}, a = 0, role, "<num>")>>

A64MemItems(d) ==
  LET base == A64GpItem("x", d.b, d.bsp, "mem-base")
      off == <<Item({}, {IntToLimbs(d.off)}, d.off = 0, "mem-disp", "<num>")>>
      idx == A64GpItem(d.xt, d.xi, d.xsp, "mem-index")
      ext == IF d.sh = "" /\ d.amt < 0 THEN <<>> ELSE A64ShiftItems(IF d.sh = "" THEN "lsl" ELSE d.sh, d.amt, "mem-extend")
      O == <<Wd("[", "mem")>>
      C == <<Wd("]", "mem")>>
      W == <<Wd("!", "mem-writeback")>>
  IN IF d.xi >= 0
     THEN (IF d.mode = "post" THEN O \o base \o C \o idx ELSE O \o base \o idx \o ext \o C \o (IF d.mode = "pre" THEN W ELSE <<>>))
     ELSE CASE d.mode = "post" -> O \o base \o C \o off
            [] d.mode = "pre" -> O \o base \o off \o C \o W
            [] OTHER -> O \o base \o off \o C

A64Base == <<0, 16384, 0, 0>>       \* lib_a64forms.h kBase = 0x40000000: pc-relative targets are passed as absolute immediates

A64OpItems(d) ==
  CASE d.k = "-" -> <<>>
    [] d.k = "cc" -> <<>>
    [] d.k = "r" -> IF "ids" \in DOMAIN d THEN A64GpList(d, 1) ELSE A64GpItem(d.t, d.id, d.sp, "reg")
    [] d.k = "v" -> IF "ids" \in DOMAIN d THEN A64VecList(d, 1) ELSE A64VecItems(d, d.id)
    [] d.k = "i" -> <<Nm(d.l, "imm")>>
    [] d.k = "f" -> <<Nm(d.l, "imm")>>                      \* Imm(double): the IEEE-754 bit pattern is the value given
    [] d.k = "s" -> A64ShiftItems(d.op, d.amt, "shift")
    [] d.k = "c" -> <<Item(CondNames[d.c + 1], {IntToLimbs((d.c + 2) % 16)}, FALSE, "cond", "cond")>>     \* name, or the value of asmjit's public CondCode enum
    [] d.k = "l" -> <<Nm(d.al, "imm")>>
    [] d.k = "m" -> A64MemItems(d)
    [] d.k = "lb" -> LabelItems(d.lb)
    [] d.k = "ml" -> <<Wd("[", "mem")>> \o LabelItems(d.lb) \o <<Wd("]", "mem")>>          \* pc-relative literal: [label]
    [] d.k = "vr" -> A64VirtItems(d)
    [] OTHER -> <<Bad("U:operand kind")>>

RECURSIVE A64OpsFrom(_, _)
A64OpsFrom(ops, j) == IF j > Len(ops) THEN <<>> ELSE A64OpItems(ops[j]) \o A64OpsFrom(ops, j + 1)

A64CondSuffix(ops) ==
  LET cs == {j \in 1..Len(ops) : ops[j].k = "cc"} IN
  IF cs = {} THEN <<>>
  ELSE LET c == ops[CHOOSE j \in cs : TRUE].c IN <<Item({"."}, {}, c = 14, "cond", "."), Item(CondNames[c + 1], {}, c = 14, "cond", "cond")>>

\* ------------------------------------------------------------------------------------------------------------
\* Denote and the verdict
\* ------------------------------------------------------------------------------------------------------------
IsOperandLeg(o) == "leg" \in DOMAIN o /\ o.leg = "O"

DenoteX86(o) == IF IsOperandLeg(o) THEN X86OpsFrom(o, o.fl, 1, FALSE)
                ELSE <<MnItem(Aliases(o.n), o.n)>> \o X86OpsFrom(o, o.fl, 1, TRUE) \o X86Round(o)
\* the assembler encodes LDR/STR with an offset the scaled form cannot hold as LDUR/STUR (Arm ARM: preferred disassembly of that
\* encoding); the logger names the instruction it emitted
UnscaledOf == [ldr |-> "ldur", ldrb |-> "ldurb", ldrh |-> "ldurh", ldrsb |-> "ldursb", ldrsh |-> "ldursh", ldrsw |-> "ldursw",
               str |-> "stur", strb |-> "sturb", strh |-> "sturh", prfm |-> "prfum"]
A64Mnemonics(o) == {o.mn} \cup (IF "leg" \in DOMAIN o /\ o.leg = "L" /\ o.mn \in DOMAIN UnscaledOf THEN {UnscaledOf[o.mn]} ELSE {})
DenoteA64(o) == IF IsOperandLeg(o) THEN A64OpsFrom(o.o, 1)
                ELSE <<Ws(A64Mnemonics(o), "mnemonic", o.mn)>> \o A64CondSuffix(o.o) \o A64OpsFrom(o.o, 1)

\* machine-code column: present exactly when FormatFlags::kMachineCode; one pair per byte appended; every pair is the byte appended
\* at that position, except that the displacement / address FIELD of a reference CodeHolder registered a fixup or a relocation for
\* (o.fx = <<offset in the instruction, width>> of every such field, read from CodeHolder by the harness) may be masked ".." - the
\* whole field or nothing of it.  Opcode, ModRM/SIB and IMMEDIATE bytes are never masked and always equal the buffer.  An AArch64
\* word is never masked (the field of its fixup shares the word with the opcode bits).
Dots(hx) == {j \in 1..Len(hx) : hx[j] = -1}
FxOf(o) == IF "fx" \in DOMAIN o THEN o.fx ELSE <<>>
FieldPos(f) == (f[1] + 1)..(f[1] + f[2])
HexVerdict(o, a64) ==
  IF ~FMachineCode(o.fl) THEN (IF o.hx = <<>> THEN "ok" ELSE "machine-code column printed without FormatFlags::kMachineCode")
  ELSE IF Len(o.hx) # Len(o.b) THEN "machine-code column has another length than the bytes appended"
  ELSE IF \E j \in 1..Len(o.b) : o.hx[j] # o.b[j] /\ o.hx[j] # -1 THEN "machine-code column differs from the bytes appended"
  ELSE LET D == Dots(o.hx) fx == FxOf(o) IN
    IF D = {} THEN "ok"
    ELSE IF a64 THEN "masked bytes in an AArch64 machine-code column"
    ELSE IF ~(D \subseteq UNION {FieldPos(fx[q]) : q \in 1..Len(fx)}) THEN "masked bytes outside the displacement field of a relocated reference"
    ELSE IF \E q \in 1..Len(fx) : FieldPos(fx[q]) \cap D # {} /\ ~(FieldPos(fx[q]) \subseteq D) THEN "displacement field of a relocated reference masked in part"
    ELSE "ok"

\* the logger prints the options the assembler ended up with ("given or emitted"): "rex" also when the REX prefix was emitted for the
\* operands' sake, "short" when the rel8 form was chosen
RexEmitted(o) == o.m = 64 /\ \E j \in 1..Len(o.b) : o.b[j] >= 64 /\ o.b[j] <= 79

ShortEmitted(o) == Len(o.b) <= 4 /\ \E j \in 1..Len(o.ops) : o.ops[j].t \in {"l", "lb"}
\* mod_mr / mod_rm and rep / repne are contradictory pairs: when both of a pair are given the text has to show at least one of them
\* (asmjit prints {modrm}, rep; the assembler refuses rep+repne with InvalidPrefixCombination)
Partner(w) == CASE w = "modmr" -> "modrm" [] w = "modrm" -> "modmr" [] w = "rep" -> "repne" [] w = "repne" -> "rep" [] OTHER -> ""
HintsOk(G, opts) == \A w \in G \ opts : Partner(w) \in G /\ Partner(w) \in opts
GivenOptsOk(o, opts) == opts \subseteq ExpectedOpts(o.opt) /\ HintsOk(ExpectedOpts(o.opt), opts)
EmittedOptsOk(o, opts) == /\ HintsOk(ExpectedOpts(o.opt), opts)
                          /\ opts \ ExpectedOpts(o.opt) \subseteq {"rex", "short"}
                          /\ ("rex" \in opts \ ExpectedOpts(o.opt) => RexEmitted(o))
                          /\ ("short" \in opts \ ExpectedOpts(o.opt) => ShortEmitted(o))

\* a refused request is described with the options the assembler had worked out when it gave up: "rex" may have been added for the
\* operands' sake (64-bit mode; e.g. InvalidRexPrefix: rex mov dil, ch)
RefusedOptsOk(o, opts) == HintsOk(ExpectedOpts(o.opt), opts) /\ opts \ ExpectedOpts(o.opt) \subseteq {"rex"} /\ o.m = 64

\* ------------------------------------------------------------------------------------------------------------
\* the byte side of the decorations: what the appended bytes MEAN (Intel SDM vol. 2, 2.7 EVEX prefix: P2 = z L'L b V' aaa)
\*   aaa  = opmask register {k}, z = zeroing {z}
\*   b    = broadcast {1toN} with a memory operand; on a register-only form static rounding + SAE: the row that allows embedded
\*          rounding reads L'L as the rounding mode {rn|rd|ru|rz-sae}, a row that only allows SAE means {sae}
\* The text has to denote the decorations that were GIVEN (all of them: {er} and {sae} given together are {r?-sae}) or the ones
\* the bytes mean (EMITTED).  Where both readings coincide - every accepted request of a correct encoder - nothing changes.
\* ------------------------------------------------------------------------------------------------------------
LegacyPrefixes == {102, 103, 242, 243, 240, 38, 46, 54, 62, 100, 101}
RECURSIVE SkipLegacy(_, _)
SkipLegacy(b, j) == IF j <= Len(b) /\ b[j] \in LegacyPrefixes THEN SkipLegacy(b, j + 1) ELSE j
EvexP2(o) == LET j == SkipLegacy(o.b, 1) IN
             IF j + 3 <= Len(o.b) /\ o.b[j] = 98 /\ (o.m = 64 \/ o.b[j + 1] >= 192) THEN o.b[j + 3] ELSE -1      \* 62 /r with mod # 3 is BOUND in 32-bit mode
CapEr(o) == IF "cap" \in DOMAIN o THEN o.cap[1] = 1 ELSE o.er >= 0
HasMemOp(o) == \E j \in 1..Len(o.ops) : o.ops[j].t = "m"
EmittedDeco(o) ==       \* the request with its decorations replaced by what the EVEX prefix says
  LET p2 == EvexP2(o)
      bb == (p2 \div 16) % 2
      ll == (p2 \div 32) % 4
      rnd == ~HasMemOp(o) /\ bb = 1
  IN [o EXCEPT !.k = p2 % 8, !.z = p2 \div 128,
               !.er = IF rnd /\ CapEr(o) THEN ll ELSE -1,
               !.sae = IF rnd /\ ~CapEr(o) THEN 1 ELSE 0]
SameDeco(x, y) == x.k = y.k /\ x.z = y.z /\ x.er = y.er /\ (x.er >= 0 \/ x.sae = y.sae)

MatchVerdict(exp, act, pe) ==
  LET r == Match(exp, act, 1, pe) IN
  IF r[1] = 0 THEN <<"ok">>
  ELSE <<"R", IF r[2] <= Len(exp) THEN exp[r[2]].role ELSE "trailing-text", r[1],
         IF r[2] <= Len(exp) THEN exp[r[2]].lab ELSE "<end>", IF r[1] <= Len(act) THEN act[r[1]].s ELSE "<end>">>

Verdict(o) ==
  LET act == Canon(o.tk)
      isx == o.a = "x86"
      leg == IF "leg" \in DOMAIN o THEN o.leg ELSE "F"
      pe == IF isx /\ leg # "O" THEN PrefixEnd(act, 1) ELSE 1
      opts == {CanonOpt(act[j].s) : j \in {j \in 1..(pe - 1) : act[j].s \in OptWords}}
      exp == IF isx THEN DenoteX86(o) ELSE DenoteA64(o)
      bad == {j \in 1..Len(exp) : exp[j].k = "bad"}
  IN
  IF bad # {} THEN <<"U", exp[CHOOSE j \in bad : TRUE].role>>
  ELSE IF isx /\ leg # "O" /\ ~GivenOptsOk(o, opts) /\ ~(leg = "L" /\ EmittedOptsOk(o, opts)) /\ ~(leg = "R" /\ RefusedOptsOk(o, opts)) THEN <<"R", "prefix", 0, "options", "options">>
  ELSE LET given == MatchVerdict(exp, act, pe)
           r == IF given[1] = "ok" \/ ~isx \/ leg # "L" \/ EvexP2(o) < 0 THEN given
                ELSE LET e == EmittedDeco(o) IN
                     IF SameDeco(e, o) THEN given
                     ELSE IF MatchVerdict(DenoteX86(e), act, pe)[1] = "ok" THEN <<"ok">> ELSE given
       IN
    IF r[1] # "ok" THEN r
    ELSE IF leg = "L" THEN
      (IF o.nl # 1 THEN <<"R", "log-lines", 0, "one line", "several">>
       ELSE IF o.cm # o.ic THEN <<"R", "inline-comment", 0, o.ic, o.cm>>
       ELSE LET h == HexVerdict(o, ~isx) IN IF h = "ok" THEN <<"ok">> ELSE <<"R", "machine-code", 0, h, "">>)
    \* leg R: the text of a REFUSED request in the message handed to the ErrorHandler ("<error>: <instruction>[ ; comment]") - the same
    \* Denote(request) as for accepted instructions (all decorations, the extra register, the options as given); no machine-code column
    ELSE IF leg = "R" /\ o.cm # o.ic THEN <<"R", "inline-comment", 0, o.ic, o.cm>>
    ELSE <<"ok">>
=============================================================================
