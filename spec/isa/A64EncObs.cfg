SPECIFICATION Spec
INVARIANT Conforms
