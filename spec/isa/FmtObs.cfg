SPECIFICATION Spec
INVARIANT Conforms
