--------------------------- MODULE ValidateNamesObs -----------------------------
(* C13, name round trip: the observed table (env NAMEOBS: one record per instruction id of both architectures, per    *)
(* alias of the ISA database and per unknown-name probe) is the constant T; every record is one initial state.       *)
EXTENDS Validate

VARIABLE i

T == ndJsonDeserialize(IOEnv.NAMEOBS)

Init == i \in 1..Len(T)
Next == UNCHANGED i
Spec == Init /\ [][Next]_i

Conforms == LET v == NameVerdict(T, T[i])
            IN IF v = NONE THEN TRUE
               ELSE PrintT(<<"R", i, v[1], v[2]>>) /\ v[1] # "V"
=============================================================================
