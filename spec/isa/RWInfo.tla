------------------------------- MODULE RWInfo ---------------------------------
(* C12 - "instruction read/write information covers what the CPU really does".                                   *)
(*                                                                                                             *)
(* For one row of the ISA database and one operand instantiation this module derives the ARCHITECTURAL access     *)
(* record and states the INCLUSIONS the report of InstAPI::query_rw_info / query_features has to satisfy.        *)
(* Sources of the architectural record:                                                                        *)
(*  (a) the row's own annotations as exported by tools/db_export_x86_rw.js (RWForms): per operand r / w / zx      *)
(*      (R: W: X: w: x:), the accessed bit range [lo, lo+nb) in bytes, implicit operands, `io` flag list, `ext`    *)
(*      list, memory sizes, k+1 / consecutive lead notation, {k}{z} permissions, masking mode;                  *)
(*  (b) ISA width rules written here once (Intel SDM vol.1 3.4.1.1, vol.2 2.3 / 2.7):                            *)
(*      W1  a 32-bit GP destination in 64-bit mode is zero-extended to 64 bits;                                 *)
(*      W2  8/16-bit GP destinations leave the other bytes alone (no zero-extension may be claimed);            *)
(*      W3  {k} merge-masking makes a written vector destination read-write, {k}{z} keeps it write-only,         *)
(*          compare-into-k ("zeroing") and blend rows never read the destination;                               *)
(*      W4  same-register idioms (xor r,r  sub r,r  pxor x,x  pcmpeq x,x  vpternlog with an A-independent truth   *)
(*          table ...) do not read their register sources;                                                     *)
(*      W5  AVX512_VL is required by a row only when its vector length is below 512.                              *)
(*  The READ byte mask of a GP operand is not judged against the database (its [hi:lo] notation describes the written  *)
(*  range of X operands and over-states reads such as imul ax, r8 or mov sreg, r32); it is judged against the           *)
(*  processor in leg 2.                                                                                        *)
(*  "Covers" is an inclusion, never an equality: a report with more reads / writes than the record is accepted.    *)
(*  Byte masks and zero-extension are judged for general-purpose registers only (the property says so); vector,   *)
(*  mask and memory operands are judged at operand level.                                                      *)
(*                                                                                                             *)
(* Leg 2 (host execution, record o.x produced by harness/rwexec.cpp): what CHANGED when the instruction ran on     *)
(* random machine states must be within the reported writes, and every input whose perturbation changed a defined *)
(* output must be within the reported reads.  The same observations are compared with the DB-derived record      *)
(* (clauses "d..."): that validates this module and the database against the processor.                          *)
EXTENDS X86Enc

RWForms   == ndJsonDeserialize(IOEnv.RWFORMS)
FeatSeq   == JsonDeserialize(IOEnv.FEATNAMES)
FeatNames == {FeatSeq[q] : q \in 1..Len(FeatSeq)}              \* every feature name the library can report

\* ---------------------------------------------------------------- report decoding -----------------------------
HasFl(x, bit) == (x \div bit) % 2 = 1
FlRead == 1   FlWrite == 2   FlRegMem == 4   FlConsec == 8   FlBaseW == 8192   FlIndexW == 32768
ByteIn(m, b) == b >= 0 /\ b < 64 /\ Bit(m[(b \div 8) + 1], b % 8) = 1        \* m: 64-bit byte mask as 8 little-endian bytes
SeqSet(s) == {s[q] : q \in 1..Len(s)}

IsGp(c) == c \in {"gpb", "gph", "gpw", "gpd", "gpq"}
Shift(oo) == IF oo.c = "gph" THEN 1 ELSE 0                                   \* ah..bh are byte 1 of rax..rbx
FlagBit(n) == CASE n = "OF" -> 1 [] n = "CF" -> 2 [] n = "ZF" -> 4 [] n = "SF" -> 8 [] n = "AF" -> 256 [] n = "PF" -> 512
                [] n = "DF" -> 1024 [] n = "IF" -> 2048 [] n = "AC" -> 4096 [] n = "C0" -> 65536 [] n = "C1" -> 131072
                [] n = "C2" -> 262144 [] n = "C3" -> 524288 [] OTHER -> 0
AllFlagBits == {1, 2, 4, 8, 256, 512, 1024}

\* ---------------------------------------------------------------- architectural record ------------------------
NOps(o) == Len(o.ops)
RegOps(o) == {j \in 1..NOps(o) : o.ops[j].t = "r"}
MemOps(o) == {j \in 1..NOps(o) : o.ops[j].t = "m"}
SameReg(a, b) == a.t = "r" /\ b.t = "r" /\ a.id = b.id /\ ((IsGp(a.c) /\ a.c = b.c) \/ (IsVec(a.c) /\ IsVec(b.c)) \/ (a.c = b.c))

ZeroIdiomNames == {"xor", "sub", "pxor", "vpxor", "vpxord", "vpxorq", "xorps", "xorpd", "vxorps", "vxorpd", "psubb", "psubw", "psubd", "psubq",
                   "vpsubb", "vpsubw", "vpsubd", "vpsubq", "pcmpeqb", "pcmpeqw", "pcmpeqd", "pcmpeqq", "vpcmpeqb", "vpcmpeqw", "vpcmpeqd",
                   "vpcmpeqq", "pcmpgtb", "pcmpgtw", "pcmpgtd", "pcmpgtq", "vpcmpgtb", "vpcmpgtw", "vpcmpgtd", "vpcmpgtq", "pandn", "vpandn",
                   "andnps", "andnpd", "vandnps", "vandnpd", "kxorw", "kxorb", "kxord", "kxorq", "kxnorw", "kxnorb", "kxnord", "kxnorq"}
(* W4: the last two operands are the same register and the operation cancels them out *)
ZeroIdiom(o) == /\ o.n \in ZeroIdiomNames /\ NOps(o) >= 2
                /\ SameReg(o.ops[NOps(o) - 1], o.ops[NOps(o)])
ImmByte(oo) == oo.v[1]
TernlogIgnoresA(o) == o.n \in {"vpternlogd", "vpternlogq"} /\ NOps(o) = 4 /\ o.ops[4].t = "i"
                      /\ ImmByte(o.ops[4]) \div 16 = ImmByte(o.ops[4]) % 16

(* W3 *)
MergeRead(f, o, j) == /\ j = 1 /\ o.k # 0 /\ o.z = 0 /\ f.kmask = 1 /\ f.kmode = ""
                      /\ f.ops[1].w = 1 /\ o.ops[1].t = "r" /\ IsVec(o.ops[1].c)

ARead(f, o, j) == LET fo == f.ops[j] IN
  IF ZeroIdiom(o) /\ o.ops[j].t = "r" /\ SameReg(o.ops[j], o.ops[NOps(o)]) THEN FALSE
  ELSE IF TernlogIgnoresA(o) /\ j = 1 THEN MergeRead(f, o, j)
  ELSE fo.r = 1 \/ MergeRead(f, o, j)
AWrite(f, j) == f.ops[j].w = 1

Lo(fo) == fo.lo
Hi(fo) == fo.lo + fo.nb                       \* exclusive
(* W1 / W2: first byte that is NOT affected by a write to this GP operand *)
Top(fo, oo, mode) ==
  IF oo.c = "gpd" /\ mode = 64 /\ (fo.zx = 1 \/ fo.nb = 4) THEN 8
  ELSE IF oo.c = "gpq" /\ fo.zx = 1 THEN 8
  ELSE IF oo.c = "gpd" /\ fo.zx = 1 THEN 4
  ELSE IF oo.c = "gpw" /\ fo.zx = 1 THEN 2
  ELSE Hi(fo)

UndefFlags(f) == {FlagBit(f.io[p][1]) : p \in {q \in 1..Len(f.io) : f.io[q][2] = "U"}}
WrittenFlags(f) == {FlagBit(f.io[p][1]) : p \in {q \in 1..Len(f.io) : f.io[q][2] \in {"W", "X", "U", "0", "1"}}} \ {0}

(* W5 *)
ExtOf(t) == SeqSet(RWForms[t].ext) \ (IF RWForms[t].vl = 512 THEN {"AVX512_VL"} ELSE {})

SameLen(t, o) == Len(Forms[t].ops) = NOps(o)
RwCands(o) == {Names[o.n][q] : q \in 1..Len(Names[o.n])}
Twins0(o) == {t \in RwCands(o) : ArchOk(Forms[t], o.m) /\ SameLen(t, o) /\ \A j \in 1..NOps(o) : OpFits(Forms[t].ops[j], o.ops[j])}
Twins(o) == IF Twins0(o) = {} THEN {o.f} ELSE Twins0(o)
(* "It executes on any CPU that has the reported features" is judged against the encoding the library EMITS for the very      *)
(* request (o.b = bytes appended by x86::Assembler, o.ae its error): after the legacy prefixes, 62h starts an EVEX and C4h/C5h   *)
(* a VEX instruction (SDM vol.2 2.3.5, 2.7; only for instructions that have such rows - 62/C4/C5 are BOUND/LES/LDS otherwise).  *)
(* An EVEX encoding (register id >= 16, {k}, {er}/{sae}, broadcast, 512-bit, evex option, preference) needs what the EVEX row  *)
(* of this operand signature needs: AVX512_F / its own extension, and AVX512_VL below 512 bits (W5); a VEX encoding what    *)
(* the VEX row needs.  When the emitted kind has no row of this signature, or nothing was emitted, any twin row is accepted.   *)
EncByte(o) == At(o.b, PfxLen(o.b, 1, LegacyPfx) + 1)
EmKind(o) == IF o.ae # 0 \/ Len(o.b) = 0 THEN "?"
             ELSE IF EncByte(o) = 98 THEN "E" ELSE IF EncByte(o) \in {196, 197} THEN "V" ELSE "L"
KindTwins(o) == LET K == {t \in Twins(o) : RWForms[t].pk = EmKind(o)}
                IN IF EmKind(o) \in {"E", "V"} /\ K # {} THEN K ELSE Twins(o)

(* rows of the same instruction in which operand j may be memory and every other operand is the observed one *)
RmRows(o, j) == {t \in RwCands(o) : /\ ArchOk(Forms[t], o.m) /\ SameLen(t, o) /\ Forms[t].ops[j].msz >= 0
                                  /\ \A q \in 1..NOps(o) : q = j \/ OpFits(Forms[t].ops[q], o.ops[q])}

\* ---------------------------------------------------------------- leg 1: report vs database -------------------
OpFails(f, o, j) ==
  LET fo == f.ops[j]   oo == o.ops[j]   R == o.rw[j]
      gp == oo.t = "r" /\ IsGp(oo.c) /\ fo.nb > 0
  IN  (IF ARead(f, o, j) /\ ~HasFl(R.fl, FlRead) THEN {<<"read", j>>} ELSE {})
 \cup (IF AWrite(f, j) /\ ~HasFl(R.fl, FlWrite) THEN {<<"write", j>>} ELSE {})
 \cup (IF gp /\ AWrite(f, j) /\ HasFl(R.fl, FlWrite) /\ ~(\A b \in Lo(fo)..(Hi(fo) - 1) : ByteIn(R.w, b)) THEN {<<"write-bytes", j>>} ELSE {})
 \cup (IF gp /\ AWrite(f, j) /\ HasFl(R.fl, FlWrite) /\ (\A b \in Lo(fo)..(Hi(fo) - 1) : ByteIn(R.w, b))
           /\ ~(\A b \in Lo(fo)..(Top(fo, oo, o.m) - 1) : ByteIn(R.w, b) \/ ByteIn(R.x, b)) THEN {<<"zero-extension-missing", j>>} ELSE {})
 \cup (IF gp /\ (\E b \in 0..7 : ByteIn(R.x, b) /\ ~(AWrite(f, j) /\ b >= Hi(fo) /\ b < Top(fo, oo, o.m))) THEN {<<"zero-extension-claimed", j>>} ELSE {})
 \cup (IF oo.t = "r" /\ HasFl(R.fl, FlRegMem) /\ MemOps(o) = {}       \* quantifier: register-only forms
           /\ ~(\E t \in RmRows(o, j) : R.rm = 0 \/ Forms[t].ops[j].msz = 0 \/ Forms[t].ops[j].msz = R.rm) THEN {<<"rm-size", j>>} ELSE {})
 \cup (IF oo.t = "r" /\ HasFl(R.fl, FlRegMem) /\ o.er >= 0 THEN {<<"rm-with-embedded-rounding", j>>} ELSE {})    \* {er}/{sae} forms have no memory operand
 \cup (IF fo.clc > 0 /\ R.cl # fo.clc THEN {<<"consecutive-lead", j>>} ELSE {})
 \cup (IF fo.rel > 0 /\ ~HasFl(R.fl, FlConsec) THEN {<<"consecutive-follower", j>>} ELSE {})

Leg1Fails(f, o) ==
  IF o.e # 0 THEN {<<"no-rw-info", 0>>}
  ELSE UNION {OpFails(f, o, j) : j \in {q \in 1..NOps(o) : o.ops[q].t # "i"}}
  \cup {<<"flag-written", b>> : b \in {x \in WrittenFlags(f) : ~HasFl(o.wf, x)}}
  \cup (IF o.k # 0 /\ ~HasFl(o.xr.fl, FlRead) THEN {<<"mask-read", 0>>} ELSE {})
  \cup (IF o.fe # 0 THEN {<<"no-feature-info", 0>>}
        ELSE IF \E t \in KindTwins(o) : \A e \in ExtOf(t) : e \in SeqSet(o.feat) \/ e \notin FeatNames THEN {}
        ELSE {<<"features", 0>>})

\* ---------------------------------------------------------------- leg 2: report vs processor ------------------
Groups == {{0}, {1}, {2, 3}, {4, 5, 6, 7}}
GpOpsOf(o, id) == {j \in RegOps(o) : IsGp(o.ops[j].c) /\ o.ops[j].id = id}
VecOpsOf(o, id) == {j \in RegOps(o) : IsVec(o.ops[j].c) /\ o.ops[j].id = id}
KOpsOf(o, id) == {j \in RegOps(o) : o.ops[j].c = "k" /\ o.ops[j].id = id}
MemBytes(oo) == IF oo.bc > 0 THEN oo.sz * oo.bc ELSE oo.sz
UsesAsAddr(o, id) == \E j \in MemOps(o) : (o.ops[j].bt # "" /\ o.ops[j].bt # "rip" /\ o.ops[j].b = id) \/ (IsGp(o.ops[j].it) /\ o.ops[j].i = id)

(* the byte b of physical GP register id is reported written (or zero-extended) through some operand *)
RepGpW(o, id, b) == \/ \E j \in GpOpsOf(o, id) : HasFl(o.rw[j].fl, FlWrite) /\ (ByteIn(o.rw[j].w, b - Shift(o.ops[j])) \/ ByteIn(o.rw[j].x, b - Shift(o.ops[j])))
                    \/ \E j \in MemOps(o) : (o.ops[j].b = id /\ o.ops[j].bt # "" /\ HasFl(o.rw[j].fl, FlBaseW)) \/ (o.ops[j].i = id /\ IsGp(o.ops[j].it) /\ HasFl(o.rw[j].fl, FlIndexW))
RepGpR(o, id, G) == \/ \E j \in GpOpsOf(o, id) : HasFl(o.rw[j].fl, FlRead) /\ \E b \in G : ByteIn(o.rw[j].r, b - Shift(o.ops[j]))
                    \/ UsesAsAddr(o, id)
ArchGpW(f, o, id, b) == \E j \in GpOpsOf(o, id) : AWrite(f, j) /\ b - Shift(o.ops[j]) >= Lo(f.ops[j]) /\ b - Shift(o.ops[j]) < Top(f.ops[j], o.ops[j], o.m)
ArchGpR(f, o, id, G) == \/ \E j \in GpOpsOf(o, id) : ARead(f, o, j) /\ \E b \in G : b - Shift(o.ops[j]) >= Lo(f.ops[j]) /\ b - Shift(o.ops[j]) < Hi(f.ops[j])
                        \/ UsesAsAddr(o, id)

(* a recorded dependency counts unless only architecturally UNDEFINED outputs moved: undefined flags, and the        *)
(* destination of bsf / bsr for a zero source (SDM: destination undefined)                                       *)
DepCounts(f, o, d) == \/ d.nf = 1 /\ ~(o.n \in {"bsf", "bsr"} /\ d.t = "g" /\ d.id = o.ops[1].id)     \* = NotUndefDest, defined below
                      \/ \E b \in AllFlagBits : HasFl(d.of, b) /\ b \notin UndefFlags(f)
(* d.pt = bytes of the perturbed register that differ between two runs and merely show the OLD value through (merge-masking, *)
(* partial or conditional writes).  Such a byte is a result of the instruction - and the old value an input - exactly when the  *)
(* byte is reported (resp. annotated) as WRITTEN: `mov al, bl` leaves rax[63:8] alone and does not claim them, a merge-masked   *)
(* destination claims every element.  (Undefined: bsf/bsr leave the destination alone for a zero source.)                    *)
NotUndefDest(o, d) == ~(o.n \in {"bsf", "bsr"} /\ d.t = "g" /\ d.id = o.ops[1].id)
RepPtGp(o, d, G) == NotUndefDest(o, d) /\ \E b \in G : Bit(d.pt[1], b) = 1
                       /\ \E j \in GpOpsOf(o, d.id) : HasFl(o.rw[j].fl, FlWrite) /\ ByteIn(o.rw[j].w, b - Shift(o.ops[j]))
RepPtVec(o, d) == \E j \in VecOpsOf(o, d.id) : HasFl(o.rw[j].fl, FlWrite) /\ \E b \in 0..63 : ByteIn(d.pt, b) /\ ByteIn(o.rw[j].w, b)
RepPtK(o, d) == \E j \in KOpsOf(o, d.id) : HasFl(o.rw[j].fl, FlWrite) /\ \E b \in 0..7 : ByteIn(d.pt, b) /\ ByteIn(o.rw[j].w, b)
ArchPtGp(f, o, d, G) == NotUndefDest(o, d) /\ \E b \in G : Bit(d.pt[1], b) = 1
                       /\ \E j \in GpOpsOf(o, d.id) : AWrite(f, j) /\ b - Shift(o.ops[j]) >= Lo(f.ops[j]) /\ b - Shift(o.ops[j]) < Hi(f.ops[j])
ArchPtVec(f, o, d) == \E j \in VecOpsOf(o, d.id) : AWrite(f, j) /\ f.ops[j].nb > 0 /\ \E b \in Lo(f.ops[j])..(Hi(f.ops[j]) - 1) : ByteIn(d.pt, b)
Judged(x) == x.run = 1 /\ x.st >= 4 /\ x.nd = 0

Leg2Fails(f, o) ==
  LET x == o.x IN
  IF x.run = 1 /\ x.ud = 1 /\ x.udall = 1 THEN {<<"x-undefined-opcode-with-reported-features", 0>>}
  ELSE IF ~Judged(x) THEN {}
  ELSE {<<"x-changed-gp", e[1]>> : e \in {g \in SeqSet(x.gl) : \E b \in 0..7 : Bit(g[2], b) = 1 /\ ~RepGpW(o, g[1], b)}}
  \cup {<<"x-changed-vec", e[1]>> : e \in {g \in SeqSet(x.vl) : ~\E j \in VecOpsOf(o, g[1]) : HasFl(o.rw[j].fl, FlWrite)}}
  \cup {<<"x-changed-k", e[1]>> : e \in {g \in SeqSet(x.kl) : ~\E j \in KOpsOf(o, g[1]) : HasFl(o.rw[j].fl, FlWrite)}}
  \cup {<<"x-changed-flag", b>> : b \in {y \in AllFlagBits : HasFl(x.fc, y) /\ ~HasFl(o.wf, y)}}
  \cup (IF x.ml = 1 /\ ~(\E j \in MemOps(o) : HasFl(o.rw[j].fl, FlWrite)) THEN {<<"x-changed-memory", 0>>} ELSE {})
  \cup {<<"x-depends-gp", d.id>> : d \in {y \in SeqSet(x.dep) : y.t = "g"
                                            /\ \E G \in Groups : ((DepCounts(f, o, y) /\ \E b \in G : Bit(y.m, b) = 1) \/ RepPtGp(o, y, G))
                                                                 /\ ~RepGpR(o, y.id, G)}}
  \cup {<<"x-depends-vec", d.id>> : d \in {y \in SeqSet(x.dep) : y.t = "v" /\ (DepCounts(f, o, y) \/ RepPtVec(o, y))
                                            /\ ~(\E j \in VecOpsOf(o, y.id) : HasFl(o.rw[j].fl, FlRead))
                                            /\ ~(\E j \in MemOps(o) : IsVec(o.ops[j].it) /\ o.ops[j].i = y.id)}}
  \cup {<<"x-depends-k", d.id>> : d \in {y \in SeqSet(x.dep) : y.t = "k" /\ (DepCounts(f, o, y) \/ RepPtK(o, y))
                                            /\ ~(\E j \in KOpsOf(o, y.id) : HasFl(o.rw[j].fl, FlRead))
                                            /\ ~(o.k = y.id /\ HasFl(o.xr.fl, FlRead))}}
  \cup {<<"x-depends-memory", 0>> : d \in {y \in SeqSet(x.dep) : y.t = "m" /\ DepCounts(f, o, y)
                                            /\ ~(\E j \in MemOps(o) : HasFl(o.rw[j].fl, FlRead))}}

(* the same observations against the DB-derived record: validation of this module / the database, not a verdict    *)
DbFails(f, o) ==
  LET x == o.x IN
  IF ~Judged(x) THEN {}
  ELSE {<<"d-changed-gp", e[1]>> : e \in {g \in SeqSet(x.gl) : \E b \in 0..7 : Bit(g[2], b) = 1 /\ ~ArchGpW(f, o, g[1], b)}}
  \cup {<<"d-changed-vec", e[1]>> : e \in {g \in SeqSet(x.vl) : ~\E j \in VecOpsOf(o, g[1]) : AWrite(f, j)}}
  \cup {<<"d-changed-k", e[1]>> : e \in {g \in SeqSet(x.kl) : ~\E j \in KOpsOf(o, g[1]) : AWrite(f, j)}}
  \cup {<<"d-changed-flag", b>> : b \in {y \in AllFlagBits : HasFl(x.fc, y) /\ y \notin WrittenFlags(f)}}
  \cup (IF x.ml = 1 /\ ~(\E j \in MemOps(o) : AWrite(f, j)) THEN {<<"d-changed-memory", 0>>} ELSE {})
  \cup (IF x.ml = 1 /\ (\E j \in MemOps(o) : o.ops[j].sz > 0 /\ (x.mlo < 0 \/ x.mhi >= MemBytes(o.ops[j]))) THEN {<<"d-changed-memory-outside-size", 0>>} ELSE {})
  \cup {<<"d-depends-gp", d.id>> : d \in {y \in SeqSet(x.dep) : y.t = "g"
                                            /\ \E G \in Groups : ((DepCounts(f, o, y) /\ \E b \in G : Bit(y.m, b) = 1) \/ ArchPtGp(f, o, y, G))
                                                                 /\ ~ArchGpR(f, o, y.id, G)}}
  \cup {<<"d-depends-vec", d.id>> : d \in {y \in SeqSet(x.dep) : y.t = "v" /\ (DepCounts(f, o, y) \/ ArchPtVec(f, o, y)) /\ ~(\E j \in VecOpsOf(o, y.id) : ARead(f, o, j))}}
  \cup {<<"d-depends-k", d.id>> : d \in {y \in SeqSet(x.dep) : y.t = "k" /\ DepCounts(f, o, y) /\ ~(\E j \in KOpsOf(o, y.id) : ARead(f, o, j)) /\ o.k # y.id}}
  \cup {<<"d-depends-memory", 0>> : d \in {y \in SeqSet(x.dep) : y.t = "m" /\ DepCounts(f, o, y) /\ ~(\E j \in MemOps(o) : ARead(f, o, j))}}
  \cup {<<"d-depends-memory-outside-size", 0>> : d \in {y \in SeqSet(x.dep) : y.t = "o" /\ DepCounts(f, o, y)}}

Fails(o) == LET f == RWForms[o.f] IN Leg1Fails(f, o) \cup (IF o.e = 0 THEN Leg2Fails(f, o) ELSE {})
DbDisagrees(o) == LET f == RWForms[o.f] IN IF o.e = 0 THEN DbFails(f, o) ELSE {}

\* ---------------------------------------------------------------- AArch64 register lists ----------------------
(* observation: n = DB row's list length, lead = index (1-based) of the first list operand in the operands passed;     *)
(* the report must carry consecutive_lead_count = n on the lead and the Consecutive flag on the n-1 followers        *)
A64Fails(o) ==
  IF o.built = FALSE \/ o.e # 0 THEN {<<"no-rw-info", 0>>}
  ELSE (IF o.cnt >= 2 /\ o.rw[o.lead].cl # o.cnt THEN {<<"consecutive-lead", o.lead>>} ELSE {})
  \cup {<<"consecutive-follower", j>> : j \in {q \in (o.lead + 1)..(o.lead + o.cnt - 1) : ~HasFl(o.rw[q].fl, FlConsec)}}
  \cup {<<"consecutive-spurious", j>> : j \in {q \in 1..Len(o.rw) : (q < o.lead \/ q >= o.lead + o.cnt) /\ (HasFl(o.rw[q].fl, FlConsec) \/ o.rw[q].cl # 0)}}
=============================================================================
