SPECIFICATION Spec
INVARIANT Conforms
