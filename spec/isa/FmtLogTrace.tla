----------------------------- MODULE FmtLogTrace -----------------------------
(***************************************************************************************************************)
(* C20, logger transcript leg.  One record of the file (env OBS) = one random program of 20..60 emitter calls  *)
(* (instructions, bind, align, embed, comment, section) on an Assembler with a StringLogger attached, plus the   *)
(* lines that were logged.  The log must be a TRANSCRIPT of the call sequence: call k produced exactly line k;  *)
(* an instruction line denotes the instruction (Fmt!Verdict) and its machine-code column equals the bytes that  *)
(* call appended; a label line names the bound label; a data line denotes the embedded bytes; align / section /  *)
(* comment lines say what was asked; the bytes of consecutive calls are contiguous per section and add up to    *)
(* the final section sizes (so the machine-code columns concatenated are the code buffer).                      *)
(* (An align that appends nothing may be left out of the log.)                                                  *)
(* State machine: (p, k, j, cur) = program, calls consumed, lines consumed, next offset per section.  A program whose next call    *)
(* cannot be consumed violates Transcript; TLC runs with -continue and prints <<"TREJECT", program, call, ..>>. *)
(***************************************************************************************************************)
EXTENDS Fmt, Json, IOUtils

VARIABLES p, k, lc, cur

Progs == ndJsonDeserialize(IOEnv.OBS)
Secs == 0..3

RECURSIVE ItemsOfTokens(_, _)
ItemsOfTokens(tk, j) == IF j > Len(tk) THEN <<>> ELSE <<IF tk[j].s = "<num>" THEN Nm(tk[j].m, "text") ELSE Wd(tk[j].s, "text")>> \o ItemsOfTokens(tk, j + 1)

\* data directives: item size by keyword (asmjit's documented names: x86 db/dw/dd/dq, AArch64 GNU-style)
DataWords(a, ts) ==
  IF a = "x86" THEN (CASE ts = 1 -> {"db"} [] ts = 2 -> {"dw"} [] ts = 4 -> {"dd"} [] OTHER -> {"dq"})
  ELSE (CASE ts = 1 -> {"byte", "db"} [] ts = 2 -> {"hword", "half", "short", "dw"} [] ts = 4 -> {"word", "long", "dd"} [] OTHER -> {"xword", "quad", "dword", "dq"})
ByteAt(b, j) == IF j <= Len(b) THEN b[j] ELSE 0
ItemLimbs(b, q, ts) ==       \* little-endian item starting at byte q
  CASE ts = 1 -> <<b[q], 0, 0, 0>>
    [] ts = 2 -> <<b[q] + 256 * b[q + 1], 0, 0, 0>>
    [] ts = 4 -> <<b[q] + 256 * b[q + 1], b[q + 2] + 256 * b[q + 3], 0, 0>>
    [] OTHER -> <<b[q] + 256 * b[q + 1], b[q + 2] + 256 * b[q + 3], b[q + 4] + 256 * b[q + 5], b[q + 6] + 256 * b[q + 7]>>
RECURSIVE DataItems(_, _, _)
DataItems(b, q, ts) == IF q + ts - 1 > Len(b) THEN <<>> ELSE <<Nm(ItemLimbs(b, q, ts), "data")>> \o DataItems(b, q + ts, ts)

TextVerdict(exp, tk) == LET act == Canon(tk) r == Match(exp, act, 1, 1) IN
  IF r[1] = 0 THEN <<"ok">>
  ELSE <<"R", IF r[2] <= Len(exp) THEN exp[r[2]].role ELSE "trailing-text", r[1], IF r[2] <= Len(exp) THEN exp[r[2]].lab ELSE "<end>", IF r[1] <= Len(act) THEN act[r[1]].s ELSE "<end>">>

NoColumn(ln, v) == IF v[1] # "ok" THEN v ELSE IF ln.hx # <<>> THEN <<"R", "machine-code", 0, "a machine-code column on a line that appends no instruction", "">> ELSE v

CallVerdict(P, c, ln, cu) ==
  CASE c.c = "inst" ->
         IF c.off # cu[c.sec] THEN <<"R", "transcript", 0, "bytes of consecutive calls are not contiguous", "">>
         ELSE Verdict(c @@ [a |-> P.a, leg |-> "L", fl |-> P.fl, tk |-> ln.tk, hx |-> ln.hx, nl |-> 1, cm |-> ln.cm])
    [] c.c = "bind" ->
         IF c.off # cu[c.sec] THEN <<"R", "transcript", 0, "label bound at another offset than the cursor", "">>
         ELSE IF ln.cm # c.ic THEN <<"R", "inline-comment", 0, c.ic, ln.cm>>
         ELSE NoColumn(ln, TextVerdict(LabelItems(c.lb), ln.tk))
    [] c.c = "align" ->
         IF c.off # cu[c.sec] \/ Len(c.b) # (c.n - (c.off % c.n)) % c.n THEN <<"R", "transcript", 0, "align appended another number of bytes than the alignment asks for", "">>
         ELSE NoColumn(ln, TextVerdict(<<WdO(".", "align"), Wd("align", "align"), Nm(IntToLimbs(c.n), "align")>>, ln.tk))
    [] c.c = "embed" ->
         IF c.off # cu[c.sec] THEN <<"R", "transcript", 0, "bytes of consecutive calls are not contiguous", "">>
         ELSE NoColumn(ln, TextVerdict(<<Wd(".", "data"), Ws(DataWords(P.a, c.ts), "data", "data directive")>> \o DataItems(c.b, 1, c.ts), ln.tk))
    [] c.c = "elabel" ->        \* embedded label address:  .<data word> <label>
         IF c.off # cu[c.sec] \/ Len(c.b) # c.ts THEN <<"R", "transcript", 0, "embedded label appended another number of bytes than its size", "">>
         ELSE NoColumn(ln, TextVerdict(<<Wd(".", "data"), Ws(DataWords(P.a, c.ts), "data", "data directive")>> \o LabelItems(c.lb), ln.tk))
    [] c.c = "edelta" ->        \* embedded label delta:  .<data word> (<label> - <base>)
         IF c.off # cu[c.sec] \/ Len(c.b) # c.ts THEN <<"R", "transcript", 0, "embedded label delta appended another number of bytes than its size", "">>
         ELSE NoColumn(ln, TextVerdict(<<Wd(".", "data"), Ws(DataWords(P.a, c.ts), "data", "data directive"), WdO("(", "data")>> \o LabelItems(c.lb) \o
                                       <<Wd("-", "data")>> \o LabelItems(c.lb2) \o <<WdO(")", "data")>>, ln.tk))
    [] c.c = "comment" -> IF ln.tk = c.ctk /\ ln.hx = <<>> THEN <<"ok">> ELSE <<"R", "comment", 0, c.s, ln.tx>>
    [] c.c = "section" ->
         NoColumn(ln, TextVerdict(<<Wd(".", "section"), Wd("section", "section")>> \o ItemsOfTokens(c.ntk, 1) \o
                                  <<WdO("{", "section"), NmO(IntToLimbs(c.sid), "section"), WdO("}", "section")>>, ln.tk))
    [] OTHER -> <<"R", "transcript", 0, "unknown call", c.c>>

Appends(c) == c.c \in {"inst", "align", "embed", "elabel", "edelta"}

Silent(c) == c.c = "align" /\ Len(c.b) = 0 /\ c.l1 = c.l0         \* nothing appended, nothing logged
StepVerdict(P, kk, jj, cu) ==
  LET c == P.calls[kk + 1] IN
  IF c.l0 # jj THEN <<"R", "transcript", 0, "lines and calls out of step", "">>
  ELSE IF Silent(c) THEN (IF c.off = cu[c.sec] THEN <<"ok">> ELSE <<"R", "transcript", 0, "bytes of consecutive calls are not contiguous", "">>)
  ELSE IF c.l1 # jj + 1 \/ c.l1 > Len(P.lines) THEN <<"R", "transcript", 0, "the call did not produce exactly one line", ToString(c.l1 - c.l0)>>
  ELSE CallVerdict(P, c, P.lines[jj + 1], cu)

FinalVerdict(P, jj, cu) ==
  IF Len(P.lines) # jj THEN <<"R", "transcript", 0, "more lines than calls", "">>
  ELSE IF \E j \in 1..Len(P.secs) : cu[P.secs[j].sid] # P.secs[j].size THEN <<"R", "transcript", 0, "section size differs from the bytes the logged calls appended", "">>
  ELSE <<"ok">>

Init == p \in 1..Len(Progs) /\ k = 0 /\ lc = 0 /\ cur = [s \in Secs |-> 0]

Next == LET P == Progs[p] IN
  /\ k < Len(P.calls)
  /\ StepVerdict(P, k, lc, cur)[1] = "ok"
  /\ k' = k + 1
  /\ lc' = P.calls[k + 1].l1
  /\ cur' = (LET c == P.calls[k + 1] IN IF Appends(c) THEN [cur EXCEPT ![c.sec] = c.off + Len(c.b)] ELSE cur)
  /\ UNCHANGED p

Spec == Init /\ [][Next]_<<p, k, lc, cur>>

Transcript == LET P == Progs[p]
                  v == IF k < Len(P.calls) THEN StepVerdict(P, k, lc, cur) ELSE FinalVerdict(P, lc, cur)
              IN IF v[1] = "ok" THEN TRUE
                 ELSE IF v[1] = "U" THEN PrintT(<<"TUNJUDGED", p, k + 1, v[2]>>) /\ FALSE
                 ELSE PrintT(<<"TREJECT", p, k + 1, v[2], v[3], v[4], v[5]>>) /\ FALSE
Done == k = Len(Progs[p].calls) => PrintT(<<"TDONE", p>>)
=============================================================================
