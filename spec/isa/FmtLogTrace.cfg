SPECIFICATION Spec
INVARIANT Transcript
INVARIANT Done
