SPECIFICATION Spec
INVARIANT Conforms
