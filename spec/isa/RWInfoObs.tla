------------------------------ MODULE RWInfoObs --------------------------------
(* C12, binding (P): every line of the observation file (env OBS) is one initial state; the invariant is the verdict *)
(* of RWInfo.tla on that observation (env KIND = "x86": query_rw_info / query_features report, optionally with the   *)
(* host-execution record o.x; KIND = "a64": AArch64 register-list report).  Rejected observations print             *)
(* <<"REJECT", line, {<<clause, operand / register / flag>>, ...}>>; disagreements between the processor and the      *)
(* DB-derived record print <<"DBV", line, {...}>> and do not violate the invariant.  TLC runs with -continue.        *)
EXTENDS RWInfo

VARIABLE i

Obs == ndJsonDeserialize(IOEnv.OBS)

Init == i \in 1..Len(Obs)
Next == UNCHANGED i
Spec == Init /\ [][Next]_i

Conforms == LET o == Obs[i]
                F == IF IOEnv.KIND = "a64" THEN A64Fails(o) ELSE Fails(o)
                D == IF IOEnv.KIND = "a64" THEN {} ELSE DbDisagrees(o)
            IN /\ (D = {} \/ PrintT(<<"DBV", i, D>>))
               /\ (F = {} \/ (PrintT(<<"REJECT", i, F>>) /\ FALSE))
=============================================================================
