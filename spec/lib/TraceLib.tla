------------------------------- MODULE TraceLib -------------------------------
(* Helpers shared by all trace-validation modules.                              *)
(* The trace is an ndjson file whose path comes from the environment (TRACE).   *)
(* Several executions are concatenated; each starts with an {"e":"Reset"} line. *)
EXTENDS Naturals, Sequences, TLC, Json, IOUtils

TraceFile == IF "TRACE" \in DOMAIN IOEnv THEN IOEnv.TRACE ELSE "trace.ndjson"
TraceLog == ndJsonDeserialize(TraceFile)

(* Register 1 of TLC keeps the highest consumed position (needs -workers 1). *)
NoteProgress(l) == IF l > TLCGet(1) THEN TLCSet(1, l) ELSE TRUE
InitProgress == TLCSet(1, 0)
(* POSTCONDITION: the whole trace was consumed. Prints the furthest position. *)
Accepted(len) == /\ PrintT(<<"MAXL", TLCGet(1), len>>)
                 /\ TLCGet(1) = len + 1

Has(r, f) == f \in DOMAIN r
=============================================================================
