-------------------------------- MODULE Wide20 --------------------------------
(* Integers beyond TLC's 32 bits: value = hi * 2^20 + lo, 0 <= lo < 2^20, hi any integer (|hi| < 2^30). *)
(* Enough for 50-bit addresses/distances.  JSON traces carry such values as [hi, lo].                   *)
EXTENDS Integers, Sequences

M20 == 1048576
W(hi, lo) == <<hi, lo>>
WInt(n) == IF n >= 0 THEN <<n \div M20, n % M20>> ELSE <<-(((-n) + M20 - 1) \div M20), (M20 - ((-n) % M20)) % M20>>
WNorm(hi, lo) == <<hi + (IF lo >= 0 THEN lo \div M20 ELSE -((-lo + M20 - 1) \div M20)),
                   IF lo >= 0 THEN lo % M20 ELSE (M20 - ((-lo) % M20)) % M20>>
WAdd(a, b) == WNorm(a[1] + b[1], a[2] + b[2])
WSub(a, b) == WNorm(a[1] - b[1], a[2] - b[2])
WAddI(a, n) == WAdd(a, WInt(n))
WEq(a, b) == a[1] = b[1] /\ a[2] = b[2]
WLt(a, b) == a[1] < b[1] \/ (a[1] = b[1] /\ a[2] < b[2])
WLe(a, b) == WLt(a, b) \/ WEq(a, b)
WNeg(a) == WSub(<<0, 0>>, a)
(* 2^n as a wide value, n <= 49 *)
WPow2(n) == IF n < 20 THEN <<0, 2 ^ n>> ELSE <<2 ^ (n - 20), 0>>
(* -2^(n-1) <= a < 2^(n-1) *)
WFitsSigned(a, n) == WLe(WNeg(WPow2(n - 1)), a) /\ WLt(a, WPow2(n - 1))
WFitsUnsigned(a, n) == WLe(<<0, 0>>, a) /\ WLt(a, WPow2(n))
(* a mod 2^k and a div 2^k for k <= 20 (floor semantics) *)
WModPow2(a, k) == a[2] % (2 ^ k)
WIsMultiple(a, k) == WModPow2(a, k) = 0
(* floor(a / 2^k), k <= 20 *)
WShr(a, k) == WNorm(0, 0) \* placeholder, see WShrK
WShrK(a, k) == LET lo2 == a[2] \div (2 ^ k)                       \* k <= 20
                   hiLow == a[1] % (2 ^ k)                        \* low k bits of hi move into lo
                   hi2 == (a[1] - hiLow) \div (2 ^ k)
               IN <<hi2, lo2 + hiLow * (2 ^ (20 - k))>>
(* small value (fits TLC int) *)
WSmall(a) == a[1] * M20 + a[2]
WIsSmall(a) == a[1] > -1024 /\ a[1] < 1024
(* little-endian bytes -> wide (unsigned), up to 6 bytes *)
WFromBytes(bs) ==
  LET b(i) == IF i <= Len(bs) THEN bs[i] ELSE 0
  IN <<(b(3) \div 16) + b(4) * 16 + b(5) * 4096 + b(6) * 1048576, b(1) + b(2) * 256 + (b(3) % 16) * 65536>>
(* two's complement reading of an n-byte little-endian field, n in {1,2,4} *)
WSignedFromBytes(bs) ==
  LET u == WFromBytes(bs) n == Len(bs)
  IN IF bs[n] >= 128 THEN WSub(u, WPow2(8 * n)) ELSE u
=============================================================================
