SPECIFICATION Spec
CONSTANTS Bogus = TRUE Dense = FALSE
INVARIANT Laws
INVARIANT BogusLaw
