----------------------------- MODULE UniOpsObs ------------------------------
(* X07 pointwise conformance (binding P): every line of the observation file (env OBS) is one initial state; the       *)
(* invariant is the conformance predicate of UniOps.tla evaluated on that observation.  A rejected observation is       *)
(* printed as <<"REJECT", line, clause>>; TLC runs with -continue so that all of them are seen.                         *)
EXTENDS UniOps, Json, IOUtils

VARIABLE i

ObsFile == IF "OBS" \in DOMAIN IOEnv THEN IOEnv.OBS ELSE "obs.ndjson"
Obs == ndJsonDeserialize(ObsFile)

Init == i \in 1..Len(Obs)
Next == UNCHANGED i
Spec == Init /\ [][Next]_i

Conforms == LET v == ObsVerdict(Obs[i]) IN IF v = "" THEN TRUE ELSE PrintT(<<"REJECT", i, v>>) /\ FALSE
=============================================================================
