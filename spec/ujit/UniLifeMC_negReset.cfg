SPECIFICATION MSpec
CONSTANTS InjectAtHook = TRUE ResetOnEnd = FALSE MaxFuncs = 2 MaxUses = 2
INVARIANT Dominates
