----------------------------- MODULE UniLifeObs ------------------------------
(* X07: whole recorded executions judged pointwise.  Every line of the file (env OBS) is one execution                  *)
(* [id, ev = <<events>>]; the contract operators StepOk / StepTo of UniLife.tla are folded over its events.  A rejected  *)
(* execution is printed as <<"REJECT", line, index of the first event the contract does not allow>>.  (The accepted      *)
(* executions are additionally validated as behaviours of the state machine by UniLifeTrace.tla.)                        *)
EXTENDS Json, IOUtils
INSTANCE UniLife WITH s <- 0           \* only the constant-level operators S0 / StepOk / StepTo are used

VARIABLE i
ObsFile == IF "OBS" \in DOMAIN IOEnv THEN IOEnv.OBS ELSE "life.ndjson"
Obs == ndJsonDeserialize(ObsFile)
Init == i \in 1..Len(Obs)
Next == UNCHANGED i
Spec == Init /\ [][Next]_i

RECURSIVE FirstBad(_, _, _)
FirstBad(ev, k, st) == IF k > Len(ev) THEN 0 ELSE IF ~StepOk(st, ev[k]) THEN k ELSE FirstBad(ev, k + 1, StepTo(st, ev[k]))
Conforms == LET b == FirstBad(Obs[i].ev, 1, S0) IN IF b = 0 THEN TRUE ELSE PrintT(<<"REJECT", i, b>>) /\ FALSE
=============================================================================
