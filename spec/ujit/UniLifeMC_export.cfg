SPECIFICATION MSpec
CONSTANTS InjectAtHook = TRUE ResetOnEnd = TRUE MaxFuncs = 2 MaxUses = 3
INVARIANT Export
