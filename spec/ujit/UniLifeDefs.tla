----------------------------- MODULE UniLifeDefs -----------------------------
(* X07 - life cycle of asmjit::ujit::UniCompiler (contract).                                                           *)
(*                                                                                                                      *)
(* One UniCompiler object: construction with a set of CPU features -> init_vec_width -> any number of functions          *)
(* (add_func ... emits ... end_func) -> finalize.  Documented contract quoted next to each action:                       *)
(*   constructor   "Creates `UniCompiler` that would use the existing BackendCompiler"; the behaviour getters are        *)
(*                 documented per target (x86: kPreservingVec128, kTernaryLogic, kSmallestValue, FMA iff available).      *)
(*   max_vec_width_from_cpu_features  "Use 512-bit SIMD width if AVX512 is available and the target is 64-bit ...        *)
(*                 Use 256-bit SIMD width if AVX2 is available."                                                        *)
(*   has_avx512    "Tests whether a baseline AVX-512 extensions are available (F, CD, BW, DQ, and VL)."                  *)
(*   init_vec_width / vec_width  "Returns the current SIMD width ... that this compiler and all its parts must use."     *)
(*   vec_multiplier "SIMD multiplier, derived from `_vec_width` (1, 2, 4)."                                              *)
(*   hook_func     "Hooks a function that is being generated ... called automatically by add_func_node() and add_func()" *)
(*   unhook_func   "Unhooks a function.  In general this mostly does a cleanup of UniCompiler."                         *)
(*   _get_mem_const "64-bit mode - One GP register is sacrificed to hold the pointer to the `ct`."  The register and      *)
(*                 every vector constant register are initialised lazily at the function initialization hook             *)
(*                 (`_func_init_hook` "Function initialization hook"), i.e. in the entry block of the CURRENT function,   *)
(*                 so that the definition dominates every use wherever the first use happens (branch, loop).             *)
(* The node list of every finished function is projected by the harness to its control-flow skeleton plus the            *)
(* definitions / uses of the tracked registers (table pointer `tbl:`, vector constants `vc:`); SeqOk is the dominance     *)
(* requirement on that projection.                                                                                      *)
EXTENDS Integers, Sequences, FiniteSets, TLC

(* ---- features -> documented derived properties ---- *)
HasAvx(f)      == f.avx
HasAvx2(f)     == f.avx /\ f.avx2
HasFma(f)      == f.avx /\ f.fma
HasAvx512(f)   == f.avx2 /\ f.avx512          \* f.avx512 = F & CD & BW & DQ & VL all present
MaxVecWidth(f) == IF HasAvx512(f) THEN 2 ELSE IF HasAvx2(f) THEN 1 ELSE 0
VecRegCount(f) == IF HasAvx512(f) THEN 32 ELSE 16
FmaBehavior(f) == IF HasFma(f) THEN 1 ELSE 0    \* FMAddOpBehavior: kNoFMA = 0, kFMAStoreToAny = 1

NewOk(e) ==
  LET f == e IN
  /\ e.o_maxw = MaxVecWidth(f) /\ e.o_regs = VecRegCount(f) /\ e.o_fma = FmaBehavior(f)
  /\ e.o_scalar = 1 /\ e.o_minmax = 1 /\ e.o_f2i = 0          \* kPreservingVec128, kTernaryLogic, kSmallestValue
  /\ e.o_has_avx = HasAvx(f) /\ e.o_has_avx2 = HasAvx2(f) /\ e.o_has_avx512 = HasAvx512(f) /\ e.o_has_fma = HasFma(f)
  /\ e.o_has_sse3 = f.sse3 /\ e.o_has_ssse3 = f.ssse3 /\ e.o_has_sse41 = f.sse41 /\ e.o_has_sse42 = f.sse42
  /\ ~e.o_hook

VecWidthOk(e) == /\ e.o_w = e.w /\ e.o_mul = 2^e.w /\ e.o_size = 16 * 2^e.w /\ e.o_256 = (e.w >= 1) /\ e.o_512 = (e.w >= 2)

(* ---- dominance on the projected node list ----                                                                       *)
(* st = [entry, ge, lo, ok]: entry = still in the entry block (no label / jump seen), ge = registers defined in the       *)
(* entry block (they dominate everything that follows), lo = registers defined since the last label / jump (they          *)
(* dominate only the straight-line code up to the next label / jump).                                                    *)
RECURSIVE Walk(_, _, _)
Walk(seq, k, st) ==
  IF k > Len(seq) \/ ~st.ok THEN st
  ELSE LET n == seq[k] IN
       IF n.t = "func" THEN Walk(seq, k + 1, st)
       ELSE IF n.t = "end" THEN st
       ELSE IF n.t = "label" THEN Walk(seq, k + 1, [st EXCEPT !.entry = FALSE, !.lo = {}])
       ELSE LET U == {n.u[j] : j \in 1..Len(n.u)}
                D == {n.d[j] : j \in 1..Len(n.d)}
                good == U \subseteq (st.ge \cup st.lo)
                s1 == [st EXCEPT !.ok = good,
                                 !.ge = IF st.entry THEN st.ge \cup D ELSE st.ge,
                                 !.lo = IF st.entry THEN st.lo ELSE st.lo \cup D]
            IN IF n.t = "jump" THEN Walk(seq, k + 1, [s1 EXCEPT !.entry = FALSE, !.lo = {}]) ELSE Walk(seq, k + 1, s1)
SeqOk(seq) == Walk(seq, 1, [entry |-> TRUE, ge |-> {}, lo |-> {}, ok |-> TRUE]).ok
=============================================================================
