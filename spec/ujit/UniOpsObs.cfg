SPECIFICATION Spec
INVARIANT Conforms
