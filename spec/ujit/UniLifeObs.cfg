SPECIFICATION Spec
INVARIANT Conforms
