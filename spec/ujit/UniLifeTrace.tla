---------------------------- MODULE UniLifeTrace -----------------------------
(* X07 trace validation: a recorded history of UniCompiler API calls (harness/uniops.cpp `life`) is accepted iff it is   *)
(* a behaviour of the contract UniLife.tla (binding T).                                                                 *)
EXTENDS UniLife, TraceLib

VARIABLE l
tvars == <<l, s>>

T == TraceLog
Ev == T[l]
IsEv(e) == l <= Len(T) /\ Ev.e = e /\ l' = l + 1

TInit == LInit /\ l = 1 /\ InitProgress
TReset == IsEv("Reset") /\ s' = S0
TNext == \/ TReset
         \/ IsEv("New") /\ New(Ev)
         \/ IsEv("InitVecWidth") /\ InitVecWidth(Ev)
         \/ IsEv("AddFunc") /\ AddFunc(Ev)
         \/ IsEv("Use") /\ Use(Ev)
         \/ IsEv("EndFunc") /\ EndFunc(Ev)
         \/ IsEv("Finalize") /\ Finalize(Ev)
         \/ IsEv("Run") /\ Run(Ev)
TSpec == TInit /\ [][TNext]_tvars

Progress == NoteProgress(l)
TraceAccepted == Accepted(Len(T))
=============================================================================
