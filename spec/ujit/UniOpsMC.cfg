SPECIFICATION Spec
CONSTANTS Bogus = FALSE Dense = FALSE
INVARIANT Laws
