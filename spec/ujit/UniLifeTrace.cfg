SPECIFICATION TSpec
CONSTRAINT Progress
POSTCONDITION TraceAccepted
