----------------------------- MODULE UniLifeMC -------------------------------
(* X07 design model of the lazy constant materialisation of UniCompiler (impl-shaped, transcribed from                  *)
(* _init_vec_const_table_ptr / _new_vec_const / ScopedInjector / hook_func / unhook_func) checked against the dominance   *)
(* requirement SeqOk of the contract UniLife.tla for EVERY sequence of API calls up to the bounds.                       *)
(*   InjectAtHook = TRUE : the first use of a constant injects its definition at `_func_init_hook` (the real code);       *)
(*                 FALSE: at the current cursor (negative control: a first use inside a branch does not dominate).       *)
(*   ResetOnEnd   = TRUE : end_func forgets which constants are materialised (what "cleanup" must mean);                 *)
(*                 FALSE: the members survive unhook_func (this is what asmjit HEAD does: negative control / finding).    *)
EXTENDS UniLifeDefs

CONSTANTS InjectAtHook, ResetOnEnd, MaxFuncs, MaxUses

Consts == {"tbl:common_table_ptr", "vc:c_0x7FFFFFFF"}
Ctxs == {"s", "t", "l"}

VARIABLES ph,        \* "idle" | "func"
          nodes,     \* node list of the current function (projection)
          hook,      \* number of nodes before the injection point (the hook cursor)
          valid,     \* constants the UniCompiler believes to be materialised
          done,      \* projections of the finished functions
          nuse,
          hist       \* the API calls made so far (exported as scripts for the harness: binding R)
mvars == <<ph, nodes, hook, valid, done, nuse, hist>>

MInit == ph = "idle" /\ nodes = <<>> /\ hook = 0 /\ valid = {} /\ done = <<>> /\ nuse = 0 /\ hist = <<>>

Ins(s, k, x) == SubSeq(s, 1, k) \o <<x>> \o SubSeq(s, k + 1, Len(s))       \* insert x after the first k nodes
Inst(d, u) == [t |-> "inst", d |-> d, u |-> u]

MAddFunc == /\ ph = "idle" /\ Len(done) < MaxFuncs
            /\ ph' = "func" /\ nodes' = <<[t |-> "func"]>> /\ hook' = 1 /\ nuse' = 0
            /\ hist' = Append(hist, <<"func">>)
            /\ UNCHANGED <<valid, done>>

(* one constant-using operation in context ctx; the memory form needs the table pointer, the register form the constant register,
   which in turn is loaded through the table pointer *)
MUse(c, ctx) ==
  /\ ph = "func" /\ nuse < MaxUses
  /\ LET need  == IF c = "tbl:common_table_ptr" THEN <<c>> ELSE <<"tbl:common_table_ptr", c>>
         pre   == IF ctx = "s" THEN <<>> ELSE IF ctx = "t" THEN <<[t |-> "jump", d |-> <<>>, u |-> <<>>]>>
                  ELSE <<[t |-> "jump", d |-> <<>>, u |-> <<>>], [t |-> "label"]>>
         post  == IF ctx = "s" THEN <<>> ELSE IF ctx = "t" THEN <<[t |-> "label"]>>
                  ELSE <<[t |-> "jump", d |-> <<>>, u |-> <<>>], [t |-> "label"]>>
         n0    == nodes \o pre                       \* the guard is emitted before the operation
         \* lazily materialise what is missing: tbl first, then the constant register (loaded via tbl)
         missT == "tbl:common_table_ptr" \notin valid
         missC == c # "tbl:common_table_ptr" /\ c \notin valid
         defT  == Inst(<<"tbl:common_table_ptr">>, <<>>)
         defC  == Inst(<<c>>, <<"tbl:common_table_ptr">>)
         n1    == IF missT THEN (IF InjectAtHook THEN Ins(n0, hook, defT) ELSE n0 \o <<defT>>) ELSE n0
         h1    == IF missT /\ InjectAtHook THEN hook + 1 ELSE hook
         n2    == IF missC THEN (IF InjectAtHook THEN Ins(n1, h1, defC) ELSE n1 \o <<defC>>) ELSE n1
         h2    == IF missC /\ InjectAtHook THEN h1 + 1 ELSE h1
         useN  == Inst(<<>>, <<c>>)
     IN /\ nodes' = n2 \o <<useN>> \o post
        /\ hook' = h2
        /\ valid' = valid \cup {"tbl:common_table_ptr", c}
  /\ nuse' = nuse + 1
  /\ hist' = Append(hist, <<"use", c, ctx>>)
  /\ UNCHANGED <<ph, done>>

MEndFunc == /\ ph = "func"
            /\ done' = Append(done, nodes \o <<[t |-> "end"]>>)
            /\ ph' = "idle" /\ nodes' = <<>> /\ hook' = 0 /\ nuse' = 0
            /\ valid' = IF ResetOnEnd THEN {} ELSE valid
            /\ hist' = Append(hist, <<"end">>)

MNext == MAddFunc \/ MEndFunc \/ \E c \in Consts, ctx \in Ctxs : MUse(c, ctx)
MSpec == MInit /\ [][MNext]_mvars

(* every finished function satisfies the dominance requirement of the contract *)
Dominates == \A k \in 1..Len(done) : SeqOk(done[k])
(* behaviour export *)
Export == (ph = "idle" /\ Len(done) >= 1 /\ nuse = 0) => PrintT(<<"BEH", hist>>)
(* sanity of the model itself: the hook always lies inside the entry block *)
HookInEntry == ph = "func" => \A k \in 1..hook : nodes[k].t \in {"func", "inst"}
=============================================================================
