------------------------------ MODULE UniOpsMC -------------------------------
(* X07: the reference semantics checked against itself.  TLC enumerates pairs of boundary words of every lane width and  *)
(* evaluates algebraic laws that any correct definition of the machine operations must satisfy (they tie independent      *)
(* operators of UniBytes / UniFloat / UniOps to each other: add/sub/neg, mul by shifts, min/max/compare, saturation,       *)
(* rounding modes, int<->float round trips, widening/narrowing, interleave/pack, shuffles).  A wrong transcription of an   *)
(* operator breaks a law.  Bogus = TRUE adds a law that is false (negative control: the run must FAIL).                   *)
EXTENDS UniOps

CONSTANTS Bogus, Dense

Patterns == IF Dense THEN {0, 1, 2, 127, 128, 129, 254, 255, 85, 170} ELSE {0, 1, 127, 128, 255, 85}
WordsOf(n) == IF n = 1 THEN {<<p>> : p \in Patterns}
              ELSE IF n = 2 THEN {<<p, q>> : p \in {0, 1, 255}, q \in (IF Dense THEN {0, 127, 128, 255, 1} ELSE {0, 127, 128, 255})}
              ELSE IF n = 4 THEN {<<p, q, q, r>> : p \in {0, 1, 255}, q \in {0, 255}, r \in (IF Dense THEN {0, 127, 128, 255, 63, 75} ELSE {0, 128, 63, 75})}
              ELSE {<<p, q, q, q, q, q, r, s>> : p \in {0, 255}, q \in {0, 255}, r \in {0, 240}, s \in (IF Dense THEN {0, 127, 128, 255, 63, 67} ELSE {0, 128, 63, 67})}

VARIABLES n, x, y
vars == <<n, x, y>>
Init == n \in {1, 2, 4, 8} /\ x \in WordsOf(n) /\ y \in WordsOf(n)
Next == UNCHANGED vars
Spec == Init /\ [][Next]_vars

Exact(e)       == \A k \in 1..Len(e) : e[k] >= 0
Bits           == 8 * n

IntLaws ==
  /\ BAdd(x, y) = BAdd(y, x) /\ BSub(BAdd(x, y), y) = x /\ BAdd(x, BNeg(x)) = BZero(n) /\ BNeg(x) = BSub(BZero(n), x)
  /\ BMul(x, y) = BMul(y, x) /\ BMul(x, BOfNat(2, n)) = BShl(x, 1) /\ BMul(x, BOfNat(8, n)) = BAdd(BShl(x, 2), BShl(x, 2)) 
  /\ BXor(BXor(x, y), y) = x /\ BOr(BAnd(x, y), BAnd(x, BNot(y))) = x
  /\ BMin(x, y, TRUE) = BMin(y, x, TRUE) /\ BLe(BMin(x, y, FALSE), BMax(x, y, FALSE), FALSE)
  /\ (BSLt(x, y) \/ BSLt(y, x) \/ x = y) /\ ~(BSLt(x, y) /\ BSLt(y, x)) /\ (BULt(x, y) <=> ~BULe(y, x))
  /\ BSLt(x, y) = BULt(BXor(x, BSMin(n)), BXor(y, BSMin(n)))            \* the sign-flip trick of the emulation paths
  /\ \A s \in {0, 1, 7, 8, Bits - 1} : /\ BShr(BShl(x, s), s) = BAnd(x, BShr(BOnes(n), s))
                                       /\ BRol(BRor(x, s), s) = x
                                       /\ (BMsb(x) = 0 => BSar(x, s) = BShr(x, s))
                                       /\ (BMsb(x) = 1 => BSar(x, s) = BNot(BShr(BNot(x), s)))
  /\ BAbs(x) = BMax(x, BNeg(x), TRUE) \/ x = BSMin(n)
  /\ BRev(BRev(x)) = x
  /\ (~BIsZero(y) => BAdd(BMul(BUDiv(x, y), y), BUMod(x, y)) = x /\ BULt(BUMod(x, y), y))
  /\ (~BIsZero(x) => BClz(x) + BCtz(x) <= Bits - 1 /\ BBit(x, BCtz(x)) = 1 /\ BBit(x, Bits - 1 - BClz(x)) = 1)
  /\ BSExt(BTrunc(BSExt(x, 16), n), 16) = BSExt(x, 16)
  /\ BSatSS(BSExt(x, 16), n) = x /\ (BMsb(x) = 0 => BSatSU(BSExt(x, 16), n) = x) /\ (BMsb(x) = 1 => BSatSU(BSExt(x, 16), n) = BZero(n))
  /\ RRR_kSub(RRR_kAdd(x, y), y) = x /\ RR_kNeg(RR_kNeg(x)) = x /\ RR_kNot(RR_kNot(x)) = x /\ RR_kBSwap(RR_kBSwap(x)) = x
  /\ RRR_kUMin(x, y) = BMin(x, y, FALSE) /\ (RR_kReflect(x) = x \/ RR_kReflect(x) = BNot(x))
  /\ Ctor_sub_c(x, y).holds = Ctor_ucmp_lt(x, y).holds /\ Ctor_add_c(x, y).holds = BULt(BAdd(x, y), x)
  /\ Ctor_scmp_ge(x, y).holds = ~Ctor_scmp_lt(x, y).holds /\ Ctor_sub_z(x, y).holds = Ctor_cmp_eq(x, y).holds

(* vector level laws on 16-byte vectors built from the two words *)
V(w)           == Tab([k \in 1..16 |-> w[((k - 1) % Len(w)) + 1]])
Vmix           == Tab([k \in 1..16 |-> IF ((k - 1) \div n) % 2 = 0 THEN x[((k - 1) % n) + 1] ELSE y[((k - 1) % n) + 1]])
VecLaws ==
  LET a == Vmix b == V(y) IN
  /\ VVV_kAddU8(VVV_kSubU8(a, b, a), b, a) = a
  /\ VVV_kMinU8(a, b, a) = VVV_kSubU8(a, VVV_kSubsU8(a, b, a), a)                       \* min(a,b) = a - sat(a - b)
  /\ VVV_kMaxU16(a, b, a) = VVV_kAddU16(VVV_kSubsU16(a, b, a), b, a)                     \* max(a,b) = sat(a - b) + b
  /\ VVV_kCmpGtU8(a, b, a) = VV_kNotU32(VVV_kCmpLeU8(a, b, a), a) /\ VVV_kCmpGeI16(a, b, a) = VVV_kCmpLeI16(b, a, a)
  /\ VVV_kCmpLtI32(a, b, a) = VVV_kCmpGtI32(b, a, a) /\ VVV_kCmpEqU64(a, a, a) = BOnes(16)
  /\ VVV_kAndnU32(a, b, a) = VVV_kBicU32(b, a, a)
  /\ VVV_kInterleaveLoU8(a, b, a) = VVV_kInterleaveLoU8(a, b, b)
  /\ VVV_kPacksI16_U8(VV_kCvtU8LoToU16(a, a), VV_kCvtU8HiToU16(a, a), a) = a             \* widen then pack is the identity
  /\ VVV_kPacksI16_I8(VV_kCvtI8LoToI16(a, a), VV_kCvtI8HiToI16(a, a), a) = a
  /\ VVV_kPacksI32_I16(VV_kCvtI16LoToI32(a, a), VV_kCvtI16HiToI32(a, a), a) = a
  /\ VVVI_kAlignr_U128(a, b, a, 0) = b /\ VVVI_kAlignr_U128(a, a, a, 8) = VVI_kSwizzleU64x2(a, a, 1)   \* swizzle(0, 1) = 0<<8 | 1
  /\ VVI_kSwizzleU32x4(a, a, 3 * 16777216 + 2 * 65536 + 256) = a                          \* swizzle(3, 2, 1, 0) is the identity
  /\ VVI_kSrlbU128(VVI_kSllbU128(a, a, 4), a, 4) = Tab([k \in 1..16 |-> IF k <= 12 THEN a[k] ELSE 0])
  /\ VVV_kCombineHiLoU64(a, b, a) = VVVI_kInterleaveShuffleU64x2(b, a, a, 256)           \* {b.lo, a.hi}: swizzle(1, 0)
  /\ VVV_kSwizzlev_U8(a, Tab([k \in 1..16 |-> k - 1]), a) = a
  /\ VVVV_kBlendV_U8(a, b, BOnes(16), a, FALSE) = b /\ VVVV_kBlendV_U8(a, b, BZero(16), a, FALSE) = a
  /\ VVV_kMulhU16(a, b, a) = Map2(2, a, b, LAMBDA p, q : BSlice(BMul(BZExt(p, 4), BZExt(q, 4)), 2, 2))
  /\ VVVV_kMAddU16(a, b, BZero(16), a, FALSE) = VVV_kMulU16(a, b, a)
  /\ VV_kAbsI8(VV_kAbsI8(a, a), a) = VV_kAbsI8(a, a)

(* float laws on the words read as binary32 / binary64 (n = 4, 8) *)
FloatLaws ==
  n \in {4, 8} =>
  LET f == FmtOf(n) IN
  /\ (FIsNaN(x, f) => FRound(x, f, "trunc") = AnyNaN(n))
  /\ \A m \in {"trunc", "floor", "ceil", "even", "away", "up"} :
       LET r == FRound(x, f, m) IN
       Exact(r) => /\ FRound(r, f, m) = r \/ FIsZero(r)                \* idempotent
                   /\ (m = "floor" => FLe(r, x, f) \/ FIsNaN(x, f)) /\ (m = "ceil" => FLe(x, r, f) \/ FIsNaN(x, f))
  /\ (~FIsNaN(x, f) /\ ~FIsNaN(y, f) => (FLt(x, y, f) \/ FLt(y, x, f) \/ FEq(x, y, f)))
  /\ FMinT(x, y, f) \in {x, y} /\ FMaxT(x, y, f) \in {x, y} /\ (FUnord(x, y, f) => FMinT(x, y, f) = y /\ FMaxT(x, y, f) = y)
  /\ (n = 4 => LET d == F32To64(x) IN Exact(d) => F64To32(d) \in {x, DCs(4)})               \* widening is exact (subnormal results of narrowing are DC)
  /\ (n = 4 => FToSInt(FOfSInt(x, F64), F64, "trunc", 4) = x)                              \* every int32 is a double
  /\ (n = 4 /\ BFits24(BAbs(x)) => FToSInt(FOfSInt(x, F32), F32, "even", 4) = x)
  /\ (n = 4 => LET v == FIntVal(x, F32) IN v.ok => FOfIntZ(v.v, F32) \in {x, AnyZero(4)})
  /\ FAddI(FOfInt(3, f), FOfInt(-3, f), f) = AnyZero(n) /\ FMulI(FOfInt(12, f), FOfInt(-12, f), f) = FOfInt(-144, f)
  /\ FSqrtI(FOfInt(144, f), f) = FOfInt(12, f) /\ FRcpP2(FOfInt(4, f), f) = BSub(FOfInt(1, f), BShl(BOfNat(2, n), f.mb))
  /\ FDivI(FOfInt(-144, f), FOfInt(12, f), f) = FOfInt(-12, f) /\ FModI(FOfInt(17, f), FOfInt(5, f), f) = FOfInt(2, f)
  \* 16777217 = 2^24 + 1 = 4097 * 4095 + 2 ... : a product that needs 25 bits is rounded when it is not fused
  /\ (n = 4 => /\ FMulAddI(FOfInt(4097, f), FOfInt(4097, f), FOfInt(-16785408, f), f, FALSE, FALSE, TRUE) = FOfInt(1, f)
               /\ FMulAddI(FOfInt(4097, f), FOfInt(4097, f), FOfInt(-16785408, f), f, FALSE, FALSE, FALSE) = AnyZero(4))
  /\ FMulAddI(FOfInt(3, f), FOfInt(5, f), FOfInt(7, f), f, TRUE, TRUE, FALSE) = FOfInt(-22, f)
  /\ FMulAddI(FOfInt(3, f), FOfInt(5, f), FOfInt(7, f), f, FALSE, TRUE, TRUE) = FOfInt(8, f)

Laws == IntLaws /\ (n = 1 => VecLaws) /\ (n = 2 => VecLaws) /\ (n = 4 => VecLaws) /\ FloatLaws
BogusLaw == Bogus => BSub(x, y) = BSub(y, x)
=============================================================================
