------------------------------- MODULE UniOps -------------------------------
(* X07 - asmjit::ujit::UniCompiler: every universal operation computes its documented function.                         *)
(*                                                                                                                      *)
(* This module is the REFERENCE SEMANTICS of the universal operations of asmjit/ujit/uniop.h, unicondition.h and of the  *)
(* scalar helpers of unicompiler.h: one operator per enumerator, giving the result as a function of the inputs.  The     *)
(* doc comment of the enumerator (the documented contract) is quoted in back-ticks directly above its operator;          *)
(* checks/x07gen.py verifies that the quotes are verbatim and that no enumerator is missing.  Where uniop.h is silent     *)
(* the semantics is the one of the reference lambdas of asmjit-testing/tests/asmjit_test_unicompiler.cpp (said so).       *)
(*                                                                                                                      *)
(* Representation (UniBytes): a vector is the sequence of its 16/32/64 bytes in memory order, element-wise operations    *)
(* are maps over lanes; a scalar register is a word of 4 or 8 bytes.  An EXPECTATION is a byte sequence in which DC marks *)
(* bytes outside the documented contract (e.g. the upper elements of a scalar "S" operation) and AnyNaN / AnyZero mark    *)
(* float lanes whose bit pattern the contract does not pin down.                                                        *)
(*                                                                                                                      *)
(* Float operations: specified are  bit operations (abs neg not and or xor andn bic), min/max with the documented         *)
(* ternary rule, all comparisons, rounding (trunc floor ceil round-even round-half-away round-half-up), conversions        *)
(* (int<->float, f32<->f64) and add/sub/mul/div/mod/sqrt/madd on operands that are small integers (exact), rcp of powers  *)
(* of two.  NOT specified (DC): arithmetic on operands outside that domain (results depend on rounding of inexact          *)
(* intermediate values), in particular the difference between fused and unfused multiply-add.                            *)
EXTENDS UniFloat, FiniteSets

(* ---------------------------------------------------------------------------------------------------------------- *)
(* helpers                                                                                                          *)
(* ---------------------------------------------------------------------------------------------------------------- *)
(* "Constructs a backend-independent 4-element vector swizzle parameter": swizzle(d, c, b, a) = d<<24 | c<<16 | b<<8 | a; *)
(* element j of the result is element Sel4(imm, j) of the source                                                        *)
Sel4(imm, j)     == (imm \div 256^j) % 4
(* swizzle(b, a) = b<<8 | a *)
Sel2(imm, j)     == (imm \div 256^j) % 2
(* a scalar ("S") operation defines element 0 only; ScalarOpBehavior documents the rest as target dependent *)
Scalar(n, W, r)  == Tab([k \in 1..W |-> IF k <= n THEN r[k] ELSE DC])
(* element-wise extension of the low / high half of the vector: result element i = ext(source element i [+ count]) *)
Widen(a, sw, dw, sgn, hi) == LET m == Len(a) \div dw off == IF hi THEN m ELSE 0
                             IN Gen(dw, m, LAMBDA i : BExt(Lane(a, sw, i + off), dw, sgn))
(* 64 -> 32 bit element conversions: "Lo" writes the low half of the vector and clears the high half, "Hi" writes the   *)
(* high half and keeps the low half of the destination (d = previous content of the destination)                       *)
NarrowLo(a, F(_))    == LET h == Len(a) \div 8 IN Gen(4, Len(a) \div 4, LAMBDA i : IF i < h THEN F(Lane(a, 8, i)) ELSE BZero(4))
NarrowHi(a, d, F(_)) == LET h == Len(a) \div 8 IN Gen(4, Len(a) \div 4, LAMBDA i : IF i < h THEN Lane(d, 4, i) ELSE F(Lane(a, 8, i - h)))
(* interleaving of the low / high halves of two 128-bit blocks: x0 y0 x1 y1 ... *)
Interleave(x, y, w, hi) == LET o == IF hi THEN 8 \div w ELSE 0
                           IN Gen(w, 16 \div w, LAMBDA e : IF e % 2 = 0 THEN Lane(x, w, o + e \div 2) ELSE Lane(y, w, o + e \div 2))
(* saturating narrowing of the elements of one 128-bit block *)
PackHalf(x, sw, dw, sgnOut) == Gen(dw, 16 \div sw, LAMBDA i : IF sgnOut THEN BSatSS(Lane(x, sw, i), dw) ELSE BSatSU(Lane(x, sw, i), dw))
LowBitsOf(L, count) == L[1] % count                                  \* count is a power of two <= 64
(* FMinFMaxOpBehavior::kTernaryLogic: "Min and max is implemented like `if a <|> b ? a : b`." *)
FMinT(x, y, f)   == IF FLt(x, y, f) THEN x ELSE y
FMaxT(x, y, f)   == IF FLt(y, x, f) THEN x ELSE y
(* memory -> vector *)
LoadZ(m, nb, W)  == Tab([k \in 1..W |-> IF k <= nb THEN m[k] ELSE 0])                       \* "(the rest is cleared)"
LoadCvt(m, cnt, sw, dw, sgn, W) == Tab([k \in 1..W |-> IF k <= cnt * dw THEN BExt(Lane(m, sw, (k - 1) \div dw), dw, sgn)[((k - 1) % dw) + 1] ELSE DC])
LoadIns(m, d, idx, nb, W) == Tab([k \in 1..W |-> IF k > 16 THEN DC ELSE IF (k - 1) \div nb = idx THEN m[((k - 1) % nb) + 1] ELSE d[k]])

(* ---------------------------------------------------------------------------------------------------------------- *)
(* UniOpVM                                                                                                          *)
(* ---------------------------------------------------------------------------------------------------------------- *)
\* `8-bit load into a vector register (the rest is cleared).`
VM_kLoad8(m, d, idx, W) == LoadZ(m, 1, W)
\* `16-bit load into a vector register (the rest is cleared).`
VM_kLoad16_U16(m, d, idx, W) == LoadZ(m, 2, W)
\* `32-bit load (int) into a vector register (the rest is cleared).`
VM_kLoad32_U32(m, d, idx, W) == LoadZ(m, 4, W)
\* `32-bit load (f32) into a vector register (the rest is cleared).`
VM_kLoad32_F32(m, d, idx, W) == LoadZ(m, 4, W)
\* `32-bit load (int) into a vector register (the rest is cleared).`
VM_kLoad64_U32(m, d, idx, W) == LoadZ(m, 8, W)
\* `64-bit load (int) into a vector register (the rest is cleared).`
VM_kLoad64_U64(m, d, idx, W) == LoadZ(m, 8, W)
\* `32-bit load (f32) into a vector register (the rest is cleared).`
VM_kLoad64_F32(m, d, idx, W) == LoadZ(m, 8, W)
\* `64-bit load (f64) into a vector register (the rest is cleared).`
VM_kLoad64_F64(m, d, idx, W) == LoadZ(m, 8, W)
\* `128-bit load (int) into a vector register (the rest is cleared).`
VM_kLoad128_U32(m, d, idx, W) == LoadZ(m, 16, W)
\* `128-bit load (int) into a vector register (the rest is cleared).`
VM_kLoad128_U64(m, d, idx, W) == LoadZ(m, 16, W)
\* `128-bit load (f32) into a vector register (the rest is cleared).`
VM_kLoad128_F32(m, d, idx, W) == LoadZ(m, 16, W)
\* `128-bit load (f64) into a vector register (the rest is cleared).`
VM_kLoad128_F64(m, d, idx, W) == LoadZ(m, 16, W)
\* `256-bit load (int) into a vector register (the rest is cleared).`
VM_kLoad256_U32(m, d, idx, W) == LoadZ(m, 32, W)
\* `256-bit load (int) into a vector register (the rest is cleared).`
VM_kLoad256_U64(m, d, idx, W) == LoadZ(m, 32, W)
\* `256-bit load (f32) into a vector register (the rest is cleared).`
VM_kLoad256_F32(m, d, idx, W) == LoadZ(m, 32, W)
\* `256-bit load (f64) into a vector register (the rest is cleared).`
VM_kLoad256_F64(m, d, idx, W) == LoadZ(m, 32, W)
\* `512-bit load (int) into a vector register (the rest is cleared).`
VM_kLoad512_U32(m, d, idx, W) == LoadZ(m, 64, W)
\* `512-bit load (int) into a vector register (the rest is cleared).`
VM_kLoad512_U64(m, d, idx, W) == LoadZ(m, 64, W)
\* `512-bit load (f32) into a vector register (the rest is cleared).`
VM_kLoad512_F32(m, d, idx, W) == LoadZ(m, 64, W)
\* `512-bit load (f64) into a vector register (the rest is cleared).`
VM_kLoad512_F64(m, d, idx, W) == LoadZ(m, 64, W)
\* `N-bit load (int) into a vector register (the size depends on the vector width).`
VM_kLoadN_U32(m, d, idx, W) == LoadZ(m, W, W)
\* `N-bit load (int) into a vector register (the size depends on the vector width).`
VM_kLoadN_U64(m, d, idx, W) == LoadZ(m, W, W)
\* `N-bit load (f32) into a vector register (the size depends on the vector width).`
VM_kLoadN_F32(m, d, idx, W) == LoadZ(m, W, W)
\* `N-bit load (f64) into a vector register (the size depends on the vector width).`
VM_kLoadN_F64(m, d, idx, W) == LoadZ(m, W, W)
\* `16-bit load into a vector register with 8-bit to 64-bit zero extension (128-bit result).`
VM_kLoadCvt16_U8ToU64(m, d, idx, W) == LoadCvt(m, 2, 1, 8, FALSE, W)
\* `32-bit load into a vector register with 8-bit to 64-bit zero extension (256-bit result).`
VM_kLoadCvt32_U8ToU64(m, d, idx, W) == LoadCvt(m, 4, 1, 8, FALSE, W)
\* `64-bit load into a vector register with 8-bit to 64-bit zero extension (512-bit result).`
VM_kLoadCvt64_U8ToU64(m, d, idx, W) == LoadCvt(m, 8, 1, 8, FALSE, W)
\* `32-bit load into a vector register with 8-bit to 16-bit sign extension (64-bit result).`
VM_kLoadCvt32_I8ToI16(m, d, idx, W) == LoadCvt(m, 4, 1, 2, TRUE, W)
\* `32-bit load into a vector register with 8-bit to 16-bit zero extension (64-bit result).`
VM_kLoadCvt32_U8ToU16(m, d, idx, W) == LoadCvt(m, 4, 1, 2, FALSE, W)
\* `32-bit load into a vector register with 8-bit to 32-bit sign extension (128-bit result).`
VM_kLoadCvt32_I8ToI32(m, d, idx, W) == LoadCvt(m, 4, 1, 4, TRUE, W)
\* `32-bit load into a vector register with 8-bit to 32-bit zero extension (128-bit result).`
VM_kLoadCvt32_U8ToU32(m, d, idx, W) == LoadCvt(m, 4, 1, 4, FALSE, W)
\* `32-bit load into a vector register with 16-bit to 32-bit sign extension (64-bit result).`
VM_kLoadCvt32_I16ToI32(m, d, idx, W) == LoadCvt(m, 2, 2, 4, TRUE, W)
\* `32-bit load into a vector register with 16-bit to 32-bit zero extension (64-bit result).`
VM_kLoadCvt32_U16ToU32(m, d, idx, W) == LoadCvt(m, 2, 2, 4, FALSE, W)
\* `32-bit load into a vector register with 32-bit to 64-bit sign extension (64-bit result).`
VM_kLoadCvt32_I32ToI64(m, d, idx, W) == LoadCvt(m, 1, 4, 8, TRUE, W)
\* `32-bit load into a vector register with 32-bit to 64-bit zero extension (64-bit result).`
VM_kLoadCvt32_U32ToU64(m, d, idx, W) == LoadCvt(m, 1, 4, 8, FALSE, W)
\* `64-bit load into a vector register with 8-bit to 16-bit sign extension (128-bit result).`
VM_kLoadCvt64_I8ToI16(m, d, idx, W) == LoadCvt(m, 8, 1, 2, TRUE, W)
\* `64-bit load into a vector register with 8-bit to 16-bit zero extension (128-bit result).`
VM_kLoadCvt64_U8ToU16(m, d, idx, W) == LoadCvt(m, 8, 1, 2, FALSE, W)
\* `64-bit load into a vector register with 8-bit to 32-bit sign extension (256-bit result).`
VM_kLoadCvt64_I8ToI32(m, d, idx, W) == LoadCvt(m, 8, 1, 4, TRUE, W)
\* `64-bit load into a vector register with 8-bit to 32-bit zero extension (256-bit result).`
VM_kLoadCvt64_U8ToU32(m, d, idx, W) == LoadCvt(m, 8, 1, 4, FALSE, W)
\* `64-bit load into a vector register with 16-bit to 32-bit sign extension (128-bit result).`
VM_kLoadCvt64_I16ToI32(m, d, idx, W) == LoadCvt(m, 4, 2, 4, TRUE, W)
\* `64-bit load into a vector register with 16-bit to 32-bit zero extension (128-bit result).`
VM_kLoadCvt64_U16ToU32(m, d, idx, W) == LoadCvt(m, 4, 2, 4, FALSE, W)
\* `64-bit load into a vector register with 32-bit to 64-bit sign extension (128-bit result).`
VM_kLoadCvt64_I32ToI64(m, d, idx, W) == LoadCvt(m, 2, 4, 8, TRUE, W)
\* `64-bit load into a vector register with 32-bit to 64-bit zero extension (128-bit result).`
VM_kLoadCvt64_U32ToU64(m, d, idx, W) == LoadCvt(m, 2, 4, 8, FALSE, W)
\* `128-bit load into a vector register with 8-bit to 16-bit sign extension (256-bit result).`
VM_kLoadCvt128_I8ToI16(m, d, idx, W) == LoadCvt(m, 16, 1, 2, TRUE, W)
\* `128-bit load into a vector register with 8-bit to 16-bit zero extension (256-bit result).`
VM_kLoadCvt128_U8ToU16(m, d, idx, W) == LoadCvt(m, 16, 1, 2, FALSE, W)
\* `128-bit load into a vector register with 8-bit to 32-bit sign extension (512-bit result).`
VM_kLoadCvt128_I8ToI32(m, d, idx, W) == LoadCvt(m, 16, 1, 4, TRUE, W)
\* `128-bit load into a vector register with 8-bit to 32-bit zero extension (512-bit result).`
VM_kLoadCvt128_U8ToU32(m, d, idx, W) == LoadCvt(m, 16, 1, 4, FALSE, W)
\* `128-bit load into a vector register with 16-bit to 32-bit sign extension (256-bit result).`
VM_kLoadCvt128_I16ToI32(m, d, idx, W) == LoadCvt(m, 8, 2, 4, TRUE, W)
\* `128-bit load into a vector register with 16-bit to 32-bit zero extension (256-bit result).`
VM_kLoadCvt128_U16ToU32(m, d, idx, W) == LoadCvt(m, 8, 2, 4, FALSE, W)
\* `128-bit load into a vector register with 32-bit to 64-bit sign extension (256-bit result).`
VM_kLoadCvt128_I32ToI64(m, d, idx, W) == LoadCvt(m, 4, 4, 8, TRUE, W)
\* `128-bit load into a vector register with 32-bit to 64-bit zero extension (256-bit result).`
VM_kLoadCvt128_U32ToU64(m, d, idx, W) == LoadCvt(m, 4, 4, 8, FALSE, W)
\* `256-bit load into a vector register with 8-bit to 16-bit sign extension (512-bit result).`
VM_kLoadCvt256_I8ToI16(m, d, idx, W) == LoadCvt(m, 32, 1, 2, TRUE, W)
\* `256-bit load into a vector register with 8-bit to 16-bit zero extension (512-bit result).`
VM_kLoadCvt256_U8ToU16(m, d, idx, W) == LoadCvt(m, 32, 1, 2, FALSE, W)
\* `256-bit load into a vector register with 16-bit to 32-bit sign extension (512-bit result).`
VM_kLoadCvt256_I16ToI32(m, d, idx, W) == LoadCvt(m, 16, 2, 4, TRUE, W)
\* `256-bit load into a vector register with 16-bit to 32-bit zero extension (512-bit result).`
VM_kLoadCvt256_U16ToU32(m, d, idx, W) == LoadCvt(m, 16, 2, 4, FALSE, W)
\* `256-bit load into a vector register with 32-bit to 64-bit sign extension (512-bit result).`
VM_kLoadCvt256_I32ToI64(m, d, idx, W) == LoadCvt(m, 8, 4, 8, TRUE, W)
\* `256-bit load into a vector register with 32-bit to 64-bit zero extension (512-bit result).`
VM_kLoadCvt256_U32ToU64(m, d, idx, W) == LoadCvt(m, 8, 4, 8, FALSE, W)
\* `N-bit load with 8-bit to 64-bit zero extension (the size depends on the vector width).`
VM_kLoadCvtN_U8ToU64(m, d, idx, W) == LoadCvt(m, W \div 8, 1, 8, FALSE, W)
\* `N-bit load with 8-bit to 16-bit sign extension (the size depends on the vector width).`
VM_kLoadCvtN_I8ToI16(m, d, idx, W) == LoadCvt(m, W \div 2, 1, 2, TRUE, W)
\* `N-bit load with 8-bit to 16-bit zero extension (the size depends on the vector width).`
VM_kLoadCvtN_U8ToU16(m, d, idx, W) == LoadCvt(m, W \div 2, 1, 2, FALSE, W)
\* `N-bit load with 8-bit to 32-bit sign extension (the size depends on the vector width).`
VM_kLoadCvtN_I8ToI32(m, d, idx, W) == LoadCvt(m, W \div 4, 1, 4, TRUE, W)
\* `N-bit load with 8-bit to 32-bit zero extension (the size depends on the vector width).`
VM_kLoadCvtN_U8ToU32(m, d, idx, W) == LoadCvt(m, W \div 4, 1, 4, FALSE, W)
\* `N-bit load with 16-bit to 32-bit sign extension (the size depends on the vector width).`
VM_kLoadCvtN_I16ToI32(m, d, idx, W) == LoadCvt(m, W \div 4, 2, 4, TRUE, W)
\* `N-bit load with 16-bit to 32-bit zero extension (the size depends on the vector width).`
VM_kLoadCvtN_U16ToU32(m, d, idx, W) == LoadCvt(m, W \div 4, 2, 4, FALSE, W)
\* `N-bit load with 32-bit to 64-bit sign extension (the size depends on the vector width).`
VM_kLoadCvtN_I32ToI64(m, d, idx, W) == LoadCvt(m, W \div 8, 4, 8, TRUE, W)
\* `N-bit load with 32-bit to 64-bit zero extension (the size depends on the vector width).`
VM_kLoadCvtN_U32ToU64(m, d, idx, W) == LoadCvt(m, W \div 8, 4, 8, FALSE, W)
\* `8-bit insert (int) into a vector register from memory.`
VM_kLoadInsertU8(m, d, idx, W) == LoadIns(m, d, idx, 1, W)
\* `16-bit insert (int) into a vector register from memory.`
VM_kLoadInsertU16(m, d, idx, W) == LoadIns(m, d, idx, 2, W)
\* `32-bit insert (int) into a vector register from memory.`
VM_kLoadInsertU32(m, d, idx, W) == LoadIns(m, d, idx, 4, W)
\* `64-bit insert (int) into a vector register from memory.`
VM_kLoadInsertU64(m, d, idx, W) == LoadIns(m, d, idx, 8, W)
\* `32-bit insert (f32) into a vector register from memory.`
VM_kLoadInsertF32(m, d, idx, W) == LoadIns(m, d, idx, 4, W)
\* `64-bit insert (f32x2) into a vector register from memory.`
VM_kLoadInsertF32x2(m, d, idx, W) == LoadIns(m, d, idx, 8, W)
\* `64-bit insert (f64) into a vector register from memory.`
VM_kLoadInsertF64(m, d, idx, W) == LoadIns(m, d, idx, 8, W)

(* ---------------------------------------------------------------------------------------------------------------- *)
(* UniOpMV                                                                                                          *)
(* ---------------------------------------------------------------------------------------------------------------- *)
\* `8-bit store (int) of a vector register.`
MV_kStore8(a, idx, W) == BTrunc(a, 1)
\* `16-bit store (int) of a vector register.`
MV_kStore16_U16(a, idx, W) == BTrunc(a, 2)
\* `16-bit store (int) of a vector register.`
MV_kStore32_U32(a, idx, W) == BTrunc(a, 4)
\* `16-bit store (f32) of a vector register.`
MV_kStore32_F32(a, idx, W) == BTrunc(a, 4)
\* `64-bit store (int) of a vector register.`
MV_kStore64_U32(a, idx, W) == BTrunc(a, 8)
\* `64-bit store (int) of a vector register.`
MV_kStore64_U64(a, idx, W) == BTrunc(a, 8)
\* `64-bit store (f32) of a vector register.`
MV_kStore64_F32(a, idx, W) == BTrunc(a, 8)
\* `64-bit store (f64) of a vector register.`
MV_kStore64_F64(a, idx, W) == BTrunc(a, 8)
\* `128-bit store (int) of a vector register.`
MV_kStore128_U32(a, idx, W) == BTrunc(a, 16)
\* `128-bit store (int) of a vector register.`
MV_kStore128_U64(a, idx, W) == BTrunc(a, 16)
\* `128-bit store (f32) of a vector register.`
MV_kStore128_F32(a, idx, W) == BTrunc(a, 16)
\* `128-bit store (f64) of a vector register.`
MV_kStore128_F64(a, idx, W) == BTrunc(a, 16)
\* `256-bit store (int) of a vector register.`
MV_kStore256_U32(a, idx, W) == BTrunc(a, 32)
\* `256-bit store (int) of a vector register.`
MV_kStore256_U64(a, idx, W) == BTrunc(a, 32)
\* `256-bit store (f32) of a vector register.`
MV_kStore256_F32(a, idx, W) == BTrunc(a, 32)
\* `256-bit store (f64) of a vector register.`
MV_kStore256_F64(a, idx, W) == BTrunc(a, 32)
\* `512-bit store (int) of a vector register.`
MV_kStore512_U32(a, idx, W) == BTrunc(a, 64)
\* `512-bit store (int) of a vector register.`
MV_kStore512_U64(a, idx, W) == BTrunc(a, 64)
\* `512-bit store (f32) of a vector register.`
MV_kStore512_F32(a, idx, W) == BTrunc(a, 64)
\* `512-bit store (f64) of a vector register.`
MV_kStore512_F64(a, idx, W) == BTrunc(a, 64)
\* `N-bit store (int) of a vector register (the size depends on the vector width).`
MV_kStoreN_U32(a, idx, W) == BTrunc(a, W)
\* `N-bit store (int) of a vector register (the size depends on the vector width).`
MV_kStoreN_U64(a, idx, W) == BTrunc(a, W)
\* `N-bit store (f32) of a vector register (the size depends on the vector width).`
MV_kStoreN_F32(a, idx, W) == BTrunc(a, W)
\* `N-bit store (f64) of a vector register (the size depends on the vector width).`
MV_kStoreN_F64(a, idx, W) == BTrunc(a, W)
\* `16-bit extract from lane and store.`
MV_kStoreExtractU16(a, idx, W) == Lane(a, 2, idx)
\* `32-bit extract from lane and store.`
MV_kStoreExtractU32(a, idx, W) == Lane(a, 4, idx)
\* `64-bit extract from lane and store.`
MV_kStoreExtractU64(a, idx, W) == Lane(a, 8, idx)

(* ---------------------------------------------------------------------------------------------------------------- *)
(* UniOpVV                                                                                                          *)
(* ---------------------------------------------------------------------------------------------------------------- *)
\* `Vector move.`
VV_kMov(a, d) == a
\* `Vector move of the low 64-bit data, the rest is set to zero.`
VV_kMovU64(a, d) == BZExt(BTrunc(a, 8), Len(a))
\* `Vector u8  broadcast with an assumption that the rest of the source vector is zero.`
VV_kBroadcastU8Z(a, d) == Gen(1, Len(a) \div 1, LAMBDA i : Lane(a, 1, 0))
\* `Vector u16 broadcast with an assumption that the rest of the source vector is zero.`
VV_kBroadcastU16Z(a, d) == Gen(2, Len(a) \div 2, LAMBDA i : Lane(a, 2, 0))
\* `Vector u8  broadcast to all lanes.`
VV_kBroadcastU8(a, d) == Gen(1, Len(a) \div 1, LAMBDA i : Lane(a, 1, 0))
\* `Vector u16 broadcast to all lanes.`
VV_kBroadcastU16(a, d) == Gen(2, Len(a) \div 2, LAMBDA i : Lane(a, 2, 0))
\* `Vector u32 broadcast to all lanes.`
VV_kBroadcastU32(a, d) == Gen(4, Len(a) \div 4, LAMBDA i : Lane(a, 4, 0))
\* `Vector u64 broadcast to all lanes.`
VV_kBroadcastU64(a, d) == Gen(8, Len(a) \div 8, LAMBDA i : Lane(a, 8, 0))
\* `Vector f32 broadcast to all lanes.`
VV_kBroadcastF32(a, d) == Gen(4, Len(a) \div 4, LAMBDA i : Lane(a, 4, 0))
\* `Vector f64 broadcast to all lanes.`
VV_kBroadcastF64(a, d) == Gen(8, Len(a) \div 8, LAMBDA i : Lane(a, 8, 0))
\* `Vector broadcast of 128-bit lanes.`
VV_kBroadcastV128_U32(a, d) == Gen(16, Len(a) \div 16, LAMBDA i : Lane(a, 16, 0))
\* `Vector broadcast of 128-bit lanes.`
VV_kBroadcastV128_U64(a, d) == Gen(16, Len(a) \div 16, LAMBDA i : Lane(a, 16, 0))
\* `Vector broadcast of 128-bit lanes.`
VV_kBroadcastV128_F32(a, d) == Gen(16, Len(a) \div 16, LAMBDA i : Lane(a, 16, 0))
\* `Vector broadcast of 128-bit lanes.`
VV_kBroadcastV128_F64(a, d) == Gen(16, Len(a) \div 16, LAMBDA i : Lane(a, 16, 0))
\* `Vector broadcast of 256-bit lanes.`
VV_kBroadcastV256_U32(a, d) == Gen(32, Len(a) \div 32, LAMBDA i : Lane(a, 32, 0))
\* `Vector broadcast of 256-bit lanes.`
VV_kBroadcastV256_U64(a, d) == Gen(32, Len(a) \div 32, LAMBDA i : Lane(a, 32, 0))
\* `Vector broadcast of 256-bit lanes.`
VV_kBroadcastV256_F32(a, d) == Gen(32, Len(a) \div 32, LAMBDA i : Lane(a, 32, 0))
\* `Vector broadcast of 256-bit lanes.`
VV_kBroadcastV256_F64(a, d) == Gen(32, Len(a) \div 32, LAMBDA i : Lane(a, 32, 0))
\* `Vector i8  absolute value - `dst = abs(src)`.`
VV_kAbsI8(a, d) == Map1(1, a, LAMBDA x : BAbs(x))
\* `Vector i16 absolute value - `dst = abs(src)`.`
VV_kAbsI16(a, d) == Map1(2, a, LAMBDA x : BAbs(x))
\* `Vector i32 absolute value - `dst = abs(src)`.`
VV_kAbsI32(a, d) == Map1(4, a, LAMBDA x : BAbs(x))
\* `Vector i64 absolute value - `dst = abs(src)`.`
VV_kAbsI64(a, d) == Map1(8, a, LAMBDA x : BAbs(x))
\* `Vector u32 bitwise NOT - `dst = ~src`.`
VV_kNotU32(a, d) == BNot(a)
\* `Vector u64 bitwise NOT - `dst = ~src`.`
VV_kNotU64(a, d) == BNot(a)
\* `Vector sign extend low  i8  to i16.`
VV_kCvtI8LoToI16(a, d) == Widen(a, 1, 2, TRUE, FALSE)
\* `Vector sign extend high i8  to i16.`
VV_kCvtI8HiToI16(a, d) == Widen(a, 1, 2, TRUE, TRUE)
\* `Vector zero extend low  u8  to u16.`
VV_kCvtU8LoToU16(a, d) == Widen(a, 1, 2, FALSE, FALSE)
\* `Vector zero extend high u8  to u16.`
VV_kCvtU8HiToU16(a, d) == Widen(a, 1, 2, FALSE, TRUE)
\* `Vector zero extend low  i8  to i32.`
VV_kCvtI8ToI32(a, d) == Widen(a, 1, 4, TRUE, FALSE)
\* `Vector zero extend high u8  to u32.`
VV_kCvtU8ToU32(a, d) == Widen(a, 1, 4, FALSE, FALSE)
\* `Vector sign extend low  i16 to i32.`
VV_kCvtI16LoToI32(a, d) == Widen(a, 2, 4, TRUE, FALSE)
\* `Vector sign extend high i16 to i32.`
VV_kCvtI16HiToI32(a, d) == Widen(a, 2, 4, TRUE, TRUE)
\* `Vector zero extend low  u16 to u32.`
VV_kCvtU16LoToU32(a, d) == Widen(a, 2, 4, FALSE, FALSE)
\* `Vector zero extend high u16 to u32.`
VV_kCvtU16HiToU32(a, d) == Widen(a, 2, 4, FALSE, TRUE)
\* `Vector sign extend low  i32 to i64.`
VV_kCvtI32LoToI64(a, d) == Widen(a, 4, 8, TRUE, FALSE)
\* `Vector sign extend high i32 to i64.`
VV_kCvtI32HiToI64(a, d) == Widen(a, 4, 8, TRUE, TRUE)
\* `Vector zero extend low  u32 to u64.`
VV_kCvtU32LoToU64(a, d) == Widen(a, 4, 8, FALSE, FALSE)
\* `Vector zero extend high u32 to u64.`
VV_kCvtU32HiToU64(a, d) == Widen(a, 4, 8, FALSE, TRUE)
\* `Scalar f32 absolute value.`
VV_kAbsF32S(a, d) == Scalar(4, Len(a), LET x == Lane(a, 4, 0) IN FAbsW(x))
\* `Scalar f64 absolute value.`
VV_kAbsF64S(a, d) == Scalar(8, Len(a), LET x == Lane(a, 8, 0) IN FAbsW(x))
\* `Vector f32 absolute value.`
VV_kAbsF32(a, d) == Map1(4, a, LAMBDA x : FAbsW(x))
\* `Vector f64 absolute value.`
VV_kAbsF64(a, d) == Map1(8, a, LAMBDA x : FAbsW(x))
\* `Scalar f32 negate.`
VV_kNegF32S(a, d) == Scalar(4, Len(a), LET x == Lane(a, 4, 0) IN FWithSign(x, 1 - FSign(x)))
\* `Scalar f64 negate.`
VV_kNegF64S(a, d) == Scalar(8, Len(a), LET x == Lane(a, 8, 0) IN FWithSign(x, 1 - FSign(x)))
\* `Vector f32 negate.`
VV_kNegF32(a, d) == Map1(4, a, LAMBDA x : FWithSign(x, 1 - FSign(x)))
\* `Vector f64 negate.`
VV_kNegF64(a, d) == Map1(8, a, LAMBDA x : FWithSign(x, 1 - FSign(x)))
\* `Vector f32 bitwise NOT.`
VV_kNotF32(a, d) == BNot(a)
\* `Vector f64 bitwise NOT.`
VV_kNotF64(a, d) == BNot(a)
\* `Scalar f32 truncate.`
VV_kTruncF32S(a, d) == Scalar(4, Len(a), FRound(Lane(a, 4, 0), FmtOf(4), "trunc"))
\* `Scalar f64 truncate.`
VV_kTruncF64S(a, d) == Scalar(8, Len(a), FRound(Lane(a, 8, 0), FmtOf(8), "trunc"))
\* `Vector f32 truncate.`
VV_kTruncF32(a, d) == Map1(4, a, LAMBDA x : FRound(x, FmtOf(4), "trunc"))
\* `Vector f64 truncate.`
VV_kTruncF64(a, d) == Map1(8, a, LAMBDA x : FRound(x, FmtOf(8), "trunc"))
\* `Scalar f32 floor.`
VV_kFloorF32S(a, d) == Scalar(4, Len(a), FRound(Lane(a, 4, 0), FmtOf(4), "floor"))
\* `Scalar f64 floor.`
VV_kFloorF64S(a, d) == Scalar(8, Len(a), FRound(Lane(a, 8, 0), FmtOf(8), "floor"))
\* `Vector f32 floor.`
VV_kFloorF32(a, d) == Map1(4, a, LAMBDA x : FRound(x, FmtOf(4), "floor"))
\* `Vector f64 floor.`
VV_kFloorF64(a, d) == Map1(8, a, LAMBDA x : FRound(x, FmtOf(8), "floor"))
\* `Scalar f32 ceil.`
VV_kCeilF32S(a, d) == Scalar(4, Len(a), FRound(Lane(a, 4, 0), FmtOf(4), "ceil"))
\* `Scalar f64 ceil.`
VV_kCeilF64S(a, d) == Scalar(8, Len(a), FRound(Lane(a, 8, 0), FmtOf(8), "ceil"))
\* `Vector f32 ceil.`
VV_kCeilF32(a, d) == Map1(4, a, LAMBDA x : FRound(x, FmtOf(4), "ceil"))
\* `Vector f64 ceil.`
VV_kCeilF64(a, d) == Map1(8, a, LAMBDA x : FRound(x, FmtOf(8), "ceil"))
\* `Scalar f32 round-even.`
VV_kRoundEvenF32S(a, d) == Scalar(4, Len(a), FRound(Lane(a, 4, 0), FmtOf(4), "even"))
\* `Scalar f64 round-even.`
VV_kRoundEvenF64S(a, d) == Scalar(8, Len(a), FRound(Lane(a, 8, 0), FmtOf(8), "even"))
\* `Vector f32 round-even.`
VV_kRoundEvenF32(a, d) == Map1(4, a, LAMBDA x : FRound(x, FmtOf(4), "even"))
\* `Vector f64 round-even.`
VV_kRoundEvenF64(a, d) == Map1(8, a, LAMBDA x : FRound(x, FmtOf(8), "even"))
\* `Scalar f32 round-half-away (0.5 and greater fraction rounds away from zero).`
VV_kRoundHalfAwayF32S(a, d) == Scalar(4, Len(a), FRound(Lane(a, 4, 0), FmtOf(4), "away"))
\* `Scalar f64 round-half-away (0.5 and greater fraction rounds away from zero).`
VV_kRoundHalfAwayF64S(a, d) == Scalar(8, Len(a), FRound(Lane(a, 8, 0), FmtOf(8), "away"))
\* `Vector f32 round-half-away (0.5 and greater fraction rounds away from zero).`
VV_kRoundHalfAwayF32(a, d) == Map1(4, a, LAMBDA x : FRound(x, FmtOf(4), "away"))
\* `Vector f64 round-half-away (0.5 and greater fraction rounds away from zero).`
VV_kRoundHalfAwayF64(a, d) == Map1(8, a, LAMBDA x : FRound(x, FmtOf(8), "away"))
\* `Scalar f32 round-half-up (0.5 and greater fraction rounds up).`
VV_kRoundHalfUpF32S(a, d) == Scalar(4, Len(a), FRound(Lane(a, 4, 0), FmtOf(4), "up"))
\* `Scalar f64 round-half-up (0.5 and greater fraction rounds up).`
VV_kRoundHalfUpF64S(a, d) == Scalar(8, Len(a), FRound(Lane(a, 8, 0), FmtOf(8), "up"))
\* `Vector f32 round-half-up (0.5 and greater fraction rounds up).`
VV_kRoundHalfUpF32(a, d) == Map1(4, a, LAMBDA x : FRound(x, FmtOf(4), "up"))
\* `Vector f64 round-half-up (0.5 and greater fraction rounds up).`
VV_kRoundHalfUpF64(a, d) == Map1(8, a, LAMBDA x : FRound(x, FmtOf(8), "up"))
\* `Vector f32 reciprocal - `dst = 1.0 / src`.`
VV_kRcpF32(a, d) == Map1(4, a, LAMBDA x : FRcpP2(x, FmtOf(4)))
\* `Vector f64 reciprocal - `dst = 1.0 / src`.`
VV_kRcpF64(a, d) == Map1(8, a, LAMBDA x : FRcpP2(x, FmtOf(8)))
\* `Scalar f32 square root.`
VV_kSqrtF32S(a, d) == Scalar(4, Len(a), FSqrtI(Lane(a, 4, 0), FmtOf(4)))
\* `Scalar f64 square root.`
VV_kSqrtF64S(a, d) == Scalar(8, Len(a), FSqrtI(Lane(a, 8, 0), FmtOf(8)))
\* `Vector f32 square root.`
VV_kSqrtF32(a, d) == Map1(4, a, LAMBDA x : FSqrtI(x, FmtOf(4)))
\* `Vector f64 square root.`
VV_kSqrtF64(a, d) == Map1(8, a, LAMBDA x : FSqrtI(x, FmtOf(8)))
\* (no doc comment in uniop.h; semantics of the reference implementation of the repository test)
VV_kCvtF32ToF64S(a, d) == Scalar(8, Len(a), F32To64(Lane(a, 4, 0)))
\* (no doc comment in uniop.h; semantics of the reference implementation of the repository test)
VV_kCvtF64ToF32S(a, d) == Scalar(4, Len(a), F64To32(Lane(a, 8, 0)))
\* (no doc comment in uniop.h; semantics of the reference implementation of the repository test)
VV_kCvtI32ToF32(a, d) == Map1(4, a, LAMBDA x : FOfSInt(x, F32))
\* (no doc comment in uniop.h; semantics of the reference implementation of the repository test)
VV_kCvtF32LoToF64(a, d) == Gen(8, Len(a) \div 8, LAMBDA i : F32To64(Lane(a, 4, i)))
\* (no doc comment in uniop.h; semantics of the reference implementation of the repository test)
VV_kCvtF32HiToF64(a, d) == Gen(8, Len(a) \div 8, LAMBDA i : F32To64(Lane(a, 4, i + Len(a) \div 8)))
\* (no doc comment in uniop.h; semantics of the reference implementation of the repository test)
VV_kCvtF64ToF32Lo(a, d) == NarrowLo(a, LAMBDA x : F64To32(x))
\* (no doc comment in uniop.h; semantics of the reference implementation of the repository test)
VV_kCvtF64ToF32Hi(a, d) == NarrowHi(a, d, LAMBDA x : F64To32(x))
\* (no doc comment in uniop.h; semantics of the reference implementation of the repository test)
VV_kCvtI32LoToF64(a, d) == Gen(8, Len(a) \div 8, LAMBDA i : FOfSInt(Lane(a, 4, i), F64))
\* (no doc comment in uniop.h; semantics of the reference implementation of the repository test)
VV_kCvtI32HiToF64(a, d) == Gen(8, Len(a) \div 8, LAMBDA i : FOfSInt(Lane(a, 4, i + Len(a) \div 8), F64))
\* (no doc comment in uniop.h; semantics of the reference implementation of the repository test)
VV_kCvtTruncF32ToI32(a, d) == Map1(4, a, LAMBDA x : FToSInt(x, F32, "trunc", 4))
\* (no doc comment in uniop.h; semantics of the reference implementation of the repository test)
VV_kCvtTruncF64ToI32Lo(a, d) == NarrowLo(a, LAMBDA x : FToSInt(x, F64, "trunc", 4))
\* (no doc comment in uniop.h; semantics of the reference implementation of the repository test)
VV_kCvtTruncF64ToI32Hi(a, d) == NarrowHi(a, d, LAMBDA x : FToSInt(x, F64, "trunc", 4))
\* (no doc comment in uniop.h; semantics of the reference implementation of the repository test)
VV_kCvtRoundF32ToI32(a, d) == Map1(4, a, LAMBDA x : FToSInt(x, F32, "even", 4))
\* (no doc comment in uniop.h; semantics of the reference implementation of the repository test)
VV_kCvtRoundF64ToI32Lo(a, d) == NarrowLo(a, LAMBDA x : FToSInt(x, F64, "even", 4))
\* (no doc comment in uniop.h; semantics of the reference implementation of the repository test)
VV_kCvtRoundF64ToI32Hi(a, d) == NarrowHi(a, d, LAMBDA x : FToSInt(x, F64, "even", 4))

(* ---------------------------------------------------------------------------------------------------------------- *)
(* UniOpVVI                                                                                                         *)
(* ---------------------------------------------------------------------------------------------------------------- *)
\* `Vector u16 shift left logical.`
VVI_kSllU16(a, d, imm) == Map1(2, a, LAMBDA x : BShl(x, imm))
\* `Vector u32 shift left logical.`
VVI_kSllU32(a, d, imm) == Map1(4, a, LAMBDA x : BShl(x, imm))
\* `Vector u64 shift left logical.`
VVI_kSllU64(a, d, imm) == Map1(8, a, LAMBDA x : BShl(x, imm))
\* `Vector u16 shift right logical.`
VVI_kSrlU16(a, d, imm) == Map1(2, a, LAMBDA x : BShr(x, imm))
\* `Vector u32 shift right logical.`
VVI_kSrlU32(a, d, imm) == Map1(4, a, LAMBDA x : BShr(x, imm))
\* `Vector u64 shift right logical.`
VVI_kSrlU64(a, d, imm) == Map1(8, a, LAMBDA x : BShr(x, imm))
\* `Vector u16 shift right arithmetic.`
VVI_kSraI16(a, d, imm) == Map1(2, a, LAMBDA x : BSar(x, imm))
\* `Vector u32 shift right arithmetic.`
VVI_kSraI32(a, d, imm) == Map1(4, a, LAMBDA x : BSar(x, imm))
\* `Vector u64 shift right arithmetic.`
VVI_kSraI64(a, d, imm) == Map1(8, a, LAMBDA x : BSar(x, imm))
\* `Vector shift bytes (128-bit lanes).`
VVI_kSllbU128(a, d, imm) == Blocks1(a, LAMBDA x : Tab([k \in 1..16 |-> IF k - imm >= 1 THEN x[k - imm] ELSE 0]))
\* `Vector shift bytes (128-bit lanes).`
VVI_kSrlbU128(a, d, imm) == Blocks1(a, LAMBDA x : Tab([k \in 1..16 |-> IF k + imm <= 16 THEN x[k + imm] ELSE 0]))
\* `Vector swizzle u16x4 (128-bit lanes).`
VVI_kSwizzleU16x4(a, d, imm) == Blocks1(a, LAMBDA x : Tab([k \in 1..16 |-> x[8 * ((k - 1) \div 8) + 2 * Sel4(imm, ((k - 1) % 8) \div 2) + ((k - 1) % 2) + 1]]))
\* `Vector swizzle u16x4 (low  64-bit lanes).`
VVI_kSwizzleLoU16x4(a, d, imm) == Blocks1(a, LAMBDA x : Tab([k \in 1..16 |-> IF k <= 8 THEN x[2 * Sel4(imm, (k - 1) \div 2) + ((k - 1) % 2) + 1] ELSE x[k]]))
\* `Vector swizzle u16x4 (high 64-bit lanes)`
VVI_kSwizzleHiU16x4(a, d, imm) == Blocks1(a, LAMBDA x : Tab([k \in 1..16 |-> IF k > 8 THEN x[8 + 2 * Sel4(imm, (k - 9) \div 2) + ((k - 9) % 2) + 1] ELSE x[k]]))
\* `Vector swizzle u32x4 (128-bit lanes).`
VVI_kSwizzleU32x4(a, d, imm) == Blocks1(a, LAMBDA x : Tab([k \in 1..16 |-> x[4 * Sel4(imm, (k - 1) \div 4) + ((k - 1) % 4) + 1]]))
\* `Vector swizzle u64x2 (128-bit lanes).`
VVI_kSwizzleU64x2(a, d, imm) == Blocks1(a, LAMBDA x : Tab([k \in 1..16 |-> x[8 * Sel2(imm, (k - 1) \div 8) + ((k - 1) % 8) + 1]]))
\* `Vector swizzle f32x4 (128-bit lanes).`
VVI_kSwizzleF32x4(a, d, imm) == Blocks1(a, LAMBDA x : Tab([k \in 1..16 |-> x[4 * Sel4(imm, (k - 1) \div 4) + ((k - 1) % 4) + 1]]))
\* `Vector swizzle f64x2 (128-bit lanes).`
VVI_kSwizzleF64x2(a, d, imm) == Blocks1(a, LAMBDA x : Tab([k \in 1..16 |-> x[8 * Sel2(imm, (k - 1) \div 8) + ((k - 1) % 8) + 1]]))
\* `Vector swizzle u64x4 (256-bit lanes).`
VVI_kSwizzleU64x4(a, d, imm) == Map1(32, a, LAMBDA x : Tab([k \in 1..32 |-> x[8 * Sel4(imm, (k - 1) \div 8) + ((k - 1) % 8) + 1]]))
\* `Vector swizzle f64x4 (256-bit lanes).`
VVI_kSwizzleF64x4(a, d, imm) == Map1(32, a, LAMBDA x : Tab([k \in 1..32 |-> x[8 * Sel4(imm, (k - 1) \div 8) + ((k - 1) % 8) + 1]]))
\* `Vector extract 128-bit lane from 256-bit or 512-bit vector.`
VVI_kExtractV128_I32(a, d, imm) == Tab([k \in 1..Len(a) |-> IF k <= 16 THEN a[16 * imm + k] ELSE DC])
\* `Vector extract 128-bit lane from 256-bit or 512-bit vector.`
VVI_kExtractV128_I64(a, d, imm) == Tab([k \in 1..Len(a) |-> IF k <= 16 THEN a[16 * imm + k] ELSE DC])
\* `Vector extract 128-bit lane from 256-bit or 512-bit vector.`
VVI_kExtractV128_F32(a, d, imm) == Tab([k \in 1..Len(a) |-> IF k <= 16 THEN a[16 * imm + k] ELSE DC])
\* `Vector extract 128-bit lane from 256-bit or 512-bit vector.`
VVI_kExtractV128_F64(a, d, imm) == Tab([k \in 1..Len(a) |-> IF k <= 16 THEN a[16 * imm + k] ELSE DC])
\* `Vector extract 256-bit lane from 512-bit vector.`
VVI_kExtractV256_I32(a, d, imm) == Tab([k \in 1..Len(a) |-> IF k <= 32 THEN a[32 * imm + k] ELSE DC])
\* `Vector extract 256-bit lane from 512-bit vector.`
VVI_kExtractV256_I64(a, d, imm) == Tab([k \in 1..Len(a) |-> IF k <= 32 THEN a[32 * imm + k] ELSE DC])
\* `Vector extract 256-bit lane from 512-bit vector.`
VVI_kExtractV256_F32(a, d, imm) == Tab([k \in 1..Len(a) |-> IF k <= 32 THEN a[32 * imm + k] ELSE DC])
\* `Vector extract 256-bit lane from 512-bit vector.`
VVI_kExtractV256_F64(a, d, imm) == Tab([k \in 1..Len(a) |-> IF k <= 32 THEN a[32 * imm + k] ELSE DC])

(* ---------------------------------------------------------------------------------------------------------------- *)
(* UniOpVVV                                                                                                         *)
(* ---------------------------------------------------------------------------------------------------------------- *)
\* `Vector u32 bitwise AND  - `dst = src1 & src2`.`
VVV_kAndU32(a, b, d) == BAnd(a, b)
\* `Vector u64 bitwise AND  - `dst = src1 & src2`.`
VVV_kAndU64(a, b, d) == BAnd(a, b)
\* `Vector u32 bitwise OR   - `dst = src1 | src2`.`
VVV_kOrU32(a, b, d) == BOr(a, b)
\* `Vector u64 bitwise OR   - `dst = src1 | src2`.`
VVV_kOrU64(a, b, d) == BOr(a, b)
\* `Vector u32 bitwise XOR  - `dst = src1 ^ src2`.`
VVV_kXorU32(a, b, d) == BXor(a, b)
\* `Vector u64 bitwise XOR  - `dst = src1 ^ src2`.`
VVV_kXorU64(a, b, d) == BXor(a, b)
\* `Vector u32 bitwise ANDN - `dst = ~src1 & src2`.`
VVV_kAndnU32(a, b, d) == BAnd(BNot(a), b)
\* `Vector u64 bitwise ANDN - `dst = ~src1 & src2`.`
VVV_kAndnU64(a, b, d) == BAnd(BNot(a), b)
\* `Vector u32 bitwise BIC  - `dst = src1 & ~src2`.`
VVV_kBicU32(a, b, d) == BAnd(a, BNot(b))
\* `Vector u64 bitwise BIC  - `dst = src1 & ~src2`.`
VVV_kBicU64(a, b, d) == BAnd(a, BNot(b))
\* `Vector u8  average rounded half up `dst = (src1 + src2 + 1) >> 1`.`
VVV_kAvgrU8(a, b, d) == Map2(1, a, b, LAMBDA x, y : BOfNat((BToNat(x) + BToNat(y) + 1) \div 2, 1))
\* `Vector u16 average rounded half up `dst = (src1 + src2 + 1) >> 1`.`
VVV_kAvgrU16(a, b, d) == Map2(2, a, b, LAMBDA x, y : BOfNat((BToNat(x) + BToNat(y) + 1) \div 2, 2))
\* `Vector u8  add.`
VVV_kAddU8(a, b, d) == Map2(1, a, b, LAMBDA x, y : BAdd(x, y))
\* `Vector u16 add.`
VVV_kAddU16(a, b, d) == Map2(2, a, b, LAMBDA x, y : BAdd(x, y))
\* `Vector u32 add.`
VVV_kAddU32(a, b, d) == Map2(4, a, b, LAMBDA x, y : BAdd(x, y))
\* `Vector u64 add.`
VVV_kAddU64(a, b, d) == Map2(8, a, b, LAMBDA x, y : BAdd(x, y))
\* `Vector u8  sub.`
VVV_kSubU8(a, b, d) == Map2(1, a, b, LAMBDA x, y : BSub(x, y))
\* `Vector u16 sub.`
VVV_kSubU16(a, b, d) == Map2(2, a, b, LAMBDA x, y : BSub(x, y))
\* `Vector u32 sub.`
VVV_kSubU32(a, b, d) == Map2(4, a, b, LAMBDA x, y : BSub(x, y))
\* `Vector u64 sub.`
VVV_kSubU64(a, b, d) == Map2(8, a, b, LAMBDA x, y : BSub(x, y))
\* `Vector i8  add with saturation (signed).`
VVV_kAddsI8(a, b, d) == Map2(1, a, b, LAMBDA x, y : BSatSS(BAdd(BExt(x, 4, TRUE), BExt(y, 4, TRUE)), 1))
\* `Vector u8  add with saturation (unsigned).`
VVV_kAddsU8(a, b, d) == Map2(1, a, b, LAMBDA x, y : BSatSU(BAdd(BExt(x, 4, FALSE), BExt(y, 4, FALSE)), 1))
\* `Vector i16 add with saturation (signed).`
VVV_kAddsI16(a, b, d) == Map2(2, a, b, LAMBDA x, y : BSatSS(BAdd(BExt(x, 4, TRUE), BExt(y, 4, TRUE)), 2))
\* `Vector u16 add with saturation (unsigned).`
VVV_kAddsU16(a, b, d) == Map2(2, a, b, LAMBDA x, y : BSatSU(BAdd(BExt(x, 4, FALSE), BExt(y, 4, FALSE)), 2))
\* `Vector i8  sub with saturation (signed).`
VVV_kSubsI8(a, b, d) == Map2(1, a, b, LAMBDA x, y : BSatSS(BSub(BExt(x, 4, TRUE), BExt(y, 4, TRUE)), 1))
\* `Vector u8  sub with saturation (unsigned).`
VVV_kSubsU8(a, b, d) == Map2(1, a, b, LAMBDA x, y : BSatSU(BSub(BExt(x, 4, FALSE), BExt(y, 4, FALSE)), 1))
\* `Vector i16 sub with saturation (signed).`
VVV_kSubsI16(a, b, d) == Map2(2, a, b, LAMBDA x, y : BSatSS(BSub(BExt(x, 4, TRUE), BExt(y, 4, TRUE)), 2))
\* `Vector u16 sub with saturation (unsigned).`
VVV_kSubsU16(a, b, d) == Map2(2, a, b, LAMBDA x, y : BSatSU(BSub(BExt(x, 4, FALSE), BExt(y, 4, FALSE)), 2))
\* `Vector u16 multiply.`
VVV_kMulU16(a, b, d) == Map2(2, a, b, LAMBDA x, y : BMul(x, y))
\* `Vector u32 multiply.`
VVV_kMulU32(a, b, d) == Map2(4, a, b, LAMBDA x, y : BMul(x, y))
\* `Vector u64 multiply.`
VVV_kMulU64(a, b, d) == Map2(8, a, b, LAMBDA x, y : BMul(x, y))
\* `Vector i16 multiply high - `dst = (src1 * src2) >> 16`.`
VVV_kMulhI16(a, b, d) == Map2(2, a, b, LAMBDA x, y : BSlice(BMulWide(x, y, TRUE), 2, 2))
\* `Vector u16 multiply high - `dst = (src1 * src2) >> 16`.`
VVV_kMulhU16(a, b, d) == Map2(2, a, b, LAMBDA x, y : BSlice(BMulWide(x, y, FALSE), 2, 2))
\* `Vector u64xu32 multiply.`
VVV_kMulU64_LoU32(a, b, d) == Map2(8, a, b, LAMBDA x, y : BMul(x, BZExt(BTrunc(y, 4), 8)))
\* `Vector i16 multiply with horizontal widening add to form a 32-bit result.`
VVV_kMHAddI16_I32(a, b, d) == Map2(4, a, b, LAMBDA x, y : BAdd(BMulWide(BTrunc(x, 2), BTrunc(y, 2), TRUE), BMulWide(BSlice(x, 2, 2), BSlice(y, 2, 2), TRUE)))
\* `Vector i8  minimum.`
VVV_kMinI8(a, b, d) == Map2(1, a, b, LAMBDA x, y : BMin(x, y, TRUE))
\* `Vector u8  minimum.`
VVV_kMinU8(a, b, d) == Map2(1, a, b, LAMBDA x, y : BMin(x, y, FALSE))
\* `Vector i16 minimum.`
VVV_kMinI16(a, b, d) == Map2(2, a, b, LAMBDA x, y : BMin(x, y, TRUE))
\* `Vector u16 minimum.`
VVV_kMinU16(a, b, d) == Map2(2, a, b, LAMBDA x, y : BMin(x, y, FALSE))
\* `Vector i32 minimum.`
VVV_kMinI32(a, b, d) == Map2(4, a, b, LAMBDA x, y : BMin(x, y, TRUE))
\* `Vector u32 minimum.`
VVV_kMinU32(a, b, d) == Map2(4, a, b, LAMBDA x, y : BMin(x, y, FALSE))
\* `Vector i64 minimum.`
VVV_kMinI64(a, b, d) == Map2(8, a, b, LAMBDA x, y : BMin(x, y, TRUE))
\* `Vector u64 minimum.`
VVV_kMinU64(a, b, d) == Map2(8, a, b, LAMBDA x, y : BMin(x, y, FALSE))
\* `Vector i8  maximum.`
VVV_kMaxI8(a, b, d) == Map2(1, a, b, LAMBDA x, y : BMax(x, y, TRUE))
\* `Vector u8  maximum.`
VVV_kMaxU8(a, b, d) == Map2(1, a, b, LAMBDA x, y : BMax(x, y, FALSE))
\* `Vector i16 maximum.`
VVV_kMaxI16(a, b, d) == Map2(2, a, b, LAMBDA x, y : BMax(x, y, TRUE))
\* `Vector u16 maximum.`
VVV_kMaxU16(a, b, d) == Map2(2, a, b, LAMBDA x, y : BMax(x, y, FALSE))
\* `Vector i32 maximum.`
VVV_kMaxI32(a, b, d) == Map2(4, a, b, LAMBDA x, y : BMax(x, y, TRUE))
\* `Vector u32 maximum.`
VVV_kMaxU32(a, b, d) == Map2(4, a, b, LAMBDA x, y : BMax(x, y, FALSE))
\* `Vector i64 maximum.`
VVV_kMaxI64(a, b, d) == Map2(8, a, b, LAMBDA x, y : BMax(x, y, TRUE))
\* `Vector u64 maximum.`
VVV_kMaxU64(a, b, d) == Map2(8, a, b, LAMBDA x, y : BMax(x, y, FALSE))
\* `Vector u8  compare equal.`
VVV_kCmpEqU8(a, b, d) == Map2(1, a, b, LAMBDA x, y : BMask(x = y, 1))
\* `Vector u16 compare equal.`
VVV_kCmpEqU16(a, b, d) == Map2(2, a, b, LAMBDA x, y : BMask(x = y, 2))
\* `Vector u32 compare equal.`
VVV_kCmpEqU32(a, b, d) == Map2(4, a, b, LAMBDA x, y : BMask(x = y, 4))
\* `Vector u64 compare equal.`
VVV_kCmpEqU64(a, b, d) == Map2(8, a, b, LAMBDA x, y : BMask(x = y, 8))
\* `Vector i8  compare greater-than.`
VVV_kCmpGtI8(a, b, d) == Map2(1, a, b, LAMBDA x, y : BMask(BLt(y, x, TRUE), 1))
\* `Vector u8  compare greater-than.`
VVV_kCmpGtU8(a, b, d) == Map2(1, a, b, LAMBDA x, y : BMask(BLt(y, x, FALSE), 1))
\* `Vector i16 compare greater-than.`
VVV_kCmpGtI16(a, b, d) == Map2(2, a, b, LAMBDA x, y : BMask(BLt(y, x, TRUE), 2))
\* `Vector u16 compare greater-than.`
VVV_kCmpGtU16(a, b, d) == Map2(2, a, b, LAMBDA x, y : BMask(BLt(y, x, FALSE), 2))
\* `Vector i32 compare greater-than.`
VVV_kCmpGtI32(a, b, d) == Map2(4, a, b, LAMBDA x, y : BMask(BLt(y, x, TRUE), 4))
\* `Vector u32 compare greater-than.`
VVV_kCmpGtU32(a, b, d) == Map2(4, a, b, LAMBDA x, y : BMask(BLt(y, x, FALSE), 4))
\* `Vector i64 compare greater-than.`
VVV_kCmpGtI64(a, b, d) == Map2(8, a, b, LAMBDA x, y : BMask(BLt(y, x, TRUE), 8))
\* `Vector u64 compare greater-than.`
VVV_kCmpGtU64(a, b, d) == Map2(8, a, b, LAMBDA x, y : BMask(BLt(y, x, FALSE), 8))
\* `Vector i8  compare greater-or-equal.`
VVV_kCmpGeI8(a, b, d) == Map2(1, a, b, LAMBDA x, y : BMask(BLe(y, x, TRUE), 1))
\* `Vector u8  compare greater-or-equal.`
VVV_kCmpGeU8(a, b, d) == Map2(1, a, b, LAMBDA x, y : BMask(BLe(y, x, FALSE), 1))
\* `Vector i16 compare greater-or-equal.`
VVV_kCmpGeI16(a, b, d) == Map2(2, a, b, LAMBDA x, y : BMask(BLe(y, x, TRUE), 2))
\* `Vector u16 compare greater-or-equal.`
VVV_kCmpGeU16(a, b, d) == Map2(2, a, b, LAMBDA x, y : BMask(BLe(y, x, FALSE), 2))
\* `Vector i32 compare greater-or-equal.`
VVV_kCmpGeI32(a, b, d) == Map2(4, a, b, LAMBDA x, y : BMask(BLe(y, x, TRUE), 4))
\* `Vector u32 compare greater-or-equal.`
VVV_kCmpGeU32(a, b, d) == Map2(4, a, b, LAMBDA x, y : BMask(BLe(y, x, FALSE), 4))
\* `Vector i64 compare greater-or-equal.`
VVV_kCmpGeI64(a, b, d) == Map2(8, a, b, LAMBDA x, y : BMask(BLe(y, x, TRUE), 8))
\* `Vector u64 compare greater-or-equal.`
VVV_kCmpGeU64(a, b, d) == Map2(8, a, b, LAMBDA x, y : BMask(BLe(y, x, FALSE), 8))
\* `Vector i8  compare lesser-than.`
VVV_kCmpLtI8(a, b, d) == Map2(1, a, b, LAMBDA x, y : BMask(BLt(x, y, TRUE), 1))
\* `Vector u8  compare lesser-than.`
VVV_kCmpLtU8(a, b, d) == Map2(1, a, b, LAMBDA x, y : BMask(BLt(x, y, FALSE), 1))
\* `Vector i16 compare lesser-than.`
VVV_kCmpLtI16(a, b, d) == Map2(2, a, b, LAMBDA x, y : BMask(BLt(x, y, TRUE), 2))
\* `Vector u16 compare lesser-than.`
VVV_kCmpLtU16(a, b, d) == Map2(2, a, b, LAMBDA x, y : BMask(BLt(x, y, FALSE), 2))
\* `Vector i32 compare lesser-than.`
VVV_kCmpLtI32(a, b, d) == Map2(4, a, b, LAMBDA x, y : BMask(BLt(x, y, TRUE), 4))
\* `Vector u32 compare lesser-than.`
VVV_kCmpLtU32(a, b, d) == Map2(4, a, b, LAMBDA x, y : BMask(BLt(x, y, FALSE), 4))
\* `Vector i64 compare lesser-than.`
VVV_kCmpLtI64(a, b, d) == Map2(8, a, b, LAMBDA x, y : BMask(BLt(x, y, TRUE), 8))
\* `Vector u64 compare lesser-than.`
VVV_kCmpLtU64(a, b, d) == Map2(8, a, b, LAMBDA x, y : BMask(BLt(x, y, FALSE), 8))
\* `Vector i8  compare lesser-or-equal.`
VVV_kCmpLeI8(a, b, d) == Map2(1, a, b, LAMBDA x, y : BMask(BLe(x, y, TRUE), 1))
\* `Vector u8  compare lesser-or-equal.`
VVV_kCmpLeU8(a, b, d) == Map2(1, a, b, LAMBDA x, y : BMask(BLe(x, y, FALSE), 1))
\* `Vector i16 compare lesser-or-equal.`
VVV_kCmpLeI16(a, b, d) == Map2(2, a, b, LAMBDA x, y : BMask(BLe(x, y, TRUE), 2))
\* `Vector u16 compare lesser-or-equal.`
VVV_kCmpLeU16(a, b, d) == Map2(2, a, b, LAMBDA x, y : BMask(BLe(x, y, FALSE), 2))
\* `Vector i32 compare lesser-or-equal.`
VVV_kCmpLeI32(a, b, d) == Map2(4, a, b, LAMBDA x, y : BMask(BLe(x, y, TRUE), 4))
\* `Vector u32 compare lesser-or-equal.`
VVV_kCmpLeU32(a, b, d) == Map2(4, a, b, LAMBDA x, y : BMask(BLe(x, y, FALSE), 4))
\* `Vector i64 compare lesser-or-equal.`
VVV_kCmpLeI64(a, b, d) == Map2(8, a, b, LAMBDA x, y : BMask(BLe(x, y, TRUE), 8))
\* `Vector u64 compare lesser-or-equal.`
VVV_kCmpLeU64(a, b, d) == Map2(8, a, b, LAMBDA x, y : BMask(BLe(x, y, FALSE), 8))
\* `Vector f32 bitwise AND  - `dst = src1 & src2`.`
VVV_kAndF32(a, b, d) == BAnd(a, b)
\* `Vector f64 bitwise AND  - `dst = src1 & src2`.`
VVV_kAndF64(a, b, d) == BAnd(a, b)
\* `Vector f32 bitwise OR   - `dst = src1 | src2`.`
VVV_kOrF32(a, b, d) == BOr(a, b)
\* `Vector f64 bitwise OR   - `dst = src1 | src2`.`
VVV_kOrF64(a, b, d) == BOr(a, b)
\* `Vector f32 bitwise XOR  - `dst = src1 ^ src2`.`
VVV_kXorF32(a, b, d) == BXor(a, b)
\* `Vector f64 bitwise XOR  - `dst = src1 ^ src2`.`
VVV_kXorF64(a, b, d) == BXor(a, b)
\* `Vector f32 bitwise ANDN - `dst = ~src1 & src2`.`
VVV_kAndnF32(a, b, d) == BAnd(BNot(a), b)
\* `Vector f64 bitwise ANDN - `dst = ~src1 & src2`.`
VVV_kAndnF64(a, b, d) == BAnd(BNot(a), b)
\* `Vector f32 bitwise BIC  - `dst = src1 & ~src2`.`
VVV_kBicF32(a, b, d) == BAnd(a, BNot(b))
\* `Vector f64 bitwise BIC  - `dst = src1 & ~src2`.`
VVV_kBicF64(a, b, d) == BAnd(a, BNot(b))
\* `Scalar f32 add.`
VVV_kAddF32S(a, b, d) == Scalar(4, Len(a), FAddI(Lane(a, 4, 0), Lane(b, 4, 0), FmtOf(4)))
\* `Scalar f64 add.`
VVV_kAddF64S(a, b, d) == Scalar(8, Len(a), FAddI(Lane(a, 8, 0), Lane(b, 8, 0), FmtOf(8)))
\* `Vector f32 add.`
VVV_kAddF32(a, b, d) == Map2(4, a, b, LAMBDA x, y : FAddI(x, y, FmtOf(4)))
\* `Vector f64 add.`
VVV_kAddF64(a, b, d) == Map2(8, a, b, LAMBDA x, y : FAddI(x, y, FmtOf(8)))
\* `Scalar f32 sub.`
VVV_kSubF32S(a, b, d) == Scalar(4, Len(a), FSubI(Lane(a, 4, 0), Lane(b, 4, 0), FmtOf(4)))
\* `Scalar f64 sub.`
VVV_kSubF64S(a, b, d) == Scalar(8, Len(a), FSubI(Lane(a, 8, 0), Lane(b, 8, 0), FmtOf(8)))
\* `Vector f32 sub.`
VVV_kSubF32(a, b, d) == Map2(4, a, b, LAMBDA x, y : FSubI(x, y, FmtOf(4)))
\* `Vector f64 sub.`
VVV_kSubF64(a, b, d) == Map2(8, a, b, LAMBDA x, y : FSubI(x, y, FmtOf(8)))
\* `Scalar f32 mul.`
VVV_kMulF32S(a, b, d) == Scalar(4, Len(a), FMulI(Lane(a, 4, 0), Lane(b, 4, 0), FmtOf(4)))
\* `Scalar f64 mul.`
VVV_kMulF64S(a, b, d) == Scalar(8, Len(a), FMulI(Lane(a, 8, 0), Lane(b, 8, 0), FmtOf(8)))
\* `Vector f32 mul.`
VVV_kMulF32(a, b, d) == Map2(4, a, b, LAMBDA x, y : FMulI(x, y, FmtOf(4)))
\* `Vector f64 mul.`
VVV_kMulF64(a, b, d) == Map2(8, a, b, LAMBDA x, y : FMulI(x, y, FmtOf(8)))
\* `Scalar f32 div.`
VVV_kDivF32S(a, b, d) == Scalar(4, Len(a), FDivI(Lane(a, 4, 0), Lane(b, 4, 0), FmtOf(4)))
\* `Scalar f64 div.`
VVV_kDivF64S(a, b, d) == Scalar(8, Len(a), FDivI(Lane(a, 8, 0), Lane(b, 8, 0), FmtOf(8)))
\* `Vector f32 div.`
VVV_kDivF32(a, b, d) == Map2(4, a, b, LAMBDA x, y : FDivI(x, y, FmtOf(4)))
\* `Vector f64 div.`
VVV_kDivF64(a, b, d) == Map2(8, a, b, LAMBDA x, y : FDivI(x, y, FmtOf(8)))
\* `Scalar f32 modulo.`
VVV_kModF32S(a, b, d) == Scalar(4, Len(a), FModI(Lane(a, 4, 0), Lane(b, 4, 0), FmtOf(4)))
\* `Scalar f64 modulo.`
VVV_kModF64S(a, b, d) == Scalar(8, Len(a), FModI(Lane(a, 8, 0), Lane(b, 8, 0), FmtOf(8)))
\* `Vector f32 modulo.`
VVV_kModF32(a, b, d) == Map2(4, a, b, LAMBDA x, y : FModI(x, y, FmtOf(4)))
\* `Vector f64 modulo.`
VVV_kModF64(a, b, d) == Map2(8, a, b, LAMBDA x, y : FModI(x, y, FmtOf(8)))
\* `Scalar f32 minimum.`
VVV_kMinF32S(a, b, d) == Scalar(4, Len(a), FMinT(Lane(a, 4, 0), Lane(b, 4, 0), FmtOf(4)))
\* `Scalar f64 minimum.`
VVV_kMinF64S(a, b, d) == Scalar(8, Len(a), FMinT(Lane(a, 8, 0), Lane(b, 8, 0), FmtOf(8)))
\* `Vector f32 minimum.`
VVV_kMinF32(a, b, d) == Map2(4, a, b, LAMBDA x, y : FMinT(x, y, FmtOf(4)))
\* `Vector f64 minimum.`
VVV_kMinF64(a, b, d) == Map2(8, a, b, LAMBDA x, y : FMinT(x, y, FmtOf(8)))
\* `Scalar f32 maximum.`
VVV_kMaxF32S(a, b, d) == Scalar(4, Len(a), FMaxT(Lane(a, 4, 0), Lane(b, 4, 0), FmtOf(4)))
\* `Scalar f64 maximum.`
VVV_kMaxF64S(a, b, d) == Scalar(8, Len(a), FMaxT(Lane(a, 8, 0), Lane(b, 8, 0), FmtOf(8)))
\* `Vector f32 maximum.`
VVV_kMaxF32(a, b, d) == Map2(4, a, b, LAMBDA x, y : FMaxT(x, y, FmtOf(4)))
\* `Vector f64 maximum.`
VVV_kMaxF64(a, b, d) == Map2(8, a, b, LAMBDA x, y : FMaxT(x, y, FmtOf(8)))
\* `Scalar f32 compare equal (ordered).`
VVV_kCmpEqF32S(a, b, d) == Scalar(4, Len(a), LET x == Lane(a, 4, 0) y == Lane(b, 4, 0) IN BMask(FEq(x, y, FmtOf(4)), 4))
\* `Scalar f64 compare equal (ordered).`
VVV_kCmpEqF64S(a, b, d) == Scalar(8, Len(a), LET x == Lane(a, 8, 0) y == Lane(b, 8, 0) IN BMask(FEq(x, y, FmtOf(8)), 8))
\* `Vector f32 compare equal (ordered).`
VVV_kCmpEqF32(a, b, d) == Map2(4, a, b, LAMBDA x, y : BMask(FEq(x, y, FmtOf(4)), 4))
\* `Vector f64 compare equal (ordered).`
VVV_kCmpEqF64(a, b, d) == Map2(8, a, b, LAMBDA x, y : BMask(FEq(x, y, FmtOf(8)), 8))
\* `Scalar f32 compare not-equal (ordered)`
VVV_kCmpNeF32S(a, b, d) == Scalar(4, Len(a), LET x == Lane(a, 4, 0) y == Lane(b, 4, 0) IN BMask(~FEq(x, y, FmtOf(4)), 4))
\* `Scalar f64 compare not-equal (ordered)`
VVV_kCmpNeF64S(a, b, d) == Scalar(8, Len(a), LET x == Lane(a, 8, 0) y == Lane(b, 8, 0) IN BMask(~FEq(x, y, FmtOf(8)), 8))
\* `Vector f32 compare not-equal (ordered)`
VVV_kCmpNeF32(a, b, d) == Map2(4, a, b, LAMBDA x, y : BMask(~FEq(x, y, FmtOf(4)), 4))
\* `Vector f64 compare not-equal (ordered)`
VVV_kCmpNeF64(a, b, d) == Map2(8, a, b, LAMBDA x, y : BMask(~FEq(x, y, FmtOf(8)), 8))
\* `Scalar f32 compare greater-than (ordered)`
VVV_kCmpGtF32S(a, b, d) == Scalar(4, Len(a), LET x == Lane(a, 4, 0) y == Lane(b, 4, 0) IN BMask(FLt(y, x, FmtOf(4)), 4))
\* `Scalar f64 compare greater-than (ordered)`
VVV_kCmpGtF64S(a, b, d) == Scalar(8, Len(a), LET x == Lane(a, 8, 0) y == Lane(b, 8, 0) IN BMask(FLt(y, x, FmtOf(8)), 8))
\* `Vector f32 compare greater-than (ordered)`
VVV_kCmpGtF32(a, b, d) == Map2(4, a, b, LAMBDA x, y : BMask(FLt(y, x, FmtOf(4)), 4))
\* `Vector f64 compare greater-than (ordered)`
VVV_kCmpGtF64(a, b, d) == Map2(8, a, b, LAMBDA x, y : BMask(FLt(y, x, FmtOf(8)), 8))
\* `Scalar f32 compare greater-or-equal (ordered)`
VVV_kCmpGeF32S(a, b, d) == Scalar(4, Len(a), LET x == Lane(a, 4, 0) y == Lane(b, 4, 0) IN BMask(FLe(y, x, FmtOf(4)), 4))
\* `Scalar f64 compare greater-or-equal (ordered)`
VVV_kCmpGeF64S(a, b, d) == Scalar(8, Len(a), LET x == Lane(a, 8, 0) y == Lane(b, 8, 0) IN BMask(FLe(y, x, FmtOf(8)), 8))
\* `Vector f32 compare greater-or-equal (ordered)`
VVV_kCmpGeF32(a, b, d) == Map2(4, a, b, LAMBDA x, y : BMask(FLe(y, x, FmtOf(4)), 4))
\* `Vector f64 compare greater-or-equal (ordered)`
VVV_kCmpGeF64(a, b, d) == Map2(8, a, b, LAMBDA x, y : BMask(FLe(y, x, FmtOf(8)), 8))
\* `Scalar f32 compare lesser-than (ordered)`
VVV_kCmpLtF32S(a, b, d) == Scalar(4, Len(a), LET x == Lane(a, 4, 0) y == Lane(b, 4, 0) IN BMask(FLt(x, y, FmtOf(4)), 4))
\* `Scalar f64 compare lesser-than (ordered)`
VVV_kCmpLtF64S(a, b, d) == Scalar(8, Len(a), LET x == Lane(a, 8, 0) y == Lane(b, 8, 0) IN BMask(FLt(x, y, FmtOf(8)), 8))
\* `Vector f32 compare lesser-than (ordered)`
VVV_kCmpLtF32(a, b, d) == Map2(4, a, b, LAMBDA x, y : BMask(FLt(x, y, FmtOf(4)), 4))
\* `Vector f64 compare lesser-than (ordered)`
VVV_kCmpLtF64(a, b, d) == Map2(8, a, b, LAMBDA x, y : BMask(FLt(x, y, FmtOf(8)), 8))
\* `Scalar f32 compare lesser-or-equal (ordered)`
VVV_kCmpLeF32S(a, b, d) == Scalar(4, Len(a), LET x == Lane(a, 4, 0) y == Lane(b, 4, 0) IN BMask(FLe(x, y, FmtOf(4)), 4))
\* `Scalar f64 compare lesser-or-equal (ordered)`
VVV_kCmpLeF64S(a, b, d) == Scalar(8, Len(a), LET x == Lane(a, 8, 0) y == Lane(b, 8, 0) IN BMask(FLe(x, y, FmtOf(8)), 8))
\* `Vector f32 compare lesser-or-equal (ordered)`
VVV_kCmpLeF32(a, b, d) == Map2(4, a, b, LAMBDA x, y : BMask(FLe(x, y, FmtOf(4)), 4))
\* `Vector f64 compare lesser-or-equal (ordered)`
VVV_kCmpLeF64(a, b, d) == Map2(8, a, b, LAMBDA x, y : BMask(FLe(x, y, FmtOf(8)), 8))
\* `Scalar f32 compare ordered.`
VVV_kCmpOrdF32S(a, b, d) == Scalar(4, Len(a), LET x == Lane(a, 4, 0) y == Lane(b, 4, 0) IN BMask(~FUnord(x, y, FmtOf(4)), 4))
\* `Scalar f64 compare ordered.`
VVV_kCmpOrdF64S(a, b, d) == Scalar(8, Len(a), LET x == Lane(a, 8, 0) y == Lane(b, 8, 0) IN BMask(~FUnord(x, y, FmtOf(8)), 8))
\* `Vector f32 compare ordered.`
VVV_kCmpOrdF32(a, b, d) == Map2(4, a, b, LAMBDA x, y : BMask(~FUnord(x, y, FmtOf(4)), 4))
\* `Vector f64 compare ordered.`
VVV_kCmpOrdF64(a, b, d) == Map2(8, a, b, LAMBDA x, y : BMask(~FUnord(x, y, FmtOf(8)), 8))
\* `Scalar f32 compare unordered.`
VVV_kCmpUnordF32S(a, b, d) == Scalar(4, Len(a), LET x == Lane(a, 4, 0) y == Lane(b, 4, 0) IN BMask(FUnord(x, y, FmtOf(4)), 4))
\* `Scalar f64 compare unordered.`
VVV_kCmpUnordF64S(a, b, d) == Scalar(8, Len(a), LET x == Lane(a, 8, 0) y == Lane(b, 8, 0) IN BMask(FUnord(x, y, FmtOf(8)), 8))
\* `Vector f32 compare unordered.`
VVV_kCmpUnordF32(a, b, d) == Map2(4, a, b, LAMBDA x, y : BMask(FUnord(x, y, FmtOf(4)), 4))
\* `Vector f64 compare unordered.`
VVV_kCmpUnordF64(a, b, d) == Map2(8, a, b, LAMBDA x, y : BMask(FUnord(x, y, FmtOf(8)), 8))
\* `Vector f64 horizontal-add.`
VVV_kHAddF64(a, b, d) == Blocks2(a, b, LAMBDA x, y : FAddI(Lane(x, 8, 0), Lane(x, 8, 1), F64) \o FAddI(Lane(y, 8, 0), Lane(y, 8, 1), F64))
\* `Combine low and high u64 lanes.`
VVV_kCombineLoHiU64(a, b, d) == Blocks2(a, b, LAMBDA x, y : Lane(y, 8, 1) \o Lane(x, 8, 0))
\* `Combine low and high f64 lanes.`
VVV_kCombineLoHiF64(a, b, d) == Blocks2(a, b, LAMBDA x, y : Lane(y, 8, 1) \o Lane(x, 8, 0))
\* `Combine low and high u64 lanes.`
VVV_kCombineHiLoU64(a, b, d) == Blocks2(a, b, LAMBDA x, y : Lane(y, 8, 0) \o Lane(x, 8, 1))
\* `Combine low and high f64 lanes.`
VVV_kCombineHiLoF64(a, b, d) == Blocks2(a, b, LAMBDA x, y : Lane(y, 8, 0) \o Lane(x, 8, 1))
\* `Interleave low  u8  lanes.`
VVV_kInterleaveLoU8(a, b, d) == Blocks2(a, b, LAMBDA x, y : Interleave(x, y, 1, FALSE))
\* `Interleave high u8  lanes.`
VVV_kInterleaveHiU8(a, b, d) == Blocks2(a, b, LAMBDA x, y : Interleave(x, y, 1, TRUE))
\* `Interleave low  u16 lanes.`
VVV_kInterleaveLoU16(a, b, d) == Blocks2(a, b, LAMBDA x, y : Interleave(x, y, 2, FALSE))
\* `Interleave high u16 lanes.`
VVV_kInterleaveHiU16(a, b, d) == Blocks2(a, b, LAMBDA x, y : Interleave(x, y, 2, TRUE))
\* `Interleave low  u32 lanes.`
VVV_kInterleaveLoU32(a, b, d) == Blocks2(a, b, LAMBDA x, y : Interleave(x, y, 4, FALSE))
\* `Interleave high u32 lanes.`
VVV_kInterleaveHiU32(a, b, d) == Blocks2(a, b, LAMBDA x, y : Interleave(x, y, 4, TRUE))
\* `Interleave low  u64 lanes.`
VVV_kInterleaveLoU64(a, b, d) == Blocks2(a, b, LAMBDA x, y : Interleave(x, y, 8, FALSE))
\* `Interleave high u64 lanes.`
VVV_kInterleaveHiU64(a, b, d) == Blocks2(a, b, LAMBDA x, y : Interleave(x, y, 8, TRUE))
\* `Interleave low  f32 lanes.`
VVV_kInterleaveLoF32(a, b, d) == Blocks2(a, b, LAMBDA x, y : Interleave(x, y, 4, FALSE))
\* `Interleave high f32 lanes.`
VVV_kInterleaveHiF32(a, b, d) == Blocks2(a, b, LAMBDA x, y : Interleave(x, y, 4, TRUE))
\* `Interleave low  f64 lanes.`
VVV_kInterleaveLoF64(a, b, d) == Blocks2(a, b, LAMBDA x, y : Interleave(x, y, 8, FALSE))
\* `Interleave high f64 lanes.`
VVV_kInterleaveHiF64(a, b, d) == Blocks2(a, b, LAMBDA x, y : Interleave(x, y, 8, TRUE))
\* `Pack i16 to i8 with saturation.`
VVV_kPacksI16_I8(a, b, d) == Blocks2(a, b, LAMBDA x, y : PackHalf(x, 2, 1, TRUE) \o PackHalf(y, 2, 1, TRUE))
\* `Pack i16 to u8 with saturation.`
VVV_kPacksI16_U8(a, b, d) == Blocks2(a, b, LAMBDA x, y : PackHalf(x, 2, 1, FALSE) \o PackHalf(y, 2, 1, FALSE))
\* `Pack i32 to i16 with saturation.`
VVV_kPacksI32_I16(a, b, d) == Blocks2(a, b, LAMBDA x, y : PackHalf(x, 4, 2, TRUE) \o PackHalf(y, 4, 2, TRUE))
\* `Pack i32 to u16 with saturation.`
VVV_kPacksI32_U16(a, b, d) == Blocks2(a, b, LAMBDA x, y : PackHalf(x, 4, 2, FALSE) \o PackHalf(y, 4, 2, FALSE))
\* `Swizzle 16xu8 elements in each 128-bit lane.`
VVV_kSwizzlev_U8(a, b, d) == Blocks2(a, b, LAMBDA x, y : Tab([k \in 1..16 |-> IF y[k] >= 128 THEN 0 ELSE x[(y[k] % 16) + 1]]))
\* `Permute u8 elements  across the vector.`
VVV_kPermuteU8(a, b, d) == Gen(1, Len(a) \div 1, LAMBDA i : Lane(b, 1, LowBitsOf(Lane(a, 1, i), Len(a) \div 1)))
\* `Permute u16 elements across the vector.`
VVV_kPermuteU16(a, b, d) == Gen(2, Len(a) \div 2, LAMBDA i : Lane(b, 2, LowBitsOf(Lane(a, 2, i), Len(a) \div 2)))
\* `Permute u32 elements across the vector.`
VVV_kPermuteU32(a, b, d) == Gen(4, Len(a) \div 4, LAMBDA i : Lane(b, 4, LowBitsOf(Lane(a, 4, i), Len(a) \div 4)))
\* `Permute u64 elements across the vector.`
VVV_kPermuteU64(a, b, d) == Gen(8, Len(a) \div 8, LAMBDA i : Lane(b, 8, LowBitsOf(Lane(a, 8, i), Len(a) \div 8)))

(* ---------------------------------------------------------------------------------------------------------------- *)
(* UniOpVVVI                                                                                                        *)
(* ---------------------------------------------------------------------------------------------------------------- *)
\* `Align-right 8-bit elements in 128-bit.`
VVVI_kAlignr_U128(a, b, d, imm) == Blocks2(a, b, LAMBDA x, y : Tab([k \in 1..16 |-> IF k + imm <= 16 THEN y[k + imm] ELSE x[k + imm - 16]]))
\* `Interleaved u32x4 shuffle.`
VVVI_kInterleaveShuffleU32x4(a, b, d, imm) == Blocks2(a, b, LAMBDA x, y : Tab([k \in 1..16 |-> IF k <= 8 THEN x[4 * Sel4(imm, (k - 1) \div 4) + ((k - 1) % 4) + 1] ELSE y[4 * Sel4(imm, (k - 1) \div 4) + ((k - 1) % 4) + 1]]))
\* `Interleaved u64x2 shuffle.`
VVVI_kInterleaveShuffleU64x2(a, b, d, imm) == Blocks2(a, b, LAMBDA x, y : Tab([k \in 1..16 |-> IF k <= 8 THEN x[8 * Sel2(imm, 0) + k] ELSE y[8 * Sel2(imm, 1) + k - 8]]))
\* `Interleaved f32x4 shuffle.`
VVVI_kInterleaveShuffleF32x4(a, b, d, imm) == Blocks2(a, b, LAMBDA x, y : Tab([k \in 1..16 |-> IF k <= 8 THEN x[4 * Sel4(imm, (k - 1) \div 4) + ((k - 1) % 4) + 1] ELSE y[4 * Sel4(imm, (k - 1) \div 4) + ((k - 1) % 4) + 1]]))
\* `Interleaved f64x2 shuffle.`
VVVI_kInterleaveShuffleF64x2(a, b, d, imm) == Blocks2(a, b, LAMBDA x, y : Tab([k \in 1..16 |-> IF k <= 8 THEN x[8 * Sel2(imm, 0) + k] ELSE y[8 * Sel2(imm, 1) + k - 8]]))
\* `Insert a 128-bit lane (u32) into 256-bit or 512-bit vector.`
VVVI_kInsertV128_U32(a, b, d, imm) == Tab([k \in 1..Len(a) |-> IF (k - 1) \div 16 = imm THEN b[((k - 1) % 16) + 1] ELSE a[k]])
\* `Insert a 128-bit lane (f32) into 256-bit or 512-bit vector.`
VVVI_kInsertV128_F32(a, b, d, imm) == Tab([k \in 1..Len(a) |-> IF (k - 1) \div 16 = imm THEN b[((k - 1) % 16) + 1] ELSE a[k]])
\* `Insert a 128-bit lane (u64) into 256-bit or 512-bit vector.`
VVVI_kInsertV128_U64(a, b, d, imm) == Tab([k \in 1..Len(a) |-> IF (k - 1) \div 16 = imm THEN b[((k - 1) % 16) + 1] ELSE a[k]])
\* `Insert a 128-bit lane (f64) into 256-bit or 512-bit vector.`
VVVI_kInsertV128_F64(a, b, d, imm) == Tab([k \in 1..Len(a) |-> IF (k - 1) \div 16 = imm THEN b[((k - 1) % 16) + 1] ELSE a[k]])
\* `Insert a 256-bit lane (u32) into 512-bit vector.`
VVVI_kInsertV256_U32(a, b, d, imm) == Tab([k \in 1..Len(a) |-> IF (k - 1) \div 32 = imm THEN b[((k - 1) % 32) + 1] ELSE a[k]])
\* `Insert a 256-bit lane (f32) into 512-bit vector.`
VVVI_kInsertV256_F32(a, b, d, imm) == Tab([k \in 1..Len(a) |-> IF (k - 1) \div 32 = imm THEN b[((k - 1) % 32) + 1] ELSE a[k]])
\* `Insert a 256-bit lane (u64) into 512-bit vector.`
VVVI_kInsertV256_U64(a, b, d, imm) == Tab([k \in 1..Len(a) |-> IF (k - 1) \div 32 = imm THEN b[((k - 1) % 32) + 1] ELSE a[k]])
\* `Insert a 256-bit lane (f64) into 512-bit vector.`
VVVI_kInsertV256_F64(a, b, d, imm) == Tab([k \in 1..Len(a) |-> IF (k - 1) \div 32 = imm THEN b[((k - 1) % 32) + 1] ELSE a[k]])

(* ---------------------------------------------------------------------------------------------------------------- *)
(* UniOpVVVV                                                                                                        *)
(* ---------------------------------------------------------------------------------------------------------------- *)
\* (no doc comment in uniop.h; semantics of the reference implementation of the repository test)
VVVV_kBlendV_U8(a, b, c, d, fu) == Tab([k \in 1..Len(a) |-> IF c[k] = 255 THEN b[k] ELSE IF c[k] = 0 THEN a[k] ELSE DC])
\* `Vector u16 multiply-add.`
VVVV_kMAddU16(a, b, c, d, fu) == Map3(2, a, b, c, LAMBDA x, y, z : BAdd(BMul(x, y), z))
\* `Vector u32 multiply-add.`
VVVV_kMAddU32(a, b, c, d, fu) == Map3(4, a, b, c, LAMBDA x, y, z : BAdd(BMul(x, y), z))
\* `Scalar f32 multiply-add (FMA if available, or separate MUL+ADD if not).`
VVVV_kMAddF32S(a, b, c, d, fu) == Scalar(4, Len(a), LET p == Lane(a, 4, 0) q == Lane(b, 4, 0) r == Lane(c, 4, 0) IN FMulAddI(p, q, r, FmtOf(4), FALSE, FALSE, fu))
\* `Scalar f64 multiply-add (FMA if available, or separate MUL+ADD if not).`
VVVV_kMAddF64S(a, b, c, d, fu) == Scalar(8, Len(a), LET p == Lane(a, 8, 0) q == Lane(b, 8, 0) r == Lane(c, 8, 0) IN FMulAddI(p, q, r, FmtOf(8), FALSE, FALSE, fu))
\* `Vector f32 multiply-add (FMA if available, or separate MUL+ADD if not).`
VVVV_kMAddF32(a, b, c, d, fu) == Map3(4, a, b, c, LAMBDA p, q, r : FMulAddI(p, q, r, FmtOf(4), FALSE, FALSE, fu))
\* `Vector f64 multiply-add (FMA if available, or separate MUL+ADD if not).`
VVVV_kMAddF64(a, b, c, d, fu) == Map3(8, a, b, c, LAMBDA p, q, r : FMulAddI(p, q, r, FmtOf(8), FALSE, FALSE, fu))
\* `Scalar f32 multiply-sub (FMA if available, or separate MUL+ADD if not).`
VVVV_kMSubF32S(a, b, c, d, fu) == Scalar(4, Len(a), LET p == Lane(a, 4, 0) q == Lane(b, 4, 0) r == Lane(c, 4, 0) IN FMulAddI(p, q, r, FmtOf(4), FALSE, TRUE, fu))
\* `Scalar f64 multiply-sub (FMA if available, or separate MUL+ADD if not).`
VVVV_kMSubF64S(a, b, c, d, fu) == Scalar(8, Len(a), LET p == Lane(a, 8, 0) q == Lane(b, 8, 0) r == Lane(c, 8, 0) IN FMulAddI(p, q, r, FmtOf(8), FALSE, TRUE, fu))
\* `Vector f32 multiply-sub (FMA if available, or separate MUL+ADD if not).`
VVVV_kMSubF32(a, b, c, d, fu) == Map3(4, a, b, c, LAMBDA p, q, r : FMulAddI(p, q, r, FmtOf(4), FALSE, TRUE, fu))
\* `Vector f64 multiply-sub (FMA if available, or separate MUL+ADD if not).`
VVVV_kMSubF64(a, b, c, d, fu) == Map3(8, a, b, c, LAMBDA p, q, r : FMulAddI(p, q, r, FmtOf(8), FALSE, TRUE, fu))
\* `Scalar f32 negated-multiply-add (FMA if available, or separate MUL+ADD if not)`
VVVV_kNMAddF32S(a, b, c, d, fu) == Scalar(4, Len(a), LET p == Lane(a, 4, 0) q == Lane(b, 4, 0) r == Lane(c, 4, 0) IN FMulAddI(p, q, r, FmtOf(4), TRUE, FALSE, fu))
\* `Scalar f64 negated-multiply-add (FMA if available, or separate MUL+ADD if not)`
VVVV_kNMAddF64S(a, b, c, d, fu) == Scalar(8, Len(a), LET p == Lane(a, 8, 0) q == Lane(b, 8, 0) r == Lane(c, 8, 0) IN FMulAddI(p, q, r, FmtOf(8), TRUE, FALSE, fu))
\* `Vector f32 negated-multiply-add (FMA if available, or separate MUL+ADD if not).`
VVVV_kNMAddF32(a, b, c, d, fu) == Map3(4, a, b, c, LAMBDA p, q, r : FMulAddI(p, q, r, FmtOf(4), TRUE, FALSE, fu))
\* `Vector f64 negated-multiply-add (FMA if available, or separate MUL+ADD if not).`
VVVV_kNMAddF64(a, b, c, d, fu) == Map3(8, a, b, c, LAMBDA p, q, r : FMulAddI(p, q, r, FmtOf(8), TRUE, FALSE, fu))
\* `Scalar f32 negated-multiply-sub (FMA if available, or separate MUL+ADD if not).`
VVVV_kNMSubF32S(a, b, c, d, fu) == Scalar(4, Len(a), LET p == Lane(a, 4, 0) q == Lane(b, 4, 0) r == Lane(c, 4, 0) IN FMulAddI(p, q, r, FmtOf(4), TRUE, TRUE, fu))
\* `Scalar f64 negated-multiply-sub (FMA if available, or separate MUL+ADD if not).`
VVVV_kNMSubF64S(a, b, c, d, fu) == Scalar(8, Len(a), LET p == Lane(a, 8, 0) q == Lane(b, 8, 0) r == Lane(c, 8, 0) IN FMulAddI(p, q, r, FmtOf(8), TRUE, TRUE, fu))
\* `Vector f32 negated-multiply-sub (FMA if available, or separate MUL+ADD if not).`
VVVV_kNMSubF32(a, b, c, d, fu) == Map3(4, a, b, c, LAMBDA p, q, r : FMulAddI(p, q, r, FmtOf(4), TRUE, TRUE, fu))
\* `Vector f64 negated-multiply-sub (FMA if available, or separate MUL+ADD if not).`
VVVV_kNMSubF64(a, b, c, d, fu) == Map3(8, a, b, c, LAMBDA p, q, r : FMulAddI(p, q, r, FmtOf(8), TRUE, TRUE, fu))

EvalVM(op, m, d, idx, W) ==
  CASE op = "kLoad8" -> VM_kLoad8(m, d, idx, W)
    [] op = "kLoad16_U16" -> VM_kLoad16_U16(m, d, idx, W)
    [] op = "kLoad32_U32" -> VM_kLoad32_U32(m, d, idx, W)
    [] op = "kLoad32_F32" -> VM_kLoad32_F32(m, d, idx, W)
    [] op = "kLoad64_U32" -> VM_kLoad64_U32(m, d, idx, W)
    [] op = "kLoad64_U64" -> VM_kLoad64_U64(m, d, idx, W)
    [] op = "kLoad64_F32" -> VM_kLoad64_F32(m, d, idx, W)
    [] op = "kLoad64_F64" -> VM_kLoad64_F64(m, d, idx, W)
    [] op = "kLoad128_U32" -> VM_kLoad128_U32(m, d, idx, W)
    [] op = "kLoad128_U64" -> VM_kLoad128_U64(m, d, idx, W)
    [] op = "kLoad128_F32" -> VM_kLoad128_F32(m, d, idx, W)
    [] op = "kLoad128_F64" -> VM_kLoad128_F64(m, d, idx, W)
    [] op = "kLoad256_U32" -> VM_kLoad256_U32(m, d, idx, W)
    [] op = "kLoad256_U64" -> VM_kLoad256_U64(m, d, idx, W)
    [] op = "kLoad256_F32" -> VM_kLoad256_F32(m, d, idx, W)
    [] op = "kLoad256_F64" -> VM_kLoad256_F64(m, d, idx, W)
    [] op = "kLoad512_U32" -> VM_kLoad512_U32(m, d, idx, W)
    [] op = "kLoad512_U64" -> VM_kLoad512_U64(m, d, idx, W)
    [] op = "kLoad512_F32" -> VM_kLoad512_F32(m, d, idx, W)
    [] op = "kLoad512_F64" -> VM_kLoad512_F64(m, d, idx, W)
    [] op = "kLoadN_U32" -> VM_kLoadN_U32(m, d, idx, W)
    [] op = "kLoadN_U64" -> VM_kLoadN_U64(m, d, idx, W)
    [] op = "kLoadN_F32" -> VM_kLoadN_F32(m, d, idx, W)
    [] op = "kLoadN_F64" -> VM_kLoadN_F64(m, d, idx, W)
    [] op = "kLoadCvt16_U8ToU64" -> VM_kLoadCvt16_U8ToU64(m, d, idx, W)
    [] op = "kLoadCvt32_U8ToU64" -> VM_kLoadCvt32_U8ToU64(m, d, idx, W)
    [] op = "kLoadCvt64_U8ToU64" -> VM_kLoadCvt64_U8ToU64(m, d, idx, W)
    [] op = "kLoadCvt32_I8ToI16" -> VM_kLoadCvt32_I8ToI16(m, d, idx, W)
    [] op = "kLoadCvt32_U8ToU16" -> VM_kLoadCvt32_U8ToU16(m, d, idx, W)
    [] op = "kLoadCvt32_I8ToI32" -> VM_kLoadCvt32_I8ToI32(m, d, idx, W)
    [] op = "kLoadCvt32_U8ToU32" -> VM_kLoadCvt32_U8ToU32(m, d, idx, W)
    [] op = "kLoadCvt32_I16ToI32" -> VM_kLoadCvt32_I16ToI32(m, d, idx, W)
    [] op = "kLoadCvt32_U16ToU32" -> VM_kLoadCvt32_U16ToU32(m, d, idx, W)
    [] op = "kLoadCvt32_I32ToI64" -> VM_kLoadCvt32_I32ToI64(m, d, idx, W)
    [] op = "kLoadCvt32_U32ToU64" -> VM_kLoadCvt32_U32ToU64(m, d, idx, W)
    [] op = "kLoadCvt64_I8ToI16" -> VM_kLoadCvt64_I8ToI16(m, d, idx, W)
    [] op = "kLoadCvt64_U8ToU16" -> VM_kLoadCvt64_U8ToU16(m, d, idx, W)
    [] op = "kLoadCvt64_I8ToI32" -> VM_kLoadCvt64_I8ToI32(m, d, idx, W)
    [] op = "kLoadCvt64_U8ToU32" -> VM_kLoadCvt64_U8ToU32(m, d, idx, W)
    [] op = "kLoadCvt64_I16ToI32" -> VM_kLoadCvt64_I16ToI32(m, d, idx, W)
    [] op = "kLoadCvt64_U16ToU32" -> VM_kLoadCvt64_U16ToU32(m, d, idx, W)
    [] op = "kLoadCvt64_I32ToI64" -> VM_kLoadCvt64_I32ToI64(m, d, idx, W)
    [] op = "kLoadCvt64_U32ToU64" -> VM_kLoadCvt64_U32ToU64(m, d, idx, W)
    [] op = "kLoadCvt128_I8ToI16" -> VM_kLoadCvt128_I8ToI16(m, d, idx, W)
    [] op = "kLoadCvt128_U8ToU16" -> VM_kLoadCvt128_U8ToU16(m, d, idx, W)
    [] op = "kLoadCvt128_I8ToI32" -> VM_kLoadCvt128_I8ToI32(m, d, idx, W)
    [] op = "kLoadCvt128_U8ToU32" -> VM_kLoadCvt128_U8ToU32(m, d, idx, W)
    [] op = "kLoadCvt128_I16ToI32" -> VM_kLoadCvt128_I16ToI32(m, d, idx, W)
    [] op = "kLoadCvt128_U16ToU32" -> VM_kLoadCvt128_U16ToU32(m, d, idx, W)
    [] op = "kLoadCvt128_I32ToI64" -> VM_kLoadCvt128_I32ToI64(m, d, idx, W)
    [] op = "kLoadCvt128_U32ToU64" -> VM_kLoadCvt128_U32ToU64(m, d, idx, W)
    [] op = "kLoadCvt256_I8ToI16" -> VM_kLoadCvt256_I8ToI16(m, d, idx, W)
    [] op = "kLoadCvt256_U8ToU16" -> VM_kLoadCvt256_U8ToU16(m, d, idx, W)
    [] op = "kLoadCvt256_I16ToI32" -> VM_kLoadCvt256_I16ToI32(m, d, idx, W)
    [] op = "kLoadCvt256_U16ToU32" -> VM_kLoadCvt256_U16ToU32(m, d, idx, W)
    [] op = "kLoadCvt256_I32ToI64" -> VM_kLoadCvt256_I32ToI64(m, d, idx, W)
    [] op = "kLoadCvt256_U32ToU64" -> VM_kLoadCvt256_U32ToU64(m, d, idx, W)
    [] op = "kLoadCvtN_U8ToU64" -> VM_kLoadCvtN_U8ToU64(m, d, idx, W)
    [] op = "kLoadCvtN_I8ToI16" -> VM_kLoadCvtN_I8ToI16(m, d, idx, W)
    [] op = "kLoadCvtN_U8ToU16" -> VM_kLoadCvtN_U8ToU16(m, d, idx, W)
    [] op = "kLoadCvtN_I8ToI32" -> VM_kLoadCvtN_I8ToI32(m, d, idx, W)
    [] op = "kLoadCvtN_U8ToU32" -> VM_kLoadCvtN_U8ToU32(m, d, idx, W)
    [] op = "kLoadCvtN_I16ToI32" -> VM_kLoadCvtN_I16ToI32(m, d, idx, W)
    [] op = "kLoadCvtN_U16ToU32" -> VM_kLoadCvtN_U16ToU32(m, d, idx, W)
    [] op = "kLoadCvtN_I32ToI64" -> VM_kLoadCvtN_I32ToI64(m, d, idx, W)
    [] op = "kLoadCvtN_U32ToU64" -> VM_kLoadCvtN_U32ToU64(m, d, idx, W)
    [] op = "kLoadInsertU8" -> VM_kLoadInsertU8(m, d, idx, W)
    [] op = "kLoadInsertU16" -> VM_kLoadInsertU16(m, d, idx, W)
    [] op = "kLoadInsertU32" -> VM_kLoadInsertU32(m, d, idx, W)
    [] op = "kLoadInsertU64" -> VM_kLoadInsertU64(m, d, idx, W)
    [] op = "kLoadInsertF32" -> VM_kLoadInsertF32(m, d, idx, W)
    [] op = "kLoadInsertF32x2" -> VM_kLoadInsertF32x2(m, d, idx, W)
    [] op = "kLoadInsertF64" -> VM_kLoadInsertF64(m, d, idx, W)

EvalMV(op, a, idx, W) ==
  CASE op = "kStore8" -> MV_kStore8(a, idx, W)
    [] op = "kStore16_U16" -> MV_kStore16_U16(a, idx, W)
    [] op = "kStore32_U32" -> MV_kStore32_U32(a, idx, W)
    [] op = "kStore32_F32" -> MV_kStore32_F32(a, idx, W)
    [] op = "kStore64_U32" -> MV_kStore64_U32(a, idx, W)
    [] op = "kStore64_U64" -> MV_kStore64_U64(a, idx, W)
    [] op = "kStore64_F32" -> MV_kStore64_F32(a, idx, W)
    [] op = "kStore64_F64" -> MV_kStore64_F64(a, idx, W)
    [] op = "kStore128_U32" -> MV_kStore128_U32(a, idx, W)
    [] op = "kStore128_U64" -> MV_kStore128_U64(a, idx, W)
    [] op = "kStore128_F32" -> MV_kStore128_F32(a, idx, W)
    [] op = "kStore128_F64" -> MV_kStore128_F64(a, idx, W)
    [] op = "kStore256_U32" -> MV_kStore256_U32(a, idx, W)
    [] op = "kStore256_U64" -> MV_kStore256_U64(a, idx, W)
    [] op = "kStore256_F32" -> MV_kStore256_F32(a, idx, W)
    [] op = "kStore256_F64" -> MV_kStore256_F64(a, idx, W)
    [] op = "kStore512_U32" -> MV_kStore512_U32(a, idx, W)
    [] op = "kStore512_U64" -> MV_kStore512_U64(a, idx, W)
    [] op = "kStore512_F32" -> MV_kStore512_F32(a, idx, W)
    [] op = "kStore512_F64" -> MV_kStore512_F64(a, idx, W)
    [] op = "kStoreN_U32" -> MV_kStoreN_U32(a, idx, W)
    [] op = "kStoreN_U64" -> MV_kStoreN_U64(a, idx, W)
    [] op = "kStoreN_F32" -> MV_kStoreN_F32(a, idx, W)
    [] op = "kStoreN_F64" -> MV_kStoreN_F64(a, idx, W)
    [] op = "kStoreExtractU16" -> MV_kStoreExtractU16(a, idx, W)
    [] op = "kStoreExtractU32" -> MV_kStoreExtractU32(a, idx, W)
    [] op = "kStoreExtractU64" -> MV_kStoreExtractU64(a, idx, W)

EvalVV(op, a, d) ==
  CASE op = "kMov" -> VV_kMov(a, d)
    [] op = "kMovU64" -> VV_kMovU64(a, d)
    [] op = "kBroadcastU8Z" -> VV_kBroadcastU8Z(a, d)
    [] op = "kBroadcastU16Z" -> VV_kBroadcastU16Z(a, d)
    [] op = "kBroadcastU8" -> VV_kBroadcastU8(a, d)
    [] op = "kBroadcastU16" -> VV_kBroadcastU16(a, d)
    [] op = "kBroadcastU32" -> VV_kBroadcastU32(a, d)
    [] op = "kBroadcastU64" -> VV_kBroadcastU64(a, d)
    [] op = "kBroadcastF32" -> VV_kBroadcastF32(a, d)
    [] op = "kBroadcastF64" -> VV_kBroadcastF64(a, d)
    [] op = "kBroadcastV128_U32" -> VV_kBroadcastV128_U32(a, d)
    [] op = "kBroadcastV128_U64" -> VV_kBroadcastV128_U64(a, d)
    [] op = "kBroadcastV128_F32" -> VV_kBroadcastV128_F32(a, d)
    [] op = "kBroadcastV128_F64" -> VV_kBroadcastV128_F64(a, d)
    [] op = "kBroadcastV256_U32" -> VV_kBroadcastV256_U32(a, d)
    [] op = "kBroadcastV256_U64" -> VV_kBroadcastV256_U64(a, d)
    [] op = "kBroadcastV256_F32" -> VV_kBroadcastV256_F32(a, d)
    [] op = "kBroadcastV256_F64" -> VV_kBroadcastV256_F64(a, d)
    [] op = "kAbsI8" -> VV_kAbsI8(a, d)
    [] op = "kAbsI16" -> VV_kAbsI16(a, d)
    [] op = "kAbsI32" -> VV_kAbsI32(a, d)
    [] op = "kAbsI64" -> VV_kAbsI64(a, d)
    [] op = "kNotU32" -> VV_kNotU32(a, d)
    [] op = "kNotU64" -> VV_kNotU64(a, d)
    [] op = "kCvtI8LoToI16" -> VV_kCvtI8LoToI16(a, d)
    [] op = "kCvtI8HiToI16" -> VV_kCvtI8HiToI16(a, d)
    [] op = "kCvtU8LoToU16" -> VV_kCvtU8LoToU16(a, d)
    [] op = "kCvtU8HiToU16" -> VV_kCvtU8HiToU16(a, d)
    [] op = "kCvtI8ToI32" -> VV_kCvtI8ToI32(a, d)
    [] op = "kCvtU8ToU32" -> VV_kCvtU8ToU32(a, d)
    [] op = "kCvtI16LoToI32" -> VV_kCvtI16LoToI32(a, d)
    [] op = "kCvtI16HiToI32" -> VV_kCvtI16HiToI32(a, d)
    [] op = "kCvtU16LoToU32" -> VV_kCvtU16LoToU32(a, d)
    [] op = "kCvtU16HiToU32" -> VV_kCvtU16HiToU32(a, d)
    [] op = "kCvtI32LoToI64" -> VV_kCvtI32LoToI64(a, d)
    [] op = "kCvtI32HiToI64" -> VV_kCvtI32HiToI64(a, d)
    [] op = "kCvtU32LoToU64" -> VV_kCvtU32LoToU64(a, d)
    [] op = "kCvtU32HiToU64" -> VV_kCvtU32HiToU64(a, d)
    [] op = "kAbsF32S" -> VV_kAbsF32S(a, d)
    [] op = "kAbsF64S" -> VV_kAbsF64S(a, d)
    [] op = "kAbsF32" -> VV_kAbsF32(a, d)
    [] op = "kAbsF64" -> VV_kAbsF64(a, d)
    [] op = "kNegF32S" -> VV_kNegF32S(a, d)
    [] op = "kNegF64S" -> VV_kNegF64S(a, d)
    [] op = "kNegF32" -> VV_kNegF32(a, d)
    [] op = "kNegF64" -> VV_kNegF64(a, d)
    [] op = "kNotF32" -> VV_kNotF32(a, d)
    [] op = "kNotF64" -> VV_kNotF64(a, d)
    [] op = "kTruncF32S" -> VV_kTruncF32S(a, d)
    [] op = "kTruncF64S" -> VV_kTruncF64S(a, d)
    [] op = "kTruncF32" -> VV_kTruncF32(a, d)
    [] op = "kTruncF64" -> VV_kTruncF64(a, d)
    [] op = "kFloorF32S" -> VV_kFloorF32S(a, d)
    [] op = "kFloorF64S" -> VV_kFloorF64S(a, d)
    [] op = "kFloorF32" -> VV_kFloorF32(a, d)
    [] op = "kFloorF64" -> VV_kFloorF64(a, d)
    [] op = "kCeilF32S" -> VV_kCeilF32S(a, d)
    [] op = "kCeilF64S" -> VV_kCeilF64S(a, d)
    [] op = "kCeilF32" -> VV_kCeilF32(a, d)
    [] op = "kCeilF64" -> VV_kCeilF64(a, d)
    [] op = "kRoundEvenF32S" -> VV_kRoundEvenF32S(a, d)
    [] op = "kRoundEvenF64S" -> VV_kRoundEvenF64S(a, d)
    [] op = "kRoundEvenF32" -> VV_kRoundEvenF32(a, d)
    [] op = "kRoundEvenF64" -> VV_kRoundEvenF64(a, d)
    [] op = "kRoundHalfAwayF32S" -> VV_kRoundHalfAwayF32S(a, d)
    [] op = "kRoundHalfAwayF64S" -> VV_kRoundHalfAwayF64S(a, d)
    [] op = "kRoundHalfAwayF32" -> VV_kRoundHalfAwayF32(a, d)
    [] op = "kRoundHalfAwayF64" -> VV_kRoundHalfAwayF64(a, d)
    [] op = "kRoundHalfUpF32S" -> VV_kRoundHalfUpF32S(a, d)
    [] op = "kRoundHalfUpF64S" -> VV_kRoundHalfUpF64S(a, d)
    [] op = "kRoundHalfUpF32" -> VV_kRoundHalfUpF32(a, d)
    [] op = "kRoundHalfUpF64" -> VV_kRoundHalfUpF64(a, d)
    [] op = "kRcpF32" -> VV_kRcpF32(a, d)
    [] op = "kRcpF64" -> VV_kRcpF64(a, d)
    [] op = "kSqrtF32S" -> VV_kSqrtF32S(a, d)
    [] op = "kSqrtF64S" -> VV_kSqrtF64S(a, d)
    [] op = "kSqrtF32" -> VV_kSqrtF32(a, d)
    [] op = "kSqrtF64" -> VV_kSqrtF64(a, d)
    [] op = "kCvtF32ToF64S" -> VV_kCvtF32ToF64S(a, d)
    [] op = "kCvtF64ToF32S" -> VV_kCvtF64ToF32S(a, d)
    [] op = "kCvtI32ToF32" -> VV_kCvtI32ToF32(a, d)
    [] op = "kCvtF32LoToF64" -> VV_kCvtF32LoToF64(a, d)
    [] op = "kCvtF32HiToF64" -> VV_kCvtF32HiToF64(a, d)
    [] op = "kCvtF64ToF32Lo" -> VV_kCvtF64ToF32Lo(a, d)
    [] op = "kCvtF64ToF32Hi" -> VV_kCvtF64ToF32Hi(a, d)
    [] op = "kCvtI32LoToF64" -> VV_kCvtI32LoToF64(a, d)
    [] op = "kCvtI32HiToF64" -> VV_kCvtI32HiToF64(a, d)
    [] op = "kCvtTruncF32ToI32" -> VV_kCvtTruncF32ToI32(a, d)
    [] op = "kCvtTruncF64ToI32Lo" -> VV_kCvtTruncF64ToI32Lo(a, d)
    [] op = "kCvtTruncF64ToI32Hi" -> VV_kCvtTruncF64ToI32Hi(a, d)
    [] op = "kCvtRoundF32ToI32" -> VV_kCvtRoundF32ToI32(a, d)
    [] op = "kCvtRoundF64ToI32Lo" -> VV_kCvtRoundF64ToI32Lo(a, d)
    [] op = "kCvtRoundF64ToI32Hi" -> VV_kCvtRoundF64ToI32Hi(a, d)

EvalVVI(op, a, d, imm) ==
  CASE op = "kSllU16" -> VVI_kSllU16(a, d, imm)
    [] op = "kSllU32" -> VVI_kSllU32(a, d, imm)
    [] op = "kSllU64" -> VVI_kSllU64(a, d, imm)
    [] op = "kSrlU16" -> VVI_kSrlU16(a, d, imm)
    [] op = "kSrlU32" -> VVI_kSrlU32(a, d, imm)
    [] op = "kSrlU64" -> VVI_kSrlU64(a, d, imm)
    [] op = "kSraI16" -> VVI_kSraI16(a, d, imm)
    [] op = "kSraI32" -> VVI_kSraI32(a, d, imm)
    [] op = "kSraI64" -> VVI_kSraI64(a, d, imm)
    [] op = "kSllbU128" -> VVI_kSllbU128(a, d, imm)
    [] op = "kSrlbU128" -> VVI_kSrlbU128(a, d, imm)
    [] op = "kSwizzleU16x4" -> VVI_kSwizzleU16x4(a, d, imm)
    [] op = "kSwizzleLoU16x4" -> VVI_kSwizzleLoU16x4(a, d, imm)
    [] op = "kSwizzleHiU16x4" -> VVI_kSwizzleHiU16x4(a, d, imm)
    [] op = "kSwizzleU32x4" -> VVI_kSwizzleU32x4(a, d, imm)
    [] op = "kSwizzleU64x2" -> VVI_kSwizzleU64x2(a, d, imm)
    [] op = "kSwizzleF32x4" -> VVI_kSwizzleF32x4(a, d, imm)
    [] op = "kSwizzleF64x2" -> VVI_kSwizzleF64x2(a, d, imm)
    [] op = "kSwizzleU64x4" -> VVI_kSwizzleU64x4(a, d, imm)
    [] op = "kSwizzleF64x4" -> VVI_kSwizzleF64x4(a, d, imm)
    [] op = "kExtractV128_I32" -> VVI_kExtractV128_I32(a, d, imm)
    [] op = "kExtractV128_I64" -> VVI_kExtractV128_I64(a, d, imm)
    [] op = "kExtractV128_F32" -> VVI_kExtractV128_F32(a, d, imm)
    [] op = "kExtractV128_F64" -> VVI_kExtractV128_F64(a, d, imm)
    [] op = "kExtractV256_I32" -> VVI_kExtractV256_I32(a, d, imm)
    [] op = "kExtractV256_I64" -> VVI_kExtractV256_I64(a, d, imm)
    [] op = "kExtractV256_F32" -> VVI_kExtractV256_F32(a, d, imm)
    [] op = "kExtractV256_F64" -> VVI_kExtractV256_F64(a, d, imm)

EvalVVV(op, a, b, d) ==
  CASE op = "kAndU32" -> VVV_kAndU32(a, b, d)
    [] op = "kAndU64" -> VVV_kAndU64(a, b, d)
    [] op = "kOrU32" -> VVV_kOrU32(a, b, d)
    [] op = "kOrU64" -> VVV_kOrU64(a, b, d)
    [] op = "kXorU32" -> VVV_kXorU32(a, b, d)
    [] op = "kXorU64" -> VVV_kXorU64(a, b, d)
    [] op = "kAndnU32" -> VVV_kAndnU32(a, b, d)
    [] op = "kAndnU64" -> VVV_kAndnU64(a, b, d)
    [] op = "kBicU32" -> VVV_kBicU32(a, b, d)
    [] op = "kBicU64" -> VVV_kBicU64(a, b, d)
    [] op = "kAvgrU8" -> VVV_kAvgrU8(a, b, d)
    [] op = "kAvgrU16" -> VVV_kAvgrU16(a, b, d)
    [] op = "kAddU8" -> VVV_kAddU8(a, b, d)
    [] op = "kAddU16" -> VVV_kAddU16(a, b, d)
    [] op = "kAddU32" -> VVV_kAddU32(a, b, d)
    [] op = "kAddU64" -> VVV_kAddU64(a, b, d)
    [] op = "kSubU8" -> VVV_kSubU8(a, b, d)
    [] op = "kSubU16" -> VVV_kSubU16(a, b, d)
    [] op = "kSubU32" -> VVV_kSubU32(a, b, d)
    [] op = "kSubU64" -> VVV_kSubU64(a, b, d)
    [] op = "kAddsI8" -> VVV_kAddsI8(a, b, d)
    [] op = "kAddsU8" -> VVV_kAddsU8(a, b, d)
    [] op = "kAddsI16" -> VVV_kAddsI16(a, b, d)
    [] op = "kAddsU16" -> VVV_kAddsU16(a, b, d)
    [] op = "kSubsI8" -> VVV_kSubsI8(a, b, d)
    [] op = "kSubsU8" -> VVV_kSubsU8(a, b, d)
    [] op = "kSubsI16" -> VVV_kSubsI16(a, b, d)
    [] op = "kSubsU16" -> VVV_kSubsU16(a, b, d)
    [] op = "kMulU16" -> VVV_kMulU16(a, b, d)
    [] op = "kMulU32" -> VVV_kMulU32(a, b, d)
    [] op = "kMulU64" -> VVV_kMulU64(a, b, d)
    [] op = "kMulhI16" -> VVV_kMulhI16(a, b, d)
    [] op = "kMulhU16" -> VVV_kMulhU16(a, b, d)
    [] op = "kMulU64_LoU32" -> VVV_kMulU64_LoU32(a, b, d)
    [] op = "kMHAddI16_I32" -> VVV_kMHAddI16_I32(a, b, d)
    [] op = "kMinI8" -> VVV_kMinI8(a, b, d)
    [] op = "kMinU8" -> VVV_kMinU8(a, b, d)
    [] op = "kMinI16" -> VVV_kMinI16(a, b, d)
    [] op = "kMinU16" -> VVV_kMinU16(a, b, d)
    [] op = "kMinI32" -> VVV_kMinI32(a, b, d)
    [] op = "kMinU32" -> VVV_kMinU32(a, b, d)
    [] op = "kMinI64" -> VVV_kMinI64(a, b, d)
    [] op = "kMinU64" -> VVV_kMinU64(a, b, d)
    [] op = "kMaxI8" -> VVV_kMaxI8(a, b, d)
    [] op = "kMaxU8" -> VVV_kMaxU8(a, b, d)
    [] op = "kMaxI16" -> VVV_kMaxI16(a, b, d)
    [] op = "kMaxU16" -> VVV_kMaxU16(a, b, d)
    [] op = "kMaxI32" -> VVV_kMaxI32(a, b, d)
    [] op = "kMaxU32" -> VVV_kMaxU32(a, b, d)
    [] op = "kMaxI64" -> VVV_kMaxI64(a, b, d)
    [] op = "kMaxU64" -> VVV_kMaxU64(a, b, d)
    [] op = "kCmpEqU8" -> VVV_kCmpEqU8(a, b, d)
    [] op = "kCmpEqU16" -> VVV_kCmpEqU16(a, b, d)
    [] op = "kCmpEqU32" -> VVV_kCmpEqU32(a, b, d)
    [] op = "kCmpEqU64" -> VVV_kCmpEqU64(a, b, d)
    [] op = "kCmpGtI8" -> VVV_kCmpGtI8(a, b, d)
    [] op = "kCmpGtU8" -> VVV_kCmpGtU8(a, b, d)
    [] op = "kCmpGtI16" -> VVV_kCmpGtI16(a, b, d)
    [] op = "kCmpGtU16" -> VVV_kCmpGtU16(a, b, d)
    [] op = "kCmpGtI32" -> VVV_kCmpGtI32(a, b, d)
    [] op = "kCmpGtU32" -> VVV_kCmpGtU32(a, b, d)
    [] op = "kCmpGtI64" -> VVV_kCmpGtI64(a, b, d)
    [] op = "kCmpGtU64" -> VVV_kCmpGtU64(a, b, d)
    [] op = "kCmpGeI8" -> VVV_kCmpGeI8(a, b, d)
    [] op = "kCmpGeU8" -> VVV_kCmpGeU8(a, b, d)
    [] op = "kCmpGeI16" -> VVV_kCmpGeI16(a, b, d)
    [] op = "kCmpGeU16" -> VVV_kCmpGeU16(a, b, d)
    [] op = "kCmpGeI32" -> VVV_kCmpGeI32(a, b, d)
    [] op = "kCmpGeU32" -> VVV_kCmpGeU32(a, b, d)
    [] op = "kCmpGeI64" -> VVV_kCmpGeI64(a, b, d)
    [] op = "kCmpGeU64" -> VVV_kCmpGeU64(a, b, d)
    [] op = "kCmpLtI8" -> VVV_kCmpLtI8(a, b, d)
    [] op = "kCmpLtU8" -> VVV_kCmpLtU8(a, b, d)
    [] op = "kCmpLtI16" -> VVV_kCmpLtI16(a, b, d)
    [] op = "kCmpLtU16" -> VVV_kCmpLtU16(a, b, d)
    [] op = "kCmpLtI32" -> VVV_kCmpLtI32(a, b, d)
    [] op = "kCmpLtU32" -> VVV_kCmpLtU32(a, b, d)
    [] op = "kCmpLtI64" -> VVV_kCmpLtI64(a, b, d)
    [] op = "kCmpLtU64" -> VVV_kCmpLtU64(a, b, d)
    [] op = "kCmpLeI8" -> VVV_kCmpLeI8(a, b, d)
    [] op = "kCmpLeU8" -> VVV_kCmpLeU8(a, b, d)
    [] op = "kCmpLeI16" -> VVV_kCmpLeI16(a, b, d)
    [] op = "kCmpLeU16" -> VVV_kCmpLeU16(a, b, d)
    [] op = "kCmpLeI32" -> VVV_kCmpLeI32(a, b, d)
    [] op = "kCmpLeU32" -> VVV_kCmpLeU32(a, b, d)
    [] op = "kCmpLeI64" -> VVV_kCmpLeI64(a, b, d)
    [] op = "kCmpLeU64" -> VVV_kCmpLeU64(a, b, d)
    [] op = "kAndF32" -> VVV_kAndF32(a, b, d)
    [] op = "kAndF64" -> VVV_kAndF64(a, b, d)
    [] op = "kOrF32" -> VVV_kOrF32(a, b, d)
    [] op = "kOrF64" -> VVV_kOrF64(a, b, d)
    [] op = "kXorF32" -> VVV_kXorF32(a, b, d)
    [] op = "kXorF64" -> VVV_kXorF64(a, b, d)
    [] op = "kAndnF32" -> VVV_kAndnF32(a, b, d)
    [] op = "kAndnF64" -> VVV_kAndnF64(a, b, d)
    [] op = "kBicF32" -> VVV_kBicF32(a, b, d)
    [] op = "kBicF64" -> VVV_kBicF64(a, b, d)
    [] op = "kAddF32S" -> VVV_kAddF32S(a, b, d)
    [] op = "kAddF64S" -> VVV_kAddF64S(a, b, d)
    [] op = "kAddF32" -> VVV_kAddF32(a, b, d)
    [] op = "kAddF64" -> VVV_kAddF64(a, b, d)
    [] op = "kSubF32S" -> VVV_kSubF32S(a, b, d)
    [] op = "kSubF64S" -> VVV_kSubF64S(a, b, d)
    [] op = "kSubF32" -> VVV_kSubF32(a, b, d)
    [] op = "kSubF64" -> VVV_kSubF64(a, b, d)
    [] op = "kMulF32S" -> VVV_kMulF32S(a, b, d)
    [] op = "kMulF64S" -> VVV_kMulF64S(a, b, d)
    [] op = "kMulF32" -> VVV_kMulF32(a, b, d)
    [] op = "kMulF64" -> VVV_kMulF64(a, b, d)
    [] op = "kDivF32S" -> VVV_kDivF32S(a, b, d)
    [] op = "kDivF64S" -> VVV_kDivF64S(a, b, d)
    [] op = "kDivF32" -> VVV_kDivF32(a, b, d)
    [] op = "kDivF64" -> VVV_kDivF64(a, b, d)
    [] op = "kModF32S" -> VVV_kModF32S(a, b, d)
    [] op = "kModF64S" -> VVV_kModF64S(a, b, d)
    [] op = "kModF32" -> VVV_kModF32(a, b, d)
    [] op = "kModF64" -> VVV_kModF64(a, b, d)
    [] op = "kMinF32S" -> VVV_kMinF32S(a, b, d)
    [] op = "kMinF64S" -> VVV_kMinF64S(a, b, d)
    [] op = "kMinF32" -> VVV_kMinF32(a, b, d)
    [] op = "kMinF64" -> VVV_kMinF64(a, b, d)
    [] op = "kMaxF32S" -> VVV_kMaxF32S(a, b, d)
    [] op = "kMaxF64S" -> VVV_kMaxF64S(a, b, d)
    [] op = "kMaxF32" -> VVV_kMaxF32(a, b, d)
    [] op = "kMaxF64" -> VVV_kMaxF64(a, b, d)
    [] op = "kCmpEqF32S" -> VVV_kCmpEqF32S(a, b, d)
    [] op = "kCmpEqF64S" -> VVV_kCmpEqF64S(a, b, d)
    [] op = "kCmpEqF32" -> VVV_kCmpEqF32(a, b, d)
    [] op = "kCmpEqF64" -> VVV_kCmpEqF64(a, b, d)
    [] op = "kCmpNeF32S" -> VVV_kCmpNeF32S(a, b, d)
    [] op = "kCmpNeF64S" -> VVV_kCmpNeF64S(a, b, d)
    [] op = "kCmpNeF32" -> VVV_kCmpNeF32(a, b, d)
    [] op = "kCmpNeF64" -> VVV_kCmpNeF64(a, b, d)
    [] op = "kCmpGtF32S" -> VVV_kCmpGtF32S(a, b, d)
    [] op = "kCmpGtF64S" -> VVV_kCmpGtF64S(a, b, d)
    [] op = "kCmpGtF32" -> VVV_kCmpGtF32(a, b, d)
    [] op = "kCmpGtF64" -> VVV_kCmpGtF64(a, b, d)
    [] op = "kCmpGeF32S" -> VVV_kCmpGeF32S(a, b, d)
    [] op = "kCmpGeF64S" -> VVV_kCmpGeF64S(a, b, d)
    [] op = "kCmpGeF32" -> VVV_kCmpGeF32(a, b, d)
    [] op = "kCmpGeF64" -> VVV_kCmpGeF64(a, b, d)
    [] op = "kCmpLtF32S" -> VVV_kCmpLtF32S(a, b, d)
    [] op = "kCmpLtF64S" -> VVV_kCmpLtF64S(a, b, d)
    [] op = "kCmpLtF32" -> VVV_kCmpLtF32(a, b, d)
    [] op = "kCmpLtF64" -> VVV_kCmpLtF64(a, b, d)
    [] op = "kCmpLeF32S" -> VVV_kCmpLeF32S(a, b, d)
    [] op = "kCmpLeF64S" -> VVV_kCmpLeF64S(a, b, d)
    [] op = "kCmpLeF32" -> VVV_kCmpLeF32(a, b, d)
    [] op = "kCmpLeF64" -> VVV_kCmpLeF64(a, b, d)
    [] op = "kCmpOrdF32S" -> VVV_kCmpOrdF32S(a, b, d)
    [] op = "kCmpOrdF64S" -> VVV_kCmpOrdF64S(a, b, d)
    [] op = "kCmpOrdF32" -> VVV_kCmpOrdF32(a, b, d)
    [] op = "kCmpOrdF64" -> VVV_kCmpOrdF64(a, b, d)
    [] op = "kCmpUnordF32S" -> VVV_kCmpUnordF32S(a, b, d)
    [] op = "kCmpUnordF64S" -> VVV_kCmpUnordF64S(a, b, d)
    [] op = "kCmpUnordF32" -> VVV_kCmpUnordF32(a, b, d)
    [] op = "kCmpUnordF64" -> VVV_kCmpUnordF64(a, b, d)
    [] op = "kHAddF64" -> VVV_kHAddF64(a, b, d)
    [] op = "kCombineLoHiU64" -> VVV_kCombineLoHiU64(a, b, d)
    [] op = "kCombineLoHiF64" -> VVV_kCombineLoHiF64(a, b, d)
    [] op = "kCombineHiLoU64" -> VVV_kCombineHiLoU64(a, b, d)
    [] op = "kCombineHiLoF64" -> VVV_kCombineHiLoF64(a, b, d)
    [] op = "kInterleaveLoU8" -> VVV_kInterleaveLoU8(a, b, d)
    [] op = "kInterleaveHiU8" -> VVV_kInterleaveHiU8(a, b, d)
    [] op = "kInterleaveLoU16" -> VVV_kInterleaveLoU16(a, b, d)
    [] op = "kInterleaveHiU16" -> VVV_kInterleaveHiU16(a, b, d)
    [] op = "kInterleaveLoU32" -> VVV_kInterleaveLoU32(a, b, d)
    [] op = "kInterleaveHiU32" -> VVV_kInterleaveHiU32(a, b, d)
    [] op = "kInterleaveLoU64" -> VVV_kInterleaveLoU64(a, b, d)
    [] op = "kInterleaveHiU64" -> VVV_kInterleaveHiU64(a, b, d)
    [] op = "kInterleaveLoF32" -> VVV_kInterleaveLoF32(a, b, d)
    [] op = "kInterleaveHiF32" -> VVV_kInterleaveHiF32(a, b, d)
    [] op = "kInterleaveLoF64" -> VVV_kInterleaveLoF64(a, b, d)
    [] op = "kInterleaveHiF64" -> VVV_kInterleaveHiF64(a, b, d)
    [] op = "kPacksI16_I8" -> VVV_kPacksI16_I8(a, b, d)
    [] op = "kPacksI16_U8" -> VVV_kPacksI16_U8(a, b, d)
    [] op = "kPacksI32_I16" -> VVV_kPacksI32_I16(a, b, d)
    [] op = "kPacksI32_U16" -> VVV_kPacksI32_U16(a, b, d)
    [] op = "kSwizzlev_U8" -> VVV_kSwizzlev_U8(a, b, d)
    [] op = "kPermuteU8" -> VVV_kPermuteU8(a, b, d)
    [] op = "kPermuteU16" -> VVV_kPermuteU16(a, b, d)
    [] op = "kPermuteU32" -> VVV_kPermuteU32(a, b, d)
    [] op = "kPermuteU64" -> VVV_kPermuteU64(a, b, d)

EvalVVVI(op, a, b, d, imm) ==
  CASE op = "kAlignr_U128" -> VVVI_kAlignr_U128(a, b, d, imm)
    [] op = "kInterleaveShuffleU32x4" -> VVVI_kInterleaveShuffleU32x4(a, b, d, imm)
    [] op = "kInterleaveShuffleU64x2" -> VVVI_kInterleaveShuffleU64x2(a, b, d, imm)
    [] op = "kInterleaveShuffleF32x4" -> VVVI_kInterleaveShuffleF32x4(a, b, d, imm)
    [] op = "kInterleaveShuffleF64x2" -> VVVI_kInterleaveShuffleF64x2(a, b, d, imm)
    [] op = "kInsertV128_U32" -> VVVI_kInsertV128_U32(a, b, d, imm)
    [] op = "kInsertV128_F32" -> VVVI_kInsertV128_F32(a, b, d, imm)
    [] op = "kInsertV128_U64" -> VVVI_kInsertV128_U64(a, b, d, imm)
    [] op = "kInsertV128_F64" -> VVVI_kInsertV128_F64(a, b, d, imm)
    [] op = "kInsertV256_U32" -> VVVI_kInsertV256_U32(a, b, d, imm)
    [] op = "kInsertV256_F32" -> VVVI_kInsertV256_F32(a, b, d, imm)
    [] op = "kInsertV256_U64" -> VVVI_kInsertV256_U64(a, b, d, imm)
    [] op = "kInsertV256_F64" -> VVVI_kInsertV256_F64(a, b, d, imm)

EvalVVVV(op, a, b, c, d, fu) ==
  CASE op = "kBlendV_U8" -> VVVV_kBlendV_U8(a, b, c, d, fu)
    [] op = "kMAddU16" -> VVVV_kMAddU16(a, b, c, d, fu)
    [] op = "kMAddU32" -> VVVV_kMAddU32(a, b, c, d, fu)
    [] op = "kMAddF32S" -> VVVV_kMAddF32S(a, b, c, d, fu)
    [] op = "kMAddF64S" -> VVVV_kMAddF64S(a, b, c, d, fu)
    [] op = "kMAddF32" -> VVVV_kMAddF32(a, b, c, d, fu)
    [] op = "kMAddF64" -> VVVV_kMAddF64(a, b, c, d, fu)
    [] op = "kMSubF32S" -> VVVV_kMSubF32S(a, b, c, d, fu)
    [] op = "kMSubF64S" -> VVVV_kMSubF64S(a, b, c, d, fu)
    [] op = "kMSubF32" -> VVVV_kMSubF32(a, b, c, d, fu)
    [] op = "kMSubF64" -> VVVV_kMSubF64(a, b, c, d, fu)
    [] op = "kNMAddF32S" -> VVVV_kNMAddF32S(a, b, c, d, fu)
    [] op = "kNMAddF64S" -> VVVV_kNMAddF64S(a, b, c, d, fu)
    [] op = "kNMAddF32" -> VVVV_kNMAddF32(a, b, c, d, fu)
    [] op = "kNMAddF64" -> VVVV_kNMAddF64(a, b, c, d, fu)
    [] op = "kNMSubF32S" -> VVVV_kNMSubF32S(a, b, c, d, fu)
    [] op = "kNMSubF64S" -> VVVV_kNMSubF64S(a, b, c, d, fu)
    [] op = "kNMSubF32" -> VVVV_kNMSubF32(a, b, c, d, fu)
    [] op = "kNMSubF64" -> VVVV_kNMSubF64(a, b, c, d, fu)

(* ---------------------------------------------------------------------------------------------------------------- *)
(* UniOpRR - "Arithmetic operations having 2 operands (dst, src)."  a = source word (4 or 8 bytes)                   *)
(* ---------------------------------------------------------------------------------------------------------------- *)
\* `Absolute value of a signed integer - `dst = abs(src)`.`
RR_kAbs(a)       == BAbs(a)
\* `Arithmetic negation - `dst = -src` (`dst = ~src + 1`).`
RR_kNeg(a)       == BNeg(a)
\* `Bitwise-not - `dst = ~src`.`
RR_kNot(a)       == BNot(a)
\* `Byteswap - `dst = bswap(src)`.`
RR_kBSwap(a)     == BRev(a)
\* `Count leading zeros - `dst = clz(src)`.`   (clz(0) is not defined by the comment: DC)
RR_kCLZ(a)       == IF BIsZero(a) THEN DCs(Len(a)) ELSE BOfNat(BClz(a), Len(a))
\* `Count trailing zeros - `dst = ctz(src)`.`  (ctz(0): DC)
RR_kCTZ(a)       == IF BIsZero(a) THEN DCs(Len(a)) ELSE BOfNat(BCtz(a), Len(a))
\* `Integer reflection.`   (the repository test: reflect(x) = x ^ (x >> (N_BITS - 1)) with an arithmetic shift, i.e. x < 0 ? ~x : x)
RR_kReflect(a)   == BXor(a, BSar(a, 8 * Len(a) - 1))

EvalRR(op, a) ==
  CASE op = "kAbs" -> RR_kAbs(a) [] op = "kNeg" -> RR_kNeg(a) [] op = "kNot" -> RR_kNot(a) [] op = "kBSwap" -> RR_kBSwap(a)
    [] op = "kCLZ" -> RR_kCLZ(a) [] op = "kCTZ" -> RR_kCTZ(a) [] op = "kReflect" -> RR_kReflect(a)

(* ---------------------------------------------------------------------------------------------------------------- *)
(* UniOpRRR - "Arithmetic operation having 3 operands (dst, src1, src2)."  a, b words of the register size.  A shift   *)
(* or rotate count, a divisor and the bound of kSBound have preconditions (InDomRRR); outside them the result is DC.   *)
(* ---------------------------------------------------------------------------------------------------------------- *)
CountOf(b)       == b[1]                                   \* shift count (precondition: the whole word is < N_BITS)
CountOk(b)       == b[1] < 8 * Len(b) /\ \A k \in 2..Len(b) : b[k] = 0
\* `Bitwise AND `dst = src1 & src2`.`
RRR_kAnd(a, b)   == BAnd(a, b)
\* `Bitwise OR  `dst = src1 | src2`.`
RRR_kOr(a, b)    == BOr(a, b)
\* `Bitwise XOR `dst = src1 ^ src2`.`
RRR_kXor(a, b)   == BXor(a, b)
\* `Bitwise BIC `dst = src1 & ~src2`.`
RRR_kBic(a, b)   == BAnd(a, BNot(b))
\* `Add `dst = src1 + src2`.`
RRR_kAdd(a, b)   == BAdd(a, b)
\* `Subtract `dst = src1 - src2`.`
RRR_kSub(a, b)   == BSub(a, b)
\* `Multiply `dst = src1 * src2`.`
RRR_kMul(a, b)   == BMul(a, b)
\* `Unsigned divide `dst = src1 / src2`.`
RRR_kUDiv(a, b)  == IF BIsZero(b) THEN DCs(Len(a)) ELSE BUDiv(a, b)
\* `Unsigned modulo `dst = src1 & src2`.`      (the formula of the comment is a typo for src1 % src2)
RRR_kUMod(a, b)  == IF BIsZero(b) THEN DCs(Len(a)) ELSE BUMod(a, b)
\* `Signed minimum `dst = smin(src1, src2)`.`
RRR_kSMin(a, b)  == BMin(a, b, TRUE)
\* `Signed maximum `dst = smax(src1, src2)`.`
RRR_kSMax(a, b)  == BMax(a, b, TRUE)
\* `Unsigned minimum `dst = umin(src1, src2)`.`
RRR_kUMin(a, b)  == BMin(a, b, FALSE)
\* `Unsigned maximum `dst = umax(src1, src2)`.`
RRR_kUMax(a, b)  == BMax(a, b, FALSE)
\* `Shift left logical `dst = src1 << src2`.`
RRR_kSll(a, b)   == IF CountOk(b) THEN BShl(a, CountOf(b)) ELSE DCs(Len(a))
\* `Shift left logical `dst = src1 >> src2`.`
RRR_kSrl(a, b)   == IF CountOk(b) THEN BShr(a, CountOf(b)) ELSE DCs(Len(a))
\* `Shift left logical `dst = sra(src1, src2)`.`
RRR_kSra(a, b)   == IF CountOk(b) THEN BSar(a, CountOf(b)) ELSE DCs(Len(a))
\* `Rotate left `dst = (src1 << src2) | (src1 >> (N_BITS - src2))`.`
RRR_kRol(a, b)   == IF CountOk(b) THEN BRol(a, CountOf(b)) ELSE DCs(Len(a))
\* `Rotate right `dst = (src1 >> src2) | (src1 << (N_BITS - src2))`.`
RRR_kRor(a, b)   == IF CountOk(b) THEN BRor(a, CountOf(b)) ELSE DCs(Len(a))
\* `Signed bounds.`   (the repository test: clamp of the signed src1 to [0, src2] for a non-negative bound src2)
RRR_kSBound(a, b) == IF BMsb(b) = 1 THEN DCs(Len(a)) ELSE IF BMsb(a) = 1 THEN BZero(Len(a)) ELSE IF BSLt(b, a) THEN b ELSE a

EvalRRR(op, a, b) ==
  CASE op = "kAnd" -> RRR_kAnd(a, b) [] op = "kOr" -> RRR_kOr(a, b) [] op = "kXor" -> RRR_kXor(a, b) [] op = "kBic" -> RRR_kBic(a, b)
    [] op = "kAdd" -> RRR_kAdd(a, b) [] op = "kSub" -> RRR_kSub(a, b) [] op = "kMul" -> RRR_kMul(a, b)
    [] op = "kUDiv" -> RRR_kUDiv(a, b) [] op = "kUMod" -> RRR_kUMod(a, b)
    [] op = "kSMin" -> RRR_kSMin(a, b) [] op = "kSMax" -> RRR_kSMax(a, b) [] op = "kUMin" -> RRR_kUMin(a, b) [] op = "kUMax" -> RRR_kUMax(a, b)
    [] op = "kSll" -> RRR_kSll(a, b) [] op = "kSrl" -> RRR_kSrl(a, b) [] op = "kSra" -> RRR_kSra(a, b)
    [] op = "kRol" -> RRR_kRol(a, b) [] op = "kRor" -> RRR_kRor(a, b) [] op = "kSBound" -> RRR_kSBound(a, b)

(* ---------------------------------------------------------------------------------------------------------------- *)
(* UniOpRM - "Instruction with `[reg, mem]` operands."  d = previous register content (n = register size bytes),      *)
(* m = the 8 bytes of memory at the operand                                                                         *)
(* ---------------------------------------------------------------------------------------------------------------- *)
\* `N-bit load (the size depends on the register size).`
RM_kLoadReg(d, m)      == BTrunc(m, Len(d))
\* `8-bit load, sign extended.`
RM_kLoadI8(d, m)       == BSExt(BTrunc(m, 1), Len(d))
\* `8-bit load, zero extended.`
RM_kLoadU8(d, m)       == BZExt(BTrunc(m, 1), Len(d))
\* `16-bit load, sign extended.`
RM_kLoadI16(d, m)      == BSExt(BTrunc(m, 2), Len(d))
\* `16-bit load, zero extended.`
RM_kLoadU16(d, m)      == BZExt(BTrunc(m, 2), Len(d))
\* `32-bit load, sign extended.`
RM_kLoadI32(d, m)      == BSExt(BTrunc(m, 4), Len(d))
\* `32-bit load, zero extended.`
RM_kLoadU32(d, m)      == BZExt(BTrunc(m, 4), Len(d))
\* `64-bit load.`
RM_kLoadI64(d, m)      == BTrunc(m, 8)
\* `64-bit load.`
RM_kLoadU64(d, m)      == BTrunc(m, 8)
\* `8-bit load and merge.`          (the repository test: the low byte of the register is replaced)
RM_kLoadMergeU8(d, m)  == Tab([k \in 1..Len(d) |-> IF k = 1 THEN m[1] ELSE d[k]])
\* `8-bit load, shift, and merge.`  (the repository test: reg = (reg << 8) | byte)
RM_kLoadShiftU8(d, m)  == Tab([k \in 1..Len(d) |-> IF k = 1 THEN m[1] ELSE d[k - 1]])
\* `16-bit load and merge.`
RM_kLoadMergeU16(d, m) == Tab([k \in 1..Len(d) |-> IF k <= 2 THEN m[k] ELSE d[k]])
\* `16-bit load, shift, and merge.`
RM_kLoadShiftU16(d, m) == Tab([k \in 1..Len(d) |-> IF k <= 2 THEN m[k] ELSE d[k - 2]])

EvalRM(op, d, m) ==
  CASE op = "kLoadReg" -> RM_kLoadReg(d, m) [] op = "kLoadI8" -> RM_kLoadI8(d, m) [] op = "kLoadU8" -> RM_kLoadU8(d, m)
    [] op = "kLoadI16" -> RM_kLoadI16(d, m) [] op = "kLoadU16" -> RM_kLoadU16(d, m) [] op = "kLoadI32" -> RM_kLoadI32(d, m)
    [] op = "kLoadU32" -> RM_kLoadU32(d, m) [] op = "kLoadI64" -> RM_kLoadI64(d, m) [] op = "kLoadU64" -> RM_kLoadU64(d, m)
    [] op = "kLoadMergeU8" -> RM_kLoadMergeU8(d, m) [] op = "kLoadShiftU8" -> RM_kLoadShiftU8(d, m)
    [] op = "kLoadMergeU16" -> RM_kLoadMergeU16(d, m) [] op = "kLoadShiftU16" -> RM_kLoadShiftU16(d, m)

(* ---------------------------------------------------------------------------------------------------------------- *)
(* UniOpMR / UniOpM - stores.  The operators give the bytes written at the operand address (r = register word,       *)
(* m = previous memory); memory outside these bytes must be unchanged (checked by the conformance predicate).        *)
(* ---------------------------------------------------------------------------------------------------------------- *)
\* `N-bit store (the size depends on the register size).`
MR_kStoreReg(r, m)  == r
\* `8-bit store.`
MR_kStoreU8(r, m)   == BTrunc(r, 1)
\* `16-bit store.`
MR_kStoreU16(r, m)  == BTrunc(r, 2)
\* `32-bit store.`
MR_kStoreU32(r, m)  == BTrunc(r, 4)
\* `64-bit store.`
MR_kStoreU64(r, m)  == BTrunc(r, 8)
\* `N-bit load+add+store (the size depends on the register size).`
MR_kAddReg(r, m)    == BAdd(BTrunc(m, Len(r)), r)
\* `8-bit load+add+store.`
MR_kAddU8(r, m)     == BAdd(BTrunc(m, 1), BTrunc(r, 1))
\* `16-bit load+add+store.`
MR_kAddU16(r, m)    == BAdd(BTrunc(m, 2), BTrunc(r, 2))
\* `32-bit load+add+store.`
MR_kAddU32(r, m)    == BAdd(BTrunc(m, 4), BTrunc(r, 4))
\* `64-bit load+add+store.`
MR_kAddU64(r, m)    == BAdd(BTrunc(m, 8), BTrunc(r, 8))

EvalMR(op, r, m) ==
  CASE op = "kStoreReg" -> MR_kStoreReg(r, m) [] op = "kStoreU8" -> MR_kStoreU8(r, m) [] op = "kStoreU16" -> MR_kStoreU16(r, m)
    [] op = "kStoreU32" -> MR_kStoreU32(r, m) [] op = "kStoreU64" -> MR_kStoreU64(r, m) [] op = "kAddReg" -> MR_kAddReg(r, m)
    [] op = "kAddU8" -> MR_kAddU8(r, m) [] op = "kAddU16" -> MR_kAddU16(r, m) [] op = "kAddU32" -> MR_kAddU32(r, m) [] op = "kAddU64" -> MR_kAddU64(r, m)

\* `Explicitly prefetch memory for reading (can be implemented as NOP).`
M_kPrefetch      == << >>
\* `Store zero (data-width depends on register size).`     (the native register: 8 bytes on x86-64)
M_kStoreZeroReg  == BZero(8)
\* `Store zero (8-bit).`
M_kStoreZeroU8   == BZero(1)
\* `Store zero (16-bit).`
M_kStoreZeroU16  == BZero(2)
\* `Store zero (32-bit).`
M_kStoreZeroU32  == BZero(4)
\* `Store zero (64-bit).`
M_kStoreZeroU64  == BZero(8)
EvalM(op) == CASE op = "kPrefetch" -> M_kPrefetch [] op = "kStoreZeroReg" -> M_kStoreZeroReg [] op = "kStoreZeroU8" -> M_kStoreZeroU8
               [] op = "kStoreZeroU16" -> M_kStoreZeroU16 [] op = "kStoreZeroU32" -> M_kStoreZeroU32 [] op = "kStoreZeroU64" -> M_kStoreZeroU64

(* ---------------------------------------------------------------------------------------------------------------- *)
(* UniOpCond / UniCondition - "Condition represents either a condition or an assignment operation that can be        *)
(* checked."  Every documented constructor of unicondition.h: [val |-> new value of a, holds |-> the condition]      *)
(* ---------------------------------------------------------------------------------------------------------------- *)
\* `Assign-and `a &= b`.`
Cond_kAssignAnd(a, b) == BAnd(a, b)
\* `Assign-or  `a |= b`.`
Cond_kAssignOr(a, b)  == BOr(a, b)
\* `Assign-xor `a ^= b`.`
Cond_kAssignXor(a, b) == BXor(a, b)
\* `Assign-add `a += b`.`
Cond_kAssignAdd(a, b) == BAdd(a, b)
\* `Assign-sub `a -= b`.`
Cond_kAssignSub(a, b) == BSub(a, b)
\* `Assign-shr `a >>= b`.`
Cond_kAssignShr(a, b) == BShr(a, CountOf(b))
\* `Test       `a & b`.`
Cond_kTest(a, b)      == a
\* `Bit-test   `a & (1 << b)`.`
Cond_kBitTest(a, b)   == a
\* `Compare    `a <=> b`.`
Cond_kCompare(a, b)   == a

C(v, h) == [val |-> v, holds |-> h]
\* `Constructs a condition that would be `true` when `a = (a & b)` becomes zero.`
Ctor_and_z(a, b)   == C(Cond_kAssignAnd(a, b), BIsZero(BAnd(a, b)))
\* `Constructs a condition that would be `true` when `a = (a & b)` becomes non-zero.`
Ctor_and_nz(a, b)  == C(Cond_kAssignAnd(a, b), ~BIsZero(BAnd(a, b)))
\* `Constructs a condition that would be `true` when `a = (a | b)` becomes zero.`
Ctor_or_z(a, b)    == C(Cond_kAssignOr(a, b), BIsZero(BOr(a, b)))
\* `Constructs a condition that would be `true` when `a = (a | b)` becomes non-zero.`
Ctor_or_nz(a, b)   == C(Cond_kAssignOr(a, b), ~BIsZero(BOr(a, b)))
\* `Constructs a condition that would be `true` when `a = (a ^ b)` becomes zero.`
Ctor_xor_z(a, b)   == C(Cond_kAssignXor(a, b), BIsZero(BXor(a, b)))
\* `Constructs a condition that would be `true` when `a = (a ^ b)` becomes non-zero.`
Ctor_xor_nz(a, b)  == C(Cond_kAssignXor(a, b), ~BIsZero(BXor(a, b)))
\* `Constructs a condition that would be `true` when `a = (a + b)` becomes zero.`
Ctor_add_z(a, b)   == C(Cond_kAssignAdd(a, b), BIsZero(BAdd(a, b)))
\* `Constructs a condition that would be `true` when `a = (a + b)` becomes non-zero.`
Ctor_add_nz(a, b)  == C(Cond_kAssignAdd(a, b), ~BIsZero(BAdd(a, b)))
\* `Constructs a condition that would be `true` when `a = (a + b)` wraps (sets carry flag).`
Ctor_add_c(a, b)   == C(Cond_kAssignAdd(a, b), BCarryOut(a, b) = 1)
\* `Constructs a condition that would be `true` when `a = (a + b)` doesn't wrap (doesn't set carry flag).`
Ctor_add_nc(a, b)  == C(Cond_kAssignAdd(a, b), BCarryOut(a, b) = 0)
\* `Constructs a condition that would be `true` when `a = (a + b)` ends with the msb/sign bit set.`
Ctor_add_s(a, b)   == C(Cond_kAssignAdd(a, b), BMsb(BAdd(a, b)) = 1)
\* `Constructs a condition that would be `true` when `a = (a + b)` ends with the msb/sign bit unset.`
Ctor_add_ns(a, b)  == C(Cond_kAssignAdd(a, b), BMsb(BAdd(a, b)) = 0)
\* `Constructs a condition that would be `true` when `a = (a - b)` becomes zero.`
Ctor_sub_z(a, b)   == C(Cond_kAssignSub(a, b), BIsZero(BSub(a, b)))
\* `Constructs a condition that would be `true` when `a = (a - b)` becomes non-zero.`
Ctor_sub_nz(a, b)  == C(Cond_kAssignSub(a, b), ~BIsZero(BSub(a, b)))
\* `Constructs a condition that would be `true` when `a = (a - b)` wraps.`
Ctor_sub_c(a, b)   == C(Cond_kAssignSub(a, b), BULt(a, b))
\* `Constructs a condition that would be `true` when `a = (a - b)` doesn't wrap.`
Ctor_sub_nc(a, b)  == C(Cond_kAssignSub(a, b), ~BULt(a, b))
\* `Constructs a condition that would be `true` when `a = (a - b)` ends with the msb/sign bit set.`
Ctor_sub_s(a, b)   == C(Cond_kAssignSub(a, b), BMsb(BSub(a, b)) = 1)
\* `Constructs a condition that would be `true` when `a = (a - b)` ends with the msb/sign bit unset.`
Ctor_sub_ns(a, b)  == C(Cond_kAssignSub(a, b), BMsb(BSub(a, b)) = 0)
\* (sub_ugt has no doc comment: `a = (a - b)` with CondCode::kUnsignedGT, i.e. true when the old a was above b)
Ctor_sub_ugt(a, b) == C(Cond_kAssignSub(a, b), BULt(b, a))
\* `Constructs a condition that would be `true` when `a = (a << b)` becomes zero.`        (shr: the comment's `<<` is a typo)
Ctor_shr_z(a, b)   == C(Cond_kAssignShr(a, b), BIsZero(BShr(a, CountOf(b))))
\* `Constructs a condition that would be `true` when `a = (a << b)` becomes non-zero.`
Ctor_shr_nz(a, b)  == C(Cond_kAssignShr(a, b), ~BIsZero(BShr(a, CountOf(b))))
\* `Constructs a condition that would be `true` when `a == b)`.`
Ctor_cmp_eq(a, b)  == C(a, a = b)
\* `Constructs a condition that would be `true` when `a != b)`.`
Ctor_cmp_ne(a, b)  == C(a, a # b)
\* `Constructs a condition that would be `true` when `a < b` (signed comparison).`
Ctor_scmp_lt(a, b) == C(a, BSLt(a, b))
\* `Constructs a condition that would be `true` when `a <= b` (signed comparison).`
Ctor_scmp_le(a, b) == C(a, BSLe(a, b))
\* `Constructs a condition that would be `true` when `a > b` (signed comparison).`
Ctor_scmp_gt(a, b) == C(a, BSLt(b, a))
\* `Constructs a condition that would be `true` when `a >= b` (signed comparison).`
Ctor_scmp_ge(a, b) == C(a, BSLe(b, a))
\* `Constructs a condition that would be `true` when `a < b` (unsigned comparison).`
Ctor_ucmp_lt(a, b) == C(a, BULt(a, b))
\* `Constructs a condition that would be `true` when `a <= b` (unsigned comparison).`
Ctor_ucmp_le(a, b) == C(a, BULe(a, b))
\* `Constructs a condition that would be `true` when `a > b` (unsigned comparison).`
Ctor_ucmp_gt(a, b) == C(a, BULt(b, a))
\* `Constructs a condition that would be `true` when `a >= b` (unsigned comparison).`
Ctor_ucmp_ge(a, b) == C(a, BULe(b, a))
\* `Constructs a condition that would be `true` when `a & b` is zero.`
Ctor_test_z(a, b)  == C(a, BIsZero(BAnd(a, b)))
\* `Constructs a condition that would be `true` when `a & b` is non-zero.`
Ctor_test_nz(a, b) == C(a, ~BIsZero(BAnd(a, b)))
\* `Constructs a condition that would be `true` when `a` is zero.`
Ctor_test_z1(a, b) == C(a, BIsZero(a))
\* `Constructs a condition that would be `true` when `a` is non-zero.`
Ctor_test_nz1(a, b) == C(a, ~BIsZero(a))
\* `Constructs a condition that would be `true` when a bit in `a` at `b` is zero (`((a >> b) & 1) == 0`).`
Ctor_bt_z(a, b)    == C(a, BBit(a, CountOf(b)) = 0)
\* `Constructs a condition that would be `true` when a bit in `a` at `b` is non-zero (`((a >> b) & 1) == 1`).`
Ctor_bt_nz(a, b)   == C(a, BBit(a, CountOf(b)) = 1)

NeedsCount(ct)   == ct \in {"shr_z", "shr_nz", "bt_z", "bt_nz"}
EvalCtor(ct, a, b) ==
  CASE ct = "and_z" -> Ctor_and_z(a, b) [] ct = "and_nz" -> Ctor_and_nz(a, b) [] ct = "or_z" -> Ctor_or_z(a, b) [] ct = "or_nz" -> Ctor_or_nz(a, b)
    [] ct = "xor_z" -> Ctor_xor_z(a, b) [] ct = "xor_nz" -> Ctor_xor_nz(a, b) [] ct = "add_z" -> Ctor_add_z(a, b) [] ct = "add_nz" -> Ctor_add_nz(a, b)
    [] ct = "add_c" -> Ctor_add_c(a, b) [] ct = "add_nc" -> Ctor_add_nc(a, b) [] ct = "add_s" -> Ctor_add_s(a, b) [] ct = "add_ns" -> Ctor_add_ns(a, b)
    [] ct = "sub_z" -> Ctor_sub_z(a, b) [] ct = "sub_nz" -> Ctor_sub_nz(a, b) [] ct = "sub_c" -> Ctor_sub_c(a, b) [] ct = "sub_nc" -> Ctor_sub_nc(a, b)
    [] ct = "sub_s" -> Ctor_sub_s(a, b) [] ct = "sub_ns" -> Ctor_sub_ns(a, b) [] ct = "sub_ugt" -> Ctor_sub_ugt(a, b)
    [] ct = "shr_z" -> Ctor_shr_z(a, b) [] ct = "shr_nz" -> Ctor_shr_nz(a, b) [] ct = "cmp_eq" -> Ctor_cmp_eq(a, b) [] ct = "cmp_ne" -> Ctor_cmp_ne(a, b)
    [] ct = "scmp_lt" -> Ctor_scmp_lt(a, b) [] ct = "scmp_le" -> Ctor_scmp_le(a, b) [] ct = "scmp_gt" -> Ctor_scmp_gt(a, b) [] ct = "scmp_ge" -> Ctor_scmp_ge(a, b)
    [] ct = "ucmp_lt" -> Ctor_ucmp_lt(a, b) [] ct = "ucmp_le" -> Ctor_ucmp_le(a, b) [] ct = "ucmp_gt" -> Ctor_ucmp_gt(a, b) [] ct = "ucmp_ge" -> Ctor_ucmp_ge(a, b)
    [] ct = "test_z" -> Ctor_test_z(a, b) [] ct = "test_nz" -> Ctor_test_nz(a, b) [] ct = "test_z1" -> Ctor_test_z1(a, b) [] ct = "test_nz1" -> Ctor_test_nz1(a, b)
    [] ct = "bt_z" -> Ctor_bt_z(a, b) [] ct = "bt_nz" -> Ctor_bt_nz(a, b)

(* ---------------------------------------------------------------------------------------------------------------- *)
(* UniOpVR - "general-purpose is either moved, converted, or inserted to a vector register."                         *)
(* g = general purpose register (word of its size), a = source vector, d = previous content of the destination        *)
(* ---------------------------------------------------------------------------------------------------------------- *)
\* `N-bit move into a vector register (the size depends on source register width).`
VR_kMov_g2v(g, d, idx)      == Tab([k \in 1..Len(d) |-> IF k <= Len(g) THEN g[k] ELSE DC])
VR_kMov_v2g(a, sz, idx)     == BTrunc(a, sz)
\* `32-bit move into a vector register.`
VR_kMovU32_g2v(g, d, idx)   == Tab([k \in 1..Len(d) |-> IF k <= 4 THEN g[k] ELSE DC])
VR_kMovU32_v2g(a, sz, idx)  == BZExt(BTrunc(a, 4), sz)
\* `64-bit move into a vector register.`
VR_kMovU64_g2v(g, d, idx)   == Tab([k \in 1..Len(d) |-> IF k <= 8 THEN g[k] ELSE DC])
VR_kMovU64_v2g(a, sz, idx)  == BTrunc(a, 8)
InsertLane(g, d, idx, n)    == Tab([k \in 1..Len(d) |-> IF k > 16 THEN DC ELSE IF (k - 1) \div n = idx THEN g[((k - 1) % n) + 1] ELSE d[k]])
\* `8-bit insertion into a vector register.`
VR_kInsertU8(g, d, idx)     == InsertLane(g, d, idx, 1)
\* `16-bit insertion into a vector register.`
VR_kInsertU16(g, d, idx)    == InsertLane(g, d, idx, 2)
\* `32-bit insertion into a vector register.`
VR_kInsertU32(g, d, idx)    == InsertLane(g, d, idx, 4)
\* `64-bit insertion into a vector register.`
VR_kInsertU64(g, d, idx)    == InsertLane(g, d, idx, 8)
\* `8-bit extraction from a vector register.`
VR_kExtractU8(a, sz, idx)   == BZExt(Lane(a, 1, idx), sz)
\* `16-bit extraction from a vector register.`
VR_kExtractU16(a, sz, idx)  == BZExt(Lane(a, 2, idx), sz)
\* `32-bit extraction from a vector register.`
VR_kExtractU32(a, sz, idx)  == BZExt(Lane(a, 4, idx), sz)
\* `64-bit extraction from a vector register.`
VR_kExtractU64(a, sz, idx)  == Lane(a, 8, idx)
\* `Int to float32 conversion.`      (element 0; the integer is the signed value of the source register)
VR_kCvtIntToF32(g, d, idx)  == Scalar(4, Len(d), FOfSInt(g, F32))
\* `Int to float64 conversion.`
VR_kCvtIntToF64(g, d, idx)  == Scalar(8, Len(d), FOfSInt(g, F64))
\* `Float32 to int conversion with truncation semantics.`
VR_kCvtTruncF32ToInt(a, sz, idx) == FToSInt(Lane(a, 4, 0), F32, "trunc", sz)
\* `Float64 to int conversion with round-to-even semantics.`      (enumerator kCvtRoundF32ToInt: the comments of the F32/F64 round/trunc pairs are swapped in uniop.h; the name is taken)
VR_kCvtRoundF32ToInt(a, sz, idx) == FToSInt(Lane(a, 4, 0), F32, "even", sz)
\* `Float32 to int conversion with truncation semantics.`
VR_kCvtTruncF64ToInt(a, sz, idx) == FToSInt(Lane(a, 8, 0), F64, "trunc", sz)
\* `Float64 to int conversion with round-to-even semantics.`
VR_kCvtRoundF64ToInt(a, sz, idx) == FToSInt(Lane(a, 8, 0), F64, "even", sz)

EvalVR_g2v(op, g, d, idx) ==
  CASE op = "kMov" -> VR_kMov_g2v(g, d, idx) [] op = "kMovU32" -> VR_kMovU32_g2v(g, d, idx) [] op = "kMovU64" -> VR_kMovU64_g2v(g, d, idx)
    [] op = "kInsertU8" -> VR_kInsertU8(g, d, idx) [] op = "kInsertU16" -> VR_kInsertU16(g, d, idx) [] op = "kInsertU32" -> VR_kInsertU32(g, d, idx)
    [] op = "kInsertU64" -> VR_kInsertU64(g, d, idx) [] op = "kCvtIntToF32" -> VR_kCvtIntToF32(g, d, idx) [] op = "kCvtIntToF64" -> VR_kCvtIntToF64(g, d, idx)
EvalVR_v2g(op, a, sz, idx) ==
  CASE op = "kMov" -> VR_kMov_v2g(a, sz, idx) [] op = "kMovU32" -> VR_kMovU32_v2g(a, sz, idx) [] op = "kMovU64" -> VR_kMovU64_v2g(a, sz, idx)
    [] op = "kExtractU8" -> VR_kExtractU8(a, sz, idx) [] op = "kExtractU16" -> VR_kExtractU16(a, sz, idx) [] op = "kExtractU32" -> VR_kExtractU32(a, sz, idx)
    [] op = "kExtractU64" -> VR_kExtractU64(a, sz, idx)
    [] op = "kCvtTruncF32ToInt" -> VR_kCvtTruncF32ToInt(a, sz, idx) [] op = "kCvtRoundF32ToInt" -> VR_kCvtRoundF32ToInt(a, sz, idx)
    [] op = "kCvtTruncF64ToInt" -> VR_kCvtTruncF64ToInt(a, sz, idx) [] op = "kCvtRoundF64ToInt" -> VR_kCvtRoundF64ToInt(a, sz, idx)

(* ---------------------------------------------------------------------------------------------------------------- *)
(* scalar helpers of unicompiler.h (no doc comments; the formulas are the ones in the comments of the implementation) *)
(* ---------------------------------------------------------------------------------------------------------------- *)
\* adds_u8(dst, src1, src2): unsigned saturating addition of the low bytes (precondition: operands below 256); low byte judged
H_adds_u8(a, b)      == Tab([k \in 1..Len(a) |-> IF k = 1 THEN (IF a[1] + b[1] > 255 THEN 255 ELSE a[1] + b[1]) ELSE DC])
\* inv_u8(dst, src): dst = src ^ 0xFF on the low byte
H_inv_u8(a)          == Tab([k \in 1..Len(a) |-> IF k = 1 THEN 255 - a[1] ELSE a[k]])
\* div_255_u32: "dst = (src + 128 + ((src + 128) >> 8)) >> 8"
H_div_255_u32(a)     == LET t == BAdd(a, BOfNat(128, Len(a))) IN BShr(BAdd(t, BShr(t, 8)), 8)
\* mul_257_hu16: dst = (src * 257) >> 16
H_mul_257_hu16(a)    == BShr(BMul(a, BOfNat(257, Len(a))), 16)
\* add_scaled(dst, a, b): dst += a * b
H_add_scaled(d, a, s) == BAdd(d, BMul(a, s))
\* add_ext(dst, src, idx, scale, disp): dst = src + idx * scale + disp
H_add_ext(a, i, s, disp) == BAdd(BAdd(a, BMul(i, s)), disp)

(* ---------------------------------------------------------------------------------------------------------------- *)
(* conformance of one observation                                                                                   *)
(* ---------------------------------------------------------------------------------------------------------------- *)
(* out matches the expectation e: exact bytes, DC bytes, AnyNaN / AnyZero lanes *)
Match(out, e) ==
  /\ Len(out) = Len(e)
  /\ \A k \in 1..Len(e) :
       IF e[k] >= 0 THEN out[k] = e[k]
       ELSE IF e[k] = DC THEN TRUE
       ELSE LET kind == (-e[k]) \div 100
                n    == (-e[k]) % 100
                L    == Tab([j \in 1..n |-> out[k + j - 1]])
            IN IF kind = 2 THEN FIsNaN(L, FmtOf(n)) ELSE FIsZero(L)
Judged(e) == \E k \in 1..Len(e) : e[k] # DC

ExpectVec(o) ==
  CASE o.k = "vv"   -> EvalVV(o.op, o.a, o.d0)
    [] o.k = "vvi"  -> EvalVVI(o.op, o.a, o.d0, o.imm)
    [] o.k = "vvv"  -> EvalVVV(o.op, o.a, o.b, o.d0)
    [] o.k = "vvvi" -> EvalVVVI(o.op, o.a, o.b, o.d0, o.imm)
    [] o.k = "vvvv" -> EvalVVVV(o.op, o.a, o.b, o.c, o.d0, o.fused)

(* memory image after a store: bytes [g+1 .. g+Len(v)] replaced by v, everything else unchanged *)
MemAfter(before, g, v) == Tab([k \in 1..Len(before) |-> IF k > g /\ k <= g + Len(v) THEN v[k - g] ELSE before[k]])

(* the constant table (vecconsttable.h): a constant named p_<16 hex digits> is that 64-bit pattern repeated; the named  *)
(* float constants are the values their names say                                                                       *)
Repeat(P, n)     == Tab([j \in 1..n |-> P[((j - 1) % Len(P)) + 1]])
ConstOk(o) ==
  LET n == Len(o.out) IN
  IF Len(o.nib) = 16 THEN \A j \in 1..n : o.out[j] = 16 * o.nib[15 - 2 * ((j - 1) % 8)] + o.nib[16 - 2 * ((j - 1) % 8)]
  ELSE CASE o.op = "sign32_scalar" -> o.out = Tab([j \in 1..n |-> IF j = 4 THEN 128 ELSE 0])
         [] o.op = "sign64_scalar" -> o.out = Tab([j \in 1..n |-> IF j = 8 THEN 128 ELSE 0])
         [] o.op = "f32_1" -> o.out = Repeat(FOneW(F32), n)
         [] o.op = "f32_0_5" -> o.out = Repeat(BShl(BOfNat(126, 4), 23), n)
         [] o.op = "f32_0_5_minus_1ulp" -> o.out = Repeat(BSub(BShl(BOfNat(126, 4), 23), One(4)), n)
         [] o.op = "f32_round_magic" -> o.out = Repeat(BShl(BOfNat(127 + 23, 4), 23), n)
         [] o.op = "f64_1" -> o.out = Repeat(FOneW(F64), n)
         [] o.op = "f64_0_5" -> o.out = Repeat(BShl(BOfNat(1022, 8), 52), n)
         [] o.op = "f64_0_5_minus_1ulp" -> o.out = Repeat(BSub(BShl(BOfNat(1022, 8), 52), One(8)), n)
         [] o.op = "f64_round_magic" -> o.out = Repeat(BShl(BOfNat(1023 + 52, 8), 52), n)
         [] OTHER -> FALSE

(* OpArray / VecArray (ujitbase.h): "Operand array ... Can hold up to `kMaxSize` registers".  An array built from the     *)
(* operands 1..n holds exactly these n operands in order; the selectors pick (indices from 0):                            *)
(*   lo / half : the first ceil(n/2)   hi : the rest   even : 0, 2, 4, ..   odd : 1, 3, ..   every_nth(k) : 0, k, 2k, ..   *)
(*   even_odd(from): "either even (from == 0) or odd (from == 1) elements"                                                *)
SeqOfIdx(S)      == [j \in 1..Cardinality(S) |-> CHOOSE x \in S : Cardinality({y \in S : y < x}) = j - 1]
OpArrSel(op, n, arg) ==
  LET all == 1..n IN
  CASE op \in {"ctor", "init"} -> [j \in 1..n |-> j]
    [] op \in {"lo", "half"}   -> SeqOfIdx({x \in all : x <= (n + 1) \div 2})
    [] op = "hi"               -> SeqOfIdx({x \in all : x > (n + 1) \div 2})
    [] op = "even"             -> SeqOfIdx({x \in all : x % 2 = 1})
    [] op = "odd"              -> SeqOfIdx({x \in all : x % 2 = 0})
    [] op = "even_odd"         -> SeqOfIdx({x \in all : x % 2 = 1 - arg})
    [] op = "every_nth"        -> SeqOfIdx({x \in all : (x - 1) % arg = 0})

ObsVerdict(o) ==
  IF o.t = "levels" THEN ""
  ELSE IF o.t = "fail" THEN "assemble"                      \* the operation could not be compiled / assembled at this level
  ELSE IF o.t = "var" THEN (IF Len(o.need) > 0 THEN "feature" ELSE "")    \* an instruction needs a CPU feature the level does not grant
  ELSE IF o.sig # 0 THEN "crash"
  ELSE IF o.k \in {"vv", "vvi", "vvv", "vvvi", "vvvv"} THEN
         LET e == ExpectVec(o) IN IF ~Judged(e) THEN "vacuous" ELSE IF Match(o.out, e) THEN "" ELSE "value"
  ELSE IF o.k = "rr" THEN
         LET e == EvalRR(o.op, o.a) IN IF Match(o.out, e) THEN "" ELSE "value"
  ELSE IF o.k = "rrr" THEN
         LET e == EvalRRR(o.op, o.a, o.b) IN IF Match(o.out, e) THEN "" ELSE "value"
  ELSE IF o.k = "rm" THEN
         LET e == EvalRM(o.op, o.d0, o.m) IN IF Match(o.out, e) THEN "" ELSE "value"
  ELSE IF o.k = "mr" THEN
         LET v == EvalMR(o.op, o.a, BSlice(o.m, o.g, 8)) IN IF o.out = MemAfter(o.m, o.g, v) THEN "" ELSE "memory"
  ELSE IF o.k = "m" THEN
         LET v == EvalM(o.op) IN IF o.out = MemAfter(o.m, o.g, v) THEN "" ELSE "memory"
  ELSE IF o.k = "cond" THEN
         IF NeedsCount(o.ctor) /\ ~CountOk(o.b) THEN "harness"
         ELSE LET r == EvalCtor(o.ctor, o.a, o.b)
              IN IF (o.taken = 1) # r.holds THEN "condition"
                 ELSE IF o.aout # r.val THEN "assign"
                 ELSE IF o.res # (IF r.holds THEN o.tv ELSE o.fv) THEN "select" ELSE ""
  ELSE IF o.k = "vr" THEN
         IF o.dir = "g2v" THEN LET e == EvalVR_g2v(o.op, o.g, o.d0, o.idx) IN IF Match(o.out, e) THEN "" ELSE "value"
         ELSE LET e == EvalVR_v2g(o.op, o.a, o.sz, o.idx) IN IF Match(o.out, e) THEN "" ELSE "value"
  ELSE IF o.k = "vm" THEN
         LET e == EvalVM(o.op, o.m, o.d0, o.idx, o.w) IN IF ~Judged(e) THEN "vacuous" ELSE IF Match(o.out, e) THEN "" ELSE "value"
  ELSE IF o.k = "mv" THEN
         LET v == EvalMV(o.op, o.a, o.idx, o.w) IN IF o.out = MemAfter(o.m, o.g, v) THEN "" ELSE "memory"
  ELSE IF o.k = "help" THEN
         LET e == CASE o.op = "adds_u8" -> H_adds_u8(o.a, o.b) [] o.op = "inv_u8" -> H_inv_u8(o.a)
                    [] o.op = "div_255_u32" -> H_div_255_u32(o.a) [] o.op = "mul_257_hu16" -> H_mul_257_hu16(o.a)
                    [] o.op = "add_scaled" -> H_add_scaled(o.d0, o.a, o.b) [] o.op = "add_ext" -> H_add_ext(o.a, o.b, o.c, o.d0)
                    [] o.op = "lea" -> H_add_ext(o.a, o.b, o.c, o.d0)
         IN IF Match(o.out, e) THEN "" ELSE "value"
  ELSE IF o.k = "skip" THEN                                 \* a guarded region that was not executed must not have stored anything
         IF \A j \in 1..Len(o.out) : o.out[j] = 205 THEN "" ELSE "memory"
  ELSE IF o.k = "oparr" THEN
         IF o.out = OpArrSel(o.op, o.n, o.arg) /\ o.size = Len(o.out) THEN "" ELSE "container"
  ELSE IF o.k = "const" THEN
         IF ConstOk(o) THEN "" ELSE "constant"
  ELSE "harness"
=============================================================================
