------------------------------ MODULE UniFloat ------------------------------
(* X07 library: IEEE-754 binary32 / binary64 values as byte words (UniBytes), from the definition of the format:       *)
(*   word = sign (1 bit) | biased exponent (eb bits) | fraction (mb bits);  value = (-1)^s * 1.f * 2^(e - bias)          *)
(* Only operations whose result is determined bit-exactly by the mathematical value are specified:                     *)
(*   classification, order, rounding to an integral value (all five modes), conversions, and arithmetic on operands     *)
(*   that are small integers (sums, differences, products below 2^24 are exact in both formats).                        *)
(* Where IEEE leaves a choice that the UniCompiler documentation does not pin down (sign of a zero result produced by   *)
(* an emulation sequence, payload of a NaN result) the expectation is a MARKER (AnyZero / AnyNaN) instead of bytes.     *)
EXTENDS UniBytes

F32 == [n |-> 4, eb |-> 8,  mb |-> 23, bias |-> 127]
F64 == [n |-> 8, eb |-> 11, mb |-> 52, bias |-> 1023]
FmtOf(n) == IF n = 4 THEN F32 ELSE F64

One(n)           == BOfNat(1, n)
Pow2W(k, n)      == BShl(One(n), k)                                  \* the word 2^k
LowMask(k, n)    == BSub(Pow2W(k, n), One(n))                        \* k low bits set (k < 8n)
FSign(A)         == BMsb(A)
FAbsW(A)         == Tab([k \in 1..Len(A) |-> IF k = Len(A) THEN A[k] % 128 ELSE A[k]])   \* exponent|fraction as an unsigned word
FWithSign(M, s)  == Tab([k \in 1..Len(M) |-> IF k = Len(M) THEN (M[k] % 128) + 128 * s ELSE M[k]])
FExp(A, f)       == BToNat(BShr(FAbsW(A), f.mb))                     \* biased exponent (a small number)
FFrac(A, f)      == BAnd(A, LowMask(f.mb, f.n))                      \* fraction field as a word
FMaxExp(f)       == 2^f.eb - 1
FIsNaN(A, f)     == FExp(A, f) = FMaxExp(f) /\ ~BIsZero(FFrac(A, f))
FIsInf(A, f)     == FExp(A, f) = FMaxExp(f) /\ BIsZero(FFrac(A, f))
FIsZero(A)       == BIsZero(FAbsW(A))
FIsFinite(A, f)  == FExp(A, f) < FMaxExp(f)
FInfW(f)         == BShl(BOfNat(FMaxExp(f), f.n), f.mb)
FOneW(f)         == BShl(BOfNat(f.bias, f.n), f.mb)                  \* 1.0

(* IEEE order on non-NaN values (-0 = +0): magnitudes order like the unsigned words exponent|fraction *)
FLtNN(A, B)      == IF FIsZero(A) /\ FIsZero(B) THEN FALSE
                    ELSE IF FSign(A) # FSign(B) THEN FSign(A) = 1
                    ELSE IF FSign(A) = 0 THEN BULt(FAbsW(A), FAbsW(B)) ELSE BULt(FAbsW(B), FAbsW(A))
FEqNN(A, B)      == (FIsZero(A) /\ FIsZero(B)) \/ A = B
FUnord(A, B, f)  == FIsNaN(A, f) \/ FIsNaN(B, f)
FLt(A, B, f)     == ~FUnord(A, B, f) /\ FLtNN(A, B)                  \* ordered comparisons are false on NaN
FLe(A, B, f)     == ~FUnord(A, B, f) /\ (FLtNN(A, B) \/ FEqNN(A, B))
FEq(A, B, f)     == ~FUnord(A, B, f) /\ FEqNN(A, B)

(* markers in expectation vectors (first byte of the lane; the other bytes of the lane are DC) *)
AnyNaN(n)        == Tab([k \in 1..n |-> IF k = 1 THEN -(200 + n) ELSE DC])
AnyZero(n)       == Tab([k \in 1..n |-> IF k = 1 THEN -(300 + n) ELSE DC])
(* a zero of either sign is written as a marker, everything else exactly *)
FRes(M, s)       == IF BIsZero(M) THEN AnyZero(Len(M)) ELSE FWithSign(M, s)

(* ---------------------------------------------------------------------------------------------------------------- *)
(* rounding to an integral value.  mode: "trunc" "floor" "ceil" "even" "away" (ties away from zero) "up" (ties to +oo) *)
(* ---------------------------------------------------------------------------------------------------------------- *)
FRoundMag(A, f, mode) ==   \* the magnitude word exponent|fraction of the rounded value, for finite A
  LET M  == FAbsW(A)
      s  == FSign(A)
      E  == FExp(A, f) - f.bias
      one == FOneW(f)
  IN IF E >= f.mb THEN M
     ELSE IF E < 0 THEN
       LET nz   == ~BIsZero(M)
           half == E = -1 /\ BIsZero(FFrac(A, f))          \* |x| = 0.5
           gt   == E = -1 /\ ~BIsZero(FFrac(A, f))         \* 0.5 < |x| < 1
       IN CASE mode = "trunc" -> BZero(f.n)
            [] mode = "floor" -> IF s = 1 /\ nz THEN one ELSE BZero(f.n)
            [] mode = "ceil"  -> IF s = 0 /\ nz THEN one ELSE BZero(f.n)
            [] mode = "even"  -> IF gt THEN one ELSE BZero(f.n)
            [] mode = "away"  -> IF gt \/ half THEN one ELSE BZero(f.n)
            [] mode = "up"    -> IF gt \/ (half /\ s = 0) THEN one ELSE BZero(f.n)
     ELSE
       LET fb   == f.mb - E                                  \* number of fraction bits below the units position
           fr   == BAnd(M, LowMask(fb, f.n))
           T    == BSub(M, fr)
           Up   == BAdd(T, Pow2W(fb, f.n))
           h    == Pow2W(fb - 1, f.n)
           odd  == BBit(T, fb) = 1 /\ fb < f.mb + 0         \* units bit set (for E = 0 the units bit is the implicit one)
           oddU == IF fb = f.mb THEN TRUE ELSE BBit(T, fb) = 1
           zf   == BIsZero(fr)
       IN CASE mode = "trunc" -> T
            [] mode = "floor" -> IF s = 1 /\ ~zf THEN Up ELSE T
            [] mode = "ceil"  -> IF s = 0 /\ ~zf THEN Up ELSE T
            [] mode = "even"  -> IF BULt(h, fr) \/ (fr = h /\ oddU) THEN Up ELSE T
            [] mode = "away"  -> IF ~BULt(fr, h) THEN Up ELSE T
            [] mode = "up"    -> IF BULt(h, fr) \/ (fr = h /\ s = 0) THEN Up ELSE T
FRound(A, f, mode) == IF FIsNaN(A, f) THEN AnyNaN(f.n)
                      ELSE IF FIsInf(A, f) THEN A
                      ELSE FRes(FRoundMag(A, f, mode), FSign(A))

(* ---------------------------------------------------------------------------------------------------------------- *)
(* integers <-> floats                                                                                              *)
(* ---------------------------------------------------------------------------------------------------------------- *)
(* position of the most significant set bit of a non-zero word *)
BMsbPos(A)       == 8 * Len(A) - 1 - BClz(A)

(* the float nearest (ties to even) to the non-negative integer given as the word m (Len(m) <= f.n is extended), sign s *)
FOfMag(m0, s, f) ==
  LET m == BZExt(m0, 8)                                      \* work in 64 bits
  IN IF BIsZero(m) THEN FWithSign(BZero(f.n), s)
     ELSE LET p == BMsbPos(m)
          IN IF p <= f.mb
             THEN LET fr == BTrunc(BAnd(BShl(m, f.mb - p), LowMask(f.mb, 8)), f.n)
                  IN FWithSign(BOr(BShl(BOfNat(p + f.bias, f.n), f.mb), fr), s)
             ELSE LET fb == p - f.mb
                      T  == BShr(m, fb)                       \* 1.fraction (mb+1 bits)
                      r  == BAnd(m, LowMask(fb, 8))
                      h  == Pow2W(fb - 1, 8)
                      up == BULt(h, r) \/ (r = h /\ BBit(T, 0) = 1)
                      W0 == BAdd(BShl(BOfNat(p + f.bias - 1, 8), f.mb), T)     \* (exp-1)<<mb + 1.fraction = exp<<mb | fraction
                      W  == IF up THEN BInc(W0) ELSE W0
                  IN FWithSign(BTrunc(W, f.n), s)
(* from a two's complement word *)
FOfSInt(A, f)    == IF BMsb(A) = 1 THEN FOfMag(BNeg(A), 1, f) ELSE FOfMag(A, 0, f)
(* from a TLC integer |v| < 2^31 *)
BOfNat4(v)       == Tab([k \in 1..4 |-> (v \div 256^(k - 1)) % 256])
FOfInt(v, f)     == IF v < 0 THEN FOfMag(BOfNat4(-v), 1, f) ELSE FOfMag(BOfNat4(v), 0, f)
FOfIntZ(v, f)    == IF v = 0 THEN AnyZero(f.n) ELSE FOfInt(v, f)       \* zero results of arithmetic: either sign

(* the integer value of A if A is integral with |A| < 2^24 (else ok = FALSE) *)
FIntVal(A, f)    == IF ~FIsFinite(A, f) THEN [ok |-> FALSE, v |-> 0]
                    ELSE IF FIsZero(A) THEN [ok |-> TRUE, v |-> 0]
                    ELSE LET E == FExp(A, f) - f.bias IN
                         IF E < 0 \/ E > 23 THEN [ok |-> FALSE, v |-> 0]
                         ELSE LET sig == BOr(FFrac(A, f), Pow2W(f.mb, f.n))
                                  fb  == f.mb - E
                                  fr  == BAnd(sig, LowMask(fb, f.n))
                                  q   == BShr(sig, fb)
                              IN IF ~BIsZero(fr) THEN [ok |-> FALSE, v |-> 0]
                                 ELSE [ok |-> TRUE, v |-> IF FSign(A) = 1 THEN -(BToNat(q) + 16777216 * q[4]) ELSE BToNat(q) + 16777216 * q[4]]

(* float -> int32 with x86 semantics documented by FloatToIntOutsideRangeBehavior::kSmallestValue:                     *)
(* "In case that the floating point is outside of the integer range, the value is the smallest integer value, which      *)
(*  would be `0x80`, `0x8000`, `0x80000000`, or `0x8000000000000000` depending on the target integer width."             *)
IntMin(nb)       == BSMin(nb)
FToSInt(A, f, mode, nb) ==
  IF FIsNaN(A, f) \/ FIsInf(A, f) THEN IntMin(nb)
  ELSE LET M == FRoundMag(A, f, mode)
       IN IF BIsZero(M) THEN BZero(nb)
          ELSE LET E   == BToNat(BShr(M, f.mb)) - f.bias        \* exponent of the rounded value
                   sig == BZExt(BOr(BAnd(M, LowMask(f.mb, f.n)), Pow2W(f.mb, f.n)), 8)
                   mag == IF E >= f.mb THEN BShl(sig, E - f.mb) ELSE BShr(sig, f.mb - E)
               IN IF E > 8 * nb - 1 THEN IntMin(nb)
                  ELSE IF E = 8 * nb - 1 THEN IntMin(nb)          \* 2^(bits-1): only the negative value fits and it IS IntMin
                  ELSE IF FSign(A) = 1 THEN BNeg(BTrunc(mag, nb)) ELSE BTrunc(mag, nb)

(* binary32 -> binary64 (always exact) *)
F32To64(A) ==
  IF FIsNaN(A, F32) THEN AnyNaN(8)
  ELSE IF FIsInf(A, F32) THEN FWithSign(FInfW(F64), FSign(A))
  ELSE IF FIsZero(A) THEN FWithSign(BZero(8), FSign(A))
  ELSE LET e == FExp(A, F32)
           fr == BZExt(FFrac(A, F32), 8)
       IN IF e > 0 THEN FWithSign(BOr(BShl(BOfNat(e - 127 + 1023, 8), 52), BShl(fr, 29)), FSign(A))
          ELSE LET p == BMsbPos(fr)                              \* subnormal: fr * 2^-149
               IN FWithSign(BOr(BShl(BOfNat(p - 149 + 1023, 8), 52), BAnd(BShl(fr, 52 - p), LowMask(52, 8))), FSign(A))
(* binary64 -> binary32, round to nearest even; results in the subnormal range of binary32 are not specified (DC) *)
F64To32(A) ==
  IF FIsNaN(A, F64) THEN AnyNaN(4)
  ELSE IF FIsInf(A, F64) THEN FWithSign(FInfW(F32), FSign(A))
  ELSE IF FIsZero(A) THEN FWithSign(BZero(4), FSign(A))
  ELSE LET e  == FExp(A, F64) - 1023 + 127
           fr == FFrac(A, F64)
       IN IF e >= 255 THEN FWithSign(FInfW(F32), FSign(A))
          ELSE IF e <= 0 THEN DCs(4)
          ELSE LET T  == BShr(fr, 29)
                   r  == BAnd(fr, LowMask(29, 8))
                   h  == Pow2W(28, 8)
                   up == BULt(h, r) \/ (r = h /\ BBit(T, 0) = 1)
                   W0 == BOr(BShl(BOfNat(e, 8), 23), T)
                   W  == IF up THEN BInc(W0) ELSE W0
               IN FWithSign(BTrunc(W, 4), FSign(A))

(* ---------------------------------------------------------------------------------------------------------------- *)
(* arithmetic on small integers (exact); anything else is outside the specified domain: DC                           *)
(* ---------------------------------------------------------------------------------------------------------------- *)
FArith2(A, B, f, G(_, _)) == LET x == FIntVal(A, f) y == FIntVal(B, f) IN
                             IF x.ok /\ y.ok /\ x.v \in -4096..4096 /\ y.v \in -4096..4096 THEN G(x.v, y.v) ELSE DCs(f.n)
FAddI(A, B, f)   == FArith2(A, B, f, LAMBDA x, y : FOfIntZ(x + y, f))
FSubI(A, B, f)   == FArith2(A, B, f, LAMBDA x, y : FOfIntZ(x - y, f))
FMulI(A, B, f)   == FArith2(A, B, f, LAMBDA x, y : FOfIntZ(x * y, f))
Abs(x)           == IF x < 0 THEN -x ELSE x
SgnMul(x, y)     == IF (x < 0) # (y < 0) THEN -1 ELSE 1
FDivI(A, B, f)   == FArith2(A, B, f, LAMBDA x, y : IF y # 0 /\ Abs(x) % Abs(y) = 0 THEN FOfIntZ(SgnMul(x, y) * (Abs(x) \div Abs(y)), f) ELSE DCs(f.n))
(* "modulo" is specified for positive operands only (there truncation and flooring of the quotient agree) *)
FModI(A, B, f)   == FArith2(A, B, f, LAMBDA x, y : IF x > 0 /\ y > 0 THEN FOfIntZ(x % y, f) ELSE DCs(f.n))
FArith3(A, B, C, f, G(_, _, _)) == LET x == FIntVal(A, f) y == FIntVal(B, f) z == FIntVal(C, f) IN
                             IF x.ok /\ y.ok /\ z.ok /\ x.v \in -1024..1024 /\ y.v \in -1024..1024 /\ z.v \in -4096..4096 THEN G(x.v, y.v, z.v) ELSE DCs(f.n)
RECURSIVE ISqrtB(_, _, _)
ISqrtB(v, lo, hi) == IF lo >= hi THEN lo ELSE LET m == (lo + hi + 1) \div 2 IN IF m * m <= v THEN ISqrtB(v, m, hi) ELSE ISqrtB(v, lo, m - 1)
FSqrtI(A, f)     == LET x == FIntVal(A, f) IN
                    IF x.ok /\ x.v >= 0 /\ x.v <= 4000000 THEN LET r == ISqrtB(x.v, 0, 2000) IN IF r * r = x.v THEN FOfInt(r, f) ELSE DCs(f.n)
                    ELSE DCs(f.n)
(* reciprocal of a power of two +-2^k (normal, result normal): exact *)
FRcpP2(A, f)     == LET e == FExp(A, f) IN
                    IF BIsZero(FFrac(A, f)) /\ e >= 2 /\ e <= 2 * f.bias - 2
                    THEN FWithSign(BShl(BOfNat(2 * f.bias - e, f.n), f.mb), FSign(A)) ELSE DCs(f.n)

(* ---------------------------------------------------------------------------------------------------------------- *)
(* multiply-add on INTEGRAL operands of any magnitude below 2^30 (a, b) / 2^60 (c): the exact product and sum are      *)
(* 64-bit integers, so both documented behaviours (FMAddOpBehavior) are determined bit-exactly:                       *)
(*   fused   : round(+-a*b +- c)              "FMA is available"                                                      *)
(*   unfused : round(round(+-a*b) +- c)       "FMA is not available, thus `madd` is translated into two instructions"   *)
(* ---------------------------------------------------------------------------------------------------------------- *)
FIntW(A, f) ==   \* [ok, s, m]: sign and 64-bit magnitude of an integral finite value below 2^62
  IF ~FIsFinite(A, f) THEN [ok |-> FALSE, s |-> 0, m |-> BZero(8)]
  ELSE IF FIsZero(A) THEN [ok |-> TRUE, s |-> FSign(A), m |-> BZero(8)]
  ELSE LET E == FExp(A, f) - f.bias IN
       IF E < 0 \/ E > 61 THEN [ok |-> FALSE, s |-> 0, m |-> BZero(8)]
       ELSE LET sig == BZExt(BOr(FFrac(A, f), Pow2W(f.mb, f.n)), 8)
                m   == IF E >= f.mb THEN BShl(sig, E - f.mb) ELSE BShr(sig, f.mb - E)
                fr  == IF E >= f.mb THEN BZero(8) ELSE BAnd(sig, LowMask(f.mb - E, 8))
            IN [ok |-> BIsZero(fr), s |-> FSign(A), m |-> m]
SmallW(m, k)     == BIsZero(BShr(m, k))
SignedW(s, m)    == IF s = 1 THEN BNeg(m) ELSE m                       \* two's complement 64-bit
FOfSW(W, f)      == IF BIsZero(W) THEN AnyZero(f.n) ELSE IF BMsb(W) = 1 THEN FOfMag(BNeg(W), 1, f) ELSE FOfMag(W, 0, f)
(* nm: the product is negated; sb: c is subtracted *)
FMulAddI(A, B, C, f, nm, sb, fused) ==
  LET x == FIntW(A, f) y == FIntW(B, f) z == FIntW(C, f) IN
  IF ~(x.ok /\ y.ok /\ z.ok /\ SmallW(x.m, 30) /\ SmallW(y.m, 30) /\ SmallW(z.m, 60)) THEN DCs(f.n)
  ELSE LET pm == BMul(x.m, y.m)
           P  == SignedW((x.s + y.s + (IF nm THEN 1 ELSE 0)) % 2, pm)
           Cw == SignedW((z.s + (IF sb THEN 1 ELSE 0)) % 2, z.m)
       IN IF fused \/ BIsZero(pm) THEN FOfSW(BAdd(P, Cw), f)
          ELSE LET pr == FOfSW(P, f)                                   \* the separately rounded product
                   q  == FIntW(pr, f)
               IN FOfSW(BAdd(SignedW(q.s, q.m), Cw), f)
=============================================================================
