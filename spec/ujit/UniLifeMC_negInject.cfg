SPECIFICATION MSpec
CONSTANTS InjectAtHook = FALSE ResetOnEnd = TRUE MaxFuncs = 1 MaxUses = 2
INVARIANT Dominates
