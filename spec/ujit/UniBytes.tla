------------------------------ MODULE UniBytes ------------------------------
(* X07 library: machine words and SIMD vectors for TLC (whose integers are 32-bit).                                  *)
(*                                                                                                                    *)
(* A WORD is a sequence of bytes 0..255, little endian (index 1 = least significant byte); a w-bit lane of any width  *)
(* therefore never becomes a TLC integer.  A VECTOR is a sequence of 16 / 32 / 64 bytes in memory order, i.e. lane i  *)
(* of width n bytes occupies bytes i*n+1 .. (i+1)*n.  All operators are written from the mathematical definition      *)
(* (two's complement, modulo 2^(8n)), not from any x86 or C++ idiom.  Bitwise & | ^^ on single bytes come from the     *)
(* CommunityModules `Bitwise` module.                                                                                 *)
EXTENDS Integers, Sequences, Bitwise, TLC

(* TLC keeps [k \in S |-> e] as an unevaluated lambda and re-evaluates e on every application; TLCEval makes it a table. *)
Tab(f) == TLCEval(f)

IsBytes(B, n)    == Len(B) = n /\ \A j \in 1..n : B[j] \in 0..255
BZero(n)         == Tab([k \in 1..n |-> 0])
BOnes(n)         == Tab([k \in 1..n |-> 255])
BMask(c, n)      == IF c THEN BOnes(n) ELSE BZero(n)          \* the all-ones / all-zeros lane a SIMD comparison yields
BNot(A)          == Tab([k \in 1..Len(A) |-> 255 - A[k]])
BAnd(A, B)       == Tab([k \in 1..Len(A) |-> A[k] & B[k]])
BOr(A, B)        == Tab([k \in 1..Len(A) |-> A[k] | B[k]])
BXor(A, B)       == Tab([k \in 1..Len(A) |-> A[k] ^^ B[k]])
BMsb(A)          == A[Len(A)] \div 128
BIsZero(A)       == \A k \in 1..Len(A) : A[k] = 0
BBit(A, i)       == (A[(i \div 8) + 1] \div 2^(i % 8)) % 2      \* bit i (0 = lsb)

(* small values: the word of a natural number below 2^24 and back (only used where the value is known to be small) *)
BOfNat(v, n)     == Tab([k \in 1..n |-> IF k <= 3 THEN (v \div 256^(k - 1)) % 256 ELSE 0])
BFits24(A)       == \A k \in 1..Len(A) : k > 3 => A[k] = 0
BToNat(A)        == A[1] + (IF Len(A) >= 2 THEN 256 * A[2] ELSE 0) + (IF Len(A) >= 3 THEN 65536 * A[3] ELSE 0)

BZExt(A, n)      == Tab([k \in 1..n |-> IF k <= Len(A) THEN A[k] ELSE 0])
BSExt(A, n)      == Tab([k \in 1..n |-> IF k <= Len(A) THEN A[k] ELSE 255 * BMsb(A)])
BExt(A, n, sgn)  == IF sgn THEN BSExt(A, n) ELSE BZExt(A, n)
BTrunc(A, n)     == Tab([k \in 1..n |-> A[k]])
BSlice(A, lo, n) == Tab([k \in 1..n |-> A[lo + k]])            \* bytes lo+1 .. lo+n
BCat(A, B)       == A \o B                                      \* B is the more significant part
BRev(A)          == Tab([k \in 1..Len(A) |-> A[Len(A) + 1 - k]])   \* byte swap

(* A + B + cin modulo 2^(8n), and the carry out *)
BCarry(A, B, cin) == LET n == Len(A)
                         c[k \in 0..n] == IF k = 0 THEN cin ELSE (A[k] + B[k] + c[k - 1]) \div 256
                     IN Tab(c)
BAddC(A, B, cin) == LET c == BCarry(A, B, cin) IN Tab([k \in 1..Len(A) |-> (A[k] + B[k] + c[k - 1]) % 256])
BAdd(A, B)       == BAddC(A, B, 0)
BCarryOut(A, B)  == BCarry(A, B, 0)[Len(A)]
BNeg(A)          == BAddC(BNot(A), BZero(Len(A)), 1)
BSub(A, B)       == BAddC(A, BNot(B), 1)
BInc(A)          == BAddC(A, BZero(Len(A)), 1)

(* order: compare from the most significant byte *)
BULt(A, B)       == \E k \in 1..Len(A) : A[k] < B[k] /\ \A j \in (k + 1)..Len(A) : A[j] = B[j]
BULe(A, B)       == A = B \/ BULt(A, B)
BSLt(A, B)       == IF BMsb(A) # BMsb(B) THEN BMsb(A) = 1 ELSE BULt(A, B)
BSLe(A, B)       == A = B \/ BSLt(A, B)
BLt(A, B, sgn)   == IF sgn THEN BSLt(A, B) ELSE BULt(A, B)
BLe(A, B, sgn)   == A = B \/ BLt(A, B, sgn)
BMin(A, B, sgn)  == IF BLt(B, A, sgn) THEN B ELSE A
BMax(A, B, sgn)  == IF BLt(A, B, sgn) THEN B ELSE A
BAbs(A)          == IF BMsb(A) = 1 THEN BNeg(A) ELSE A

(* shifts by s >= 0 bits *)
BShl(A, s)       == LET n == Len(A) q == s \div 8 r == s % 8 IN
                    Tab([k \in 1..n |-> IF k - q < 1 THEN 0
                                        ELSE ((A[k - q] * 2^r) % 256) + (IF k - q - 1 >= 1 THEN A[k - q - 1] \div 2^(8 - r) ELSE 0)])
BShrF(A, s, f)   == LET n == Len(A) q == s \div 8 r == s % 8
                        X(j) == IF j <= n THEN A[j] ELSE f          \* bytes above the word are the fill byte
                    IN Tab([k \in 1..n |-> (X(k + q) \div 2^r) + ((X(k + q + 1) * 2^(8 - r)) % 256)])
BShr(A, s)       == BShrF(A, s, 0)
BSar(A, s)       == BShrF(A, s, 255 * BMsb(A))
BRor(A, s)       == LET w == 8 * Len(A) t == s % w IN IF t = 0 THEN A ELSE BOr(BShr(A, t), BShl(A, w - t))
BRol(A, s)       == LET w == 8 * Len(A) t == s % w IN IF t = 0 THEN A ELSE BOr(BShl(A, t), BShr(A, w - t))

(* A * B modulo 2^(8n): schoolbook on bytes (column sums stay far below 2^31 for n <= 16) *)
RECURSIVE BColSum(_, _, _, _)
BColSum(A, B, k, i) == IF i > k THEN 0 ELSE A[i] * B[k + 1 - i] + BColSum(A, B, k, i + 1)
BMul(A, B)       == LET n == Len(A)
                        t[k \in 0..n] == IF k = 0 THEN 0 ELSE BColSum(A, B, k, 1) + t[k - 1] \div 256
                        T == Tab(t)
                    IN Tab([k \in 1..n |-> T[k] % 256])
(* the full 2n-byte product of two n-byte words read as signed / unsigned *)
BMulWide(A, B, sgn) == BMul(BExt(A, 2 * Len(A), sgn), BExt(B, 2 * Len(B), sgn))

(* unsigned division of words by schoolbook long division on bits (only used for scalar registers) *)
RECURSIVE BDivStep(_, _, _, _, _)
BDivStep(A, B, i, q, r) ==      \* i = bit index going down from the msb; q, r words of Len(A) bytes
  IF i < 0 THEN <<q, r>>
  ELSE LET r1 == BOr(BShl(r, 1), BOfNat(BBit(A, i), Len(A)))
           ge == ~BULt(r1, B)
       IN BDivStep(A, B, i - 1, IF ge THEN BOr(BShl(q, 1), BOfNat(1, Len(A))) ELSE BShl(q, 1), IF ge THEN BSub(r1, B) ELSE r1)
BUDivMod(A, B)   == BDivStep(A, B, 8 * Len(A) - 1, BZero(Len(A)), BZero(Len(A)))
BUDiv(A, B)      == BUDivMod(A, B)[1]
BUMod(A, B)      == BUDivMod(A, B)[2]

(* counting *)
RECURSIVE BClzFrom(_, _)
BClzFrom(A, i)   == IF i < 0 THEN 0 ELSE IF BBit(A, i) = 1 THEN 0 ELSE 1 + BClzFrom(A, i - 1)
BClz(A)          == BClzFrom(A, 8 * Len(A) - 1)              \* leading zeros; 8n for 0
RECURSIVE BCtzFrom(_, _)
BCtzFrom(A, i)   == IF i >= 8 * Len(A) THEN 0 ELSE IF BBit(A, i) = 1 THEN 0 ELSE 1 + BCtzFrom(A, i + 1)
BCtz(A)          == BCtzFrom(A, 0)                            \* trailing zeros; 8n for 0

(* saturation of a (2n or wider) signed word X to the n-byte signed / unsigned range *)
BSMax(n)         == Tab([k \in 1..n |-> IF k = n THEN 127 ELSE 255])
BSMin(n)         == Tab([k \in 1..n |-> IF k = n THEN 128 ELSE 0])
BSatSS(X, n)     == LET m == Len(X) IN      \* signed X -> signed n bytes
                    IF BSLt(BSExt(BSMax(n), m), X) THEN BSMax(n) ELSE IF BSLt(X, BSExt(BSMin(n), m)) THEN BSMin(n) ELSE BTrunc(X, n)
BSatSU(X, n)     == LET m == Len(X) IN      \* signed X -> unsigned n bytes
                    IF BMsb(X) = 1 THEN BZero(n) ELSE IF BULt(BZExt(BOnes(n), m), X) THEN BOnes(n) ELSE BTrunc(X, n)

(* ------------------------------------------------------------------------------------------------------------------ *)
(* vectors                                                                                                            *)
(* ------------------------------------------------------------------------------------------------------------------ *)
Lane(V, n, i)    == Tab([k \in 1..n |-> V[i * n + k]])          \* lane i (from 0) of width n bytes
NLanes(V, n)     == Len(V) \div n
(* the vector whose lane i is R[i] (R: function on 0..m-1 of n-byte words) *)
OfLanes(R, n, m) == Tab([j \in 1..(n * m) |-> R[(j - 1) \div n][((j - 1) % n) + 1]])
Map1(n, a, F(_))          == LET m == NLanes(a, n) R == Tab([i \in 0..(m - 1) |-> F(Lane(a, n, i))]) IN OfLanes(R, n, m)
Map2(n, a, b, F(_, _))    == LET m == NLanes(a, n) R == Tab([i \in 0..(m - 1) |-> F(Lane(a, n, i), Lane(b, n, i))]) IN OfLanes(R, n, m)
Map3(n, a, b, c, F(_, _, _)) == LET m == NLanes(a, n) R == Tab([i \in 0..(m - 1) |-> F(Lane(a, n, i), Lane(b, n, i), Lane(c, n, i))]) IN OfLanes(R, n, m)
(* a vector given lane by lane through an index function G(i) *)
Gen(n, m, G(_))  == LET R == Tab([i \in 0..(m - 1) |-> G(i)]) IN OfLanes(R, n, m)
(* per 128-bit block: F(block of a, block of b) -> 16 bytes *)
Blocks1(a, F(_))        == Map1(16, a, F)
Blocks2(a, b, F(_, _))  == Map2(16, a, b, F)

(* expectation vectors: a byte 0..255 is required exactly, DC = "not part of the contract" *)
DC               == -1
DCs(n)           == Tab([k \in 1..n |-> DC])
=============================================================================
