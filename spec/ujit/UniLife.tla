------------------------------- MODULE UniLife -------------------------------
(* X07 - life cycle of asmjit::ujit::UniCompiler: the contract state machine (documentation quoted in UniLifeDefs.tla). *)
(* One action per API call; an action is enabled exactly for the observations the documented contract allows.           *)
EXTENDS UniLifeDefs

(* ---- the state machine ----                                                                                         *)
(* The state is one record s = [phase, feats, vw, nfunc]; every API call is an event record e (arguments + what the     *)
(* harness observed after the call).  StepOk(s, e) says whether the documented contract allows the observation in      *)
(* state s, StepTo(s, e) is the successor state.  The actions below are the TLA+ state machine; UniLifeObs.tla folds     *)
(* the same two operators over recorded executions (pointwise evaluation of whole executions).                          *)
S0 == [phase |-> "none", feats |-> [avx |-> FALSE], vw |-> -1, nfunc |-> 0]

StepOk(s, e) ==
  CASE e.e = "New"          -> s.phase = "none" /\ NewOk(e)
    [] e.e = "InitVecWidth" -> s.phase = "idle" /\ e.w \in 0..MaxVecWidth(s.feats) /\ VecWidthOk(e)
    [] e.e = "AddFunc"      -> s.phase = "idle" /\ s.vw >= 0 /\ e.o_hook /\ e.o_avx = HasAvx(s.feats) /\ e.o_avx512 = HasAvx512(s.feats)
    [] e.e = "Use"          -> s.phase = "func" /\ e.o_hook
    [] e.e = "EndFunc"      -> s.phase = "func" /\ ~e.o_hook /\ SeqOk(e.seq)
    [] e.e = "Finalize"     -> s.phase = "idle" /\ e.ok /\ e.nfunc = s.nfunc
    [] e.e = "Run"          -> s.phase = "final" /\ e.sig = 0
    [] OTHER                -> FALSE
StepTo(s, e) ==
  CASE e.e = "New"          -> [s EXCEPT !.phase = "idle", !.feats = e]
    [] e.e = "InitVecWidth" -> [s EXCEPT !.vw = e.w]
    [] e.e = "AddFunc"      -> [s EXCEPT !.phase = "func"]
    [] e.e = "EndFunc"      -> [s EXCEPT !.phase = "idle", !.nfunc = s.nfunc + 1]
    [] e.e = "Finalize"     -> [s EXCEPT !.phase = "final"]
    [] OTHER                -> s

VARIABLE s
LInit == s = S0
Act(e)          == StepOk(s, e) /\ s' = StepTo(s, e)
New(e)          == e.e = "New" /\ Act(e)
InitVecWidth(e) == e.e = "InitVecWidth" /\ Act(e)
AddFunc(e)      == e.e = "AddFunc" /\ Act(e)
Use(e)          == e.e = "Use" /\ Act(e)
EndFunc(e)      == e.e = "EndFunc" /\ Act(e)
Finalize(e)     == e.e = "Finalize" /\ Act(e)
Run(e)          == e.e = "Run" /\ Act(e)
=============================================================================
