------------------------------- MODULE UniLife -------------------------------
(* X07 - life cycle of asmjit::ujit::UniCompiler: the contract state machine (documentation quoted in UniLifeDefs.tla). *)
(* One action per API call; an action is enabled exactly for the observations the documented contract allows.           *)
EXTENDS UniLifeDefs

(* ---- the state machine ---- *)
VARIABLES phase,   \* "none" | "idle" | "func" | "final"
          feats,   \* the feature record given at construction
          vw,      \* -1 or the width given to init_vec_width
          nfunc    \* finished functions

lvars == <<phase, feats, vw, nfunc>>
LInit == phase = "none" /\ feats = [avx |-> FALSE] /\ vw = -1 /\ nfunc = 0

New(e)          == phase = "none" /\ NewOk(e) /\ phase' = "idle" /\ feats' = e /\ UNCHANGED <<vw, nfunc>>
InitVecWidth(e) == phase = "idle" /\ e.w \in 0..MaxVecWidth(feats) /\ VecWidthOk(e) /\ vw' = e.w /\ UNCHANGED <<phase, feats, nfunc>>
AddFunc(e)      == phase = "idle" /\ vw >= 0 /\ e.o_hook /\ e.o_avx = HasAvx(feats) /\ e.o_avx512 = HasAvx512(feats)
                   /\ phase' = "func" /\ UNCHANGED <<feats, vw, nfunc>>
Use(e)          == phase = "func" /\ e.o_hook /\ UNCHANGED lvars
EndFunc(e)      == phase = "func" /\ ~e.o_hook /\ SeqOk(e.seq) /\ phase' = "idle" /\ nfunc' = nfunc + 1 /\ UNCHANGED <<feats, vw>>
Finalize(e)     == phase = "idle" /\ e.ok /\ e.nfunc = nfunc /\ phase' = "final" /\ UNCHANGED <<feats, vw, nfunc>>
Run(e)          == phase = "final" /\ e.sig = 0 /\ UNCHANGED lvars
=============================================================================
