------------------------------- MODULE ConstPool -------------------------------
(* Contract-level specification of asmjit's ConstPool (property C19).           *)
(*                                                                              *)
(* State: the constants returned so far and the bytes they designate.  `Add`    *)
(* is parameterised by the *result* (offset, new pool size, new alignment): the *)
(* action is enabled exactly for the results the contract allows, so the same   *)
(* action serves (1) refinement checking of the algorithm (ConstPoolImpl) and   *)
(* (2) validation of traces recorded from the real code (ConstPoolTrace).       *)
EXTENDS Naturals, Sequences, FiniteSets

VARIABLES consts,   \* set of [data, size, off] handed out by successful Add calls
          img,      \* function offset -> byte: every byte designated by a returned constant
          psize,    \* pool.size()
          palign    \* pool.alignment()

cvars == <<consts, img, psize, palign>>

ValidSize(n) == n \in {1, 2, 4, 8, 16, 32, 64}

CInit == /\ consts = {}
         /\ img = <<>>
         /\ psize = 0
         /\ palign = 0

Known(data, sz) == {c \in consts : c.data = data /\ c.size = sz}

(* A successful add.  `off`, `nsize`, `nalign` are what the pool reported. *)
AddOk(data, sz, off, nsize, nalign) ==
  /\ ValidSize(sz) /\ Len(data) = sz
  /\ off % sz = 0                                             \* Aligned
  /\ IF Known(data, sz) # {}
       THEN /\ \A c \in Known(data, sz) : c.off = off          \* Stable + Dedup
            /\ nsize = psize /\ nalign = palign
            /\ UNCHANGED <<consts, img>>
       ELSE /\ \A i \in 0 .. sz - 1 :                          \* storage is fresh, or shared with equal bytes
                 (off + i) \in DOMAIN img => img[off + i] = data[i + 1]
            /\ nsize >= psize /\ nsize >= off + sz             \* size covers everything
            /\ nalign >= palign /\ nalign % sz = 0             \* alignment covers everything
            /\ consts' = consts \cup {[data |-> data, size |-> sz, off |-> off]}
            /\ img' = [o \in DOMAIN img \cup (off .. off + sz - 1) |->
                         IF o \in off .. off + sz - 1 THEN data[o - off + 1] ELSE img[o]]
  /\ psize' = nsize
  /\ palign' = nalign

(* An add with an unsupported size must be refused and change nothing. *)
AddRefused(data, sz) ==
  /\ ~ValidSize(sz)
  /\ UNCHANGED cvars

(* Writing the pool out. *)
FillOk(image) ==
  /\ Len(image) = psize
  /\ \A o \in 0 .. psize - 1 : image[o + 1] = (IF o \in DOMAIN img THEN img[o] ELSE 0)
  /\ UNCHANGED cvars

(* ---- the property, as state invariants over the contract state ---- *)
Aligned     == \A c \in consts : c.off % c.size = 0
Dedup       == \A a, b \in consts : (a.data = b.data /\ a.size = b.size) => a.off = b.off
Covered     == \A c \in consts : c.off + c.size <= psize /\ palign % c.size = 0
ContentsOK  == \A c \in consts : \A i \in 0 .. c.size - 1 : img[c.off + i] = c.data[i + 1]
(* distinct storage never overlaps: two constants overlap only where their bytes coincide (sharing) - this is *)
(* exactly ContentsOK, since img is a function.                                                              *)
CInv == Aligned /\ Dedup /\ Covered /\ ContentsOK
=============================================================================
