---------------------------- MODULE ConstPoolTrace -----------------------------
(* Trace validation for C19: a trace recorded from the real ConstPool is         *)
(* accepted iff it is a behaviour of the contract ConstPool.tla.                 *)
EXTENDS ConstPool, TraceLib

VARIABLE l
tvars == <<consts, img, psize, palign, l>>

T == TraceLog
Ev == T[l]
IsEv(e) == l <= Len(T) /\ Ev.e = e /\ l' = l + 1

TInit == CInit /\ l = 1 /\ InitProgress

TReset == IsEv("Reset") /\ consts' = {} /\ img' = <<>> /\ psize' = 0 /\ palign' = 0

TAddOk == /\ IsEv("Add") /\ Ev.r = "Ok"
          /\ AddOk(Ev.data, Ev.size, Ev.off, Ev.psize, Ev.palign)

TAddRefused == /\ IsEv("Add") /\ Ev.r # "Ok"
               /\ AddRefused(Ev.data, Ev.size)
               /\ Ev.psize = psize /\ Ev.palign = palign      \* reported state unchanged

TFill == /\ IsEv("Fill")
         /\ Ev.guards                                       \* nothing written outside [0, size)
         /\ FillOk(Ev.image)

(* embed_const_pool through an emitter: label bound at a position aligned to the pool alignment, followed by *)
(* exactly the pool image                                                                                     *)
TEmbed == /\ IsEv("Embed")
          /\ Ev.r = "Ok" /\ Ev.bound
          /\ (palign > 0 => Ev.lab % palign = 0)
          /\ Ev.lab >= Ev.pre
          /\ FillOk(Ev.image)

TNext == TReset \/ TAddOk \/ TAddRefused \/ TFill \/ TEmbed
TSpec == TInit /\ [][TNext]_tvars

Progress == NoteProgress(l)
TraceAccepted == Accepted(Len(T))
=============================================================================
