------------------------------ MODULE ConstPoolMC ------------------------------
EXTENDS ConstPoolImpl
(* byte alphabet {1,2}; 4-byte atoms A/B so that halves and quarters of wide constants collide on purpose *)
A == <<1, 1, 1, 1>>
B == <<2, 2, 2, 2>>
MCValues ==
  { <<1>>, <<2>>, <<1, 2>>, <<2, 2>>, A, B, <<1, 1, 2, 2>>,
    A \o A, A \o B, B \o A,
    A \o A \o B \o B, A \o B \o A \o B,
    A \o A \o A \o A \o B \o B \o B \o B,
    <<>>, <<1, 2, 1>> }
MCValuesWide ==
  MCValues \cup { A \o B \o B \o A \o A \o A \o B \o B \o A \o B \o B \o A \o A \o A \o B \o A,
                  B \o B \o B \o A \o A \o A \o B \o B }
=============================================================================
