SPECIFICATION Spec
CONSTANTS
  Values <- MCValues
  MaxAdds = 5
INVARIANTS ContractInv FillInv GapsFree OwnedOnce
PROPERTY RefinesContract
VIEW View
