----------------------------- MODULE ConstPoolImpl -----------------------------
(* Implementation-shaped specification of ConstPool::add / fill                  *)
(* (asmjit/core/constpool.cpp), transcribed statement by statement: one tree     *)
(* per size class, LIFO gap lists per size class, aligned append with gap        *)
(* splitting, registration of shared sub-constants down to 4 bytes.              *)
(* TLC checks that every step of this algorithm is a step of the contract        *)
(* (ConstPool.tla) - refinement as an action property - for all short histories. *)
EXTENDS Naturals, Sequences, FiniteSets, TLC

CONSTANTS Values,     \* set of byte sequences offered to Add (valid and invalid lengths)
          MaxAdds

VARIABLES tree,      \* [0..6 -> set of [data, off, shared]]
          gaps,      \* [0..6 -> Seq([off, size])]  head = most recently added
          size, alignment,
          consts, img,              \* contract (ghost) state
          last,                     \* last call: [data, sz, err, off]
          hist                      \* history of calls (for behaviour export)

vars == <<tree, gaps, size, alignment, consts, img, last, hist>>

C == INSTANCE ConstPool WITH psize <- size, palign <- alignment

Log2(n) == CHOOSE k \in 0 .. 6 : 2 ^ k = n
None == 99999

RECURSIVE AddGap(_, _, _)
AddGap(g, off, sz) ==
  IF sz = 0 THEN g
  ELSE LET pick(gs) == sz >= gs /\ off % gs = 0
           gs == IF pick(32) THEN 32 ELSE IF pick(16) THEN 16 ELSE IF pick(8) THEN 8
                 ELSE IF pick(4) THEN 4 ELSE IF pick(2) THEN 2 ELSE 1
           k  == Log2(gs)
       IN AddGap([g EXCEPT ![k] = <<[off |-> off, size |-> gs]>> \o @], off + gs, sz - gs)

(* The gap loop exactly as written: it runs (6 - k) times and looks at gaps[k] every time. *)
RECURSIVE GapLoop(_, _, _, _, _)
GapLoop(n, k, sz, g, off) ==
  IF n = 0 THEN [g |-> g, off |-> off]
  ELSE IF g[k] = <<>> THEN GapLoop(n - 1, k, sz, g, off)
  ELSE LET h  == Head(g[k])
           g1 == [g EXCEPT ![k] = Tail(@)]
           g2 == IF h.size - sz > 0 THEN AddGap(g1, h.off, h.size - sz) ELSE g1
       IN GapLoop(n - 1, k, sz, g2, h.off)

(* shared sub-constants of `data` placed at `off`, per tree index, skipping data already present *)
SubData(data, ssz, i) == SubSeq(data, i * ssz + 1, (i + 1) * ssz)
RECURSIVE Shared(_, _, _, _)
Shared(t, data, off, ssz) ==
  IF ssz < 4 THEN t
  ELSE LET k == Log2(ssz)
           cnt == Len(data) \div ssz
           fresh == {i \in 0 .. cnt - 1 :
                       /\ ~\E n \in t[k] : n.data = SubData(data, ssz, i)
                       /\ ~\E j \in 0 .. i - 1 : SubData(data, ssz, j) = SubData(data, ssz, i)}
           t1 == [t EXCEPT ![k] = @ \cup {[data |-> SubData(data, ssz, i), off |-> off + i * ssz, shared |-> TRUE] : i \in fresh}]
       IN Shared(t1, data, off, ssz \div 2)

Add(data) ==
  LET sz == Len(data) IN
  /\ Len(hist) < MaxAdds
  /\ hist' = Append(hist, data)
  /\ IF ~C!ValidSize(sz)
       THEN /\ last' = [data |-> data, sz |-> sz, err |-> "InvalidArgument", off |-> 0]
            /\ UNCHANGED <<tree, gaps, size, alignment, consts, img>>
       ELSE LET k == Log2(sz)
                found == {n \in tree[k] : n.data = data}
            IN IF found # {}
                 THEN /\ last' = [data |-> data, sz |-> sz, err |-> "Ok", off |-> (CHOOSE n \in found : TRUE).off]
                      /\ UNCHANGED <<tree, gaps, size, alignment>>
                      /\ consts' = consts \cup {[data |-> data, size |-> sz, off |-> last'.off]}
                      /\ img' = [o \in DOMAIN img \cup (last'.off .. last'.off + sz - 1) |->
                                   IF o \in last'.off .. last'.off + sz - 1 THEN data[o - last'.off + 1] ELSE img[o]]
                 ELSE LET lp   == GapLoop(6 - k, k, sz, gaps, None)
                          diff == (sz - (size % sz)) % sz
                          g3   == IF lp.off = None /\ diff # 0 THEN AddGap(lp.g, size, diff) ELSE lp.g
                          off  == IF lp.off = None THEN size + diff ELSE lp.off
                          nsz  == IF lp.off = None THEN size + diff + sz ELSE size
                          t1   == [tree EXCEPT ![k] = @ \cup {[data |-> data, off |-> off, shared |-> FALSE]}]
                      IN /\ gaps' = g3
                         /\ size' = nsz
                         /\ alignment' = IF alignment > sz THEN alignment ELSE sz
                         /\ tree' = Shared(t1, data, off, sz \div 2)
                         /\ last' = [data |-> data, sz |-> sz, err |-> "Ok", off |-> off]
                         /\ consts' = consts \cup {[data |-> data, size |-> sz, off |-> off]}
                         /\ img' = [o \in DOMAIN img \cup (off .. off + sz - 1) |->
                                      IF o \in off .. off + sz - 1 THEN data[o - off + 1] ELSE img[o]]

(* fill(): zero everything, then copy every non-shared node *)
Image == [o \in 1 .. size |->
            LET owners == {n \in UNION {tree[k] : k \in 0 .. 6} : ~n.shared /\ o - 1 \in n.off .. n.off + Len(n.data) - 1}
            IN IF owners = {} THEN 0 ELSE LET n == CHOOSE n \in owners : TRUE IN n.data[o - n.off]]

Init == /\ tree = [k \in 0 .. 6 |-> {}]
        /\ gaps = [k \in 0 .. 6 |-> <<>>]
        /\ size = 0 /\ alignment = 0
        /\ consts = {} /\ img = <<>>
        /\ last = [data |-> <<>>, sz |-> 0, err |-> "None", off |-> 0]
        /\ hist = <<>>

Next == \E d \in Values : Add(d)
Spec == Init /\ [][Next]_vars

(* ---- refinement: every Add is a contract step ---- *)
RefinesContract ==
  [][ \/ (last'.err = "Ok" /\ C!AddOk(last'.data, last'.sz, last'.off, size', alignment'))
      \/ (last'.err # "Ok" /\ C!AddRefused(last'.data, last'.sz)) ]_vars

ContractInv == C!CInv
FillExact == C!FillOk(Image)     \* evaluated as a state predicate: UNCHANGED parts are trivially true? no - see FillInv
FillInv == /\ Len(Image) = size
           /\ \A o \in 0 .. size - 1 : Image[o + 1] = (IF o \in DOMAIN img THEN img[o] ELSE 0)

(* structural invariants of the algorithm itself *)
NodeBytes(k) == UNION {n.off .. n.off + 2 ^ k - 1 : n \in {m \in tree[k] : ~m.shared}}
GapsFree == \A k \in 0 .. 6 : \A i \in 1 .. Len(gaps[k]) :
              LET g == gaps[k][i] IN
              /\ g.off + g.size <= size
              /\ \A o \in g.off .. g.off + g.size - 1 : o \notin DOMAIN img
OwnedOnce == \A k1, k2 \in 0 .. 6 : \A a \in tree[k1], b \in tree[k2] :
              (~a.shared /\ ~b.shared /\ a # b) =>
                 (a.off .. a.off + Len(a.data) - 1) \cap (b.off .. b.off + Len(b.data) - 1) = {}

View == <<tree, gaps, size, alignment, consts, img>>

(* behaviour export: print the call history of every maximal behaviour *)
Export == Len(hist) = MaxAdds => PrintT(<<"BEH", hist>>)
=============================================================================
