----------------------------- MODULE InvokeImpl -----------------------------
(* X06 Part A, design level: a model of *a* code generator for the scenarios of Invoke.tla, shaped like what     *)
(* asmjit's register allocator and on_before_invoke / on_invoke do (x86rapass.cpp, ralocal.cpp):                  *)
(*   - every virtual register lives in a physical register or in its spill slot (nondeterministic choice: TLC    *)
(*     explores every assignment the small register file allows, and register-to-register / spill moves);       *)
(*   - an invoke (1) evacuates every live value from the registers the callee may clobber, (2) writes the         *)
(*     designated values to the argument registers / outgoing stack words ABI.tla prescribes, (3) sets al for a   *)
(*     variadic callee, (4) the callee overwrites every register the convention does not preserve and returns in  *)
(*     rax / xmm0, (5) the result is bound to the register given to set_ret;                                       *)
(*   - the epilog restores the callee-saved registers f used.                                                      *)
(* What the callee and f's caller *observe* is assembled from this machine state exactly the way the thunks of    *)
(* harness/invoke.cpp assemble it, and every step must be a step of the contract (Invoke!InvokeOk / LeaveOk):      *)
(* invariant ContractHolds.  Coherent (each defined virtual register is found at its location) is the usual       *)
(* register-allocation simulation relation.  Bug # "none" seeds one typical slip; each must violate ContractHolds *)
(* (negative controls: the contract is not vacuous).                                                              *)
EXTENDS Invoke
CONSTANTS Scenarios,    \* set of scenarios (records of the shape the harness executes)
          RetVals,      \* values the abstract callee may return
          Cov,          \* TRUE: every action taken prints its name (action coverage; TLC's -coverage cannot cope with this spec)
          MaxMoves,     \* how many gratuitous moves of the allocator are explored
          Bug           \* "none" | "keepVolatile" | "stackPacked" | "noAl" | "retWrongReg" | "misalign" | "dupArg" | "noRestore" | "wrongOrder"

VARIABLES s,       \* the scenario
          m,       \* contract machine (Invoke!Start ..)
          loc,     \* virtual register -> <<"gp", id>> | <<"vec", id>> | <<"spill", v>>
          regs,    \* <<group, id>> -> value
          spill,   \* v -> value
          omem,    \* out buffer written so far: slot -> [sz, val]
          used,    \* callee-saved registers f wrote
          moves,   \* gratuitous moves so far
          phase,   \* "run" | "done"
          ok       \* every observation so far satisfied the contract
ivars == <<s, m, loc, regs, spill, omem, used, moves, phase, ok>>

JunkL == 51966                                         \* 0xCAFE
Junk(n) == [q \in 1..n |-> JunkL]
GpUniverse == {0, 1, 2, 3, 6, 7, 8, 9, 12}
VecUniverse == 0..8
CalleeSavedGp == A!MustPreserveGp(ABIName) \cap GpUniverse            \* rbx, r12
Volatile(r) == r[1] = "vec" \/ r[2] \notin A!MustPreserveGp(ABIName)
GroupOf(t) == IF Cls(t) = "int" THEN "gp" ELSE "vec"
RegLimbs(g) == IF g = "gp" THEN 4 ELSE 16

(* a value of sz bytes travelling in a wider container: the rest is junk (the ABI leaves it undefined) *)
Widen(v, sz, n) ==
  [q \in 1..n |-> IF sz = 1 THEN (IF q = 1 THEN v[1] + 256 * (JunkL \div 256) ELSE JunkL)
                  ELSE IF q <= sz \div 2 THEN v[q] ELSE JunkL]

ValueAt(l) == IF l[1] = "spill" THEN spill[l[2]] ELSE regs[<<l[1], l[2]>>]
Holder(r) == { v \in DOMAIN loc : loc[v] = r }
(* where a new value of virtual register v may be put: a free register of a small candidate set, or its spill slot *)
Cands(g) == IF g = "gp" THEN {3, 12, 6, 0} ELSE {0, 5}
FLocs == ArgLocs(s.f)
FLoc(i) == CHOOSE x \in FLocs[i].pk[1] : TRUE
(* registers that still hold an incoming argument f has not bound yet *)
Incoming == { <<FLoc(m.k[q].i).g, FLoc(m.k[q].i).id>> : q \in { x \in 1..Len(m.k) : m.k[x].op = "arg" /\ FLoc(m.k[x].i).k = "reg" } }
Places(v) == LET g == GroupOf(VT(s, v)) IN
             { <<g, id>> : id \in { c \in Cands(g) : Holder(<<g, c>>) \subseteq {v} /\ <<g, c>> \notin Incoming } } \cup { <<"spill", v>> }

Put(l, v, val, sz) ==
  IF l[1] = "spill" THEN /\ spill' = FSet(spill, v, val) /\ UNCHANGED regs
  ELSE /\ regs' = [regs EXCEPT ![<<l[1], l[2]>>] = Widen(val, sz, RegLimbs(l[1]))] /\ UNCHANGED spill
NoteUsed(l) == used' = IF l[1] = "gp" /\ l[2] \in CalleeSavedGp THEN used \cup {l[2]} ELSE used

Run == s.runs[1]
St == m.k[1]
Taken(a) == Cov => PrintT(<<"ACT", a>>)

(* f is entered with its arguments where ABI.tla puts them, junk everywhere else *)
Init == /\ s \in Scenarios
        /\ m = Start(s)
        /\ loc = << >> /\ spill = << >> /\ omem = << >> /\ used = {} /\ moves = 0
        /\ regs = [r \in ({"gp"} \X GpUniverse) \cup ({"vec"} \X VecUniverse) |->
                    LET is == { i \in 1..Len(s.f.args) : FLoc(i).k = "reg" /\ <<FLoc(i).g, FLoc(i).id>> = r } IN
                    IF is = {} THEN Junk(RegLimbs(r[1]))
                    ELSE LET i == CHOOSE x \in is : TRUE IN Widen(Low(Run.args[i], Sz(s.f.args[i])), Sz(s.f.args[i]), RegLimbs(r[1]))]
        /\ phase = "run" /\ ok = TRUE

(* the value of virtual register v as the machine holds it, cut to the register's type *)
Held(v) == Low(ValueAt(loc[v]), VSz(s, v))

(* --- steps that call nothing ------------------------------------------------------------------------- *)
(* FuncNode::set_arg: the argument is where f's own caller put it *)
IArg == /\ phase = "run" /\ AtSilent(m) /\ St.op = "arg" /\ Taken("IArg")
        /\ LET l0 == FLoc(St.i)
               src == IF l0.k = "reg" THEN <<l0.g, l0.id>> ELSE <<"spill", St.v>> IN
           /\ loc' = FSet(loc, St.v, src)
           /\ spill' = IF l0.k = "reg" THEN spill ELSE FSet(spill, St.v, Low(Run.args[St.i], VSz(s, St.v)))
        /\ m' = Silent(s, Run, m)
        /\ UNCHANGED <<s, regs, omem, used, moves, phase, ok>>

IDef == /\ phase = "run" /\ AtSilent(m) /\ St.op \in {"imm", "mov"} /\ Taken("IDef")
        /\ LET val == IF St.op = "imm" THEN Low(St.val, VSz(s, St.v)) ELSE Held(St.a) IN
           \E l \in Places(St.v) :
              /\ loc' = FSet(loc, St.v, l)
              /\ Put(l, St.v, val, VSz(s, St.v))
              /\ NoteUsed(l)
        /\ m' = Silent(s, Run, m)
        /\ UNCHANGED <<s, omem, moves, phase, ok>>

IArith == /\ phase = "run" /\ AtSilent(m) /\ St.op \in {"add", "addi"} /\ Taken("IArith")
          /\ LET sz == VSz(s, St.v)
                 b == IF St.op = "add" THEN Held(St.a) ELSE Low(St.val, sz) IN
             Put(loc[St.v], St.v, AddL(Held(St.v), b, sz), sz)
          /\ m' = Silent(s, Run, m)
          /\ UNCHANGED <<s, loc, omem, used, moves, phase, ok>>

IStore == /\ phase = "run" /\ AtSilent(m) /\ St.op = "store" /\ Taken("IStore")
          /\ omem' = FSet(omem, St.slot, [sz |-> VSz(s, St.v), val |-> Held(St.v)])
          /\ m' = Silent(s, Run, m)
          /\ UNCHANGED <<s, loc, regs, spill, used, moves, phase, ok>>

(* loop / ifnz: control only (the branch is taken on the value the machine holds) *)
ICtl == /\ phase = "run" /\ AtSilent(m) /\ St.op \in {"loop", "ifnz", "switch", "stk", "stkrt"} /\ Taken("ICtl")
        /\ m' = IF St.op = "ifnz"
                THEN [m EXCEPT !.k = (IF IsZero(Held(St.v)) THEN <<>> ELSE St.body) \o Tail(m.k)]
                ELSE Silent(s, Run, m)
        /\ omem' = IF St.op = "stk" THEN FSet(omem, St.slot, [sz |-> 8, val |-> <<0, 0, 0, 0>>]) ELSE omem
        /\ UNCHANGED <<s, loc, regs, spill, used, moves, phase, ok>>

(* the allocator may move a value at any time (at most to a free place) *)
IMove == /\ phase = "run" /\ m.k # <<>> /\ moves < MaxMoves /\ Taken("IMove")
         /\ moves' = moves + 1
         /\ \E v \in DOMAIN loc : \E l \in Places(v) \ {loc[v]} :
               /\ loc' = [loc EXCEPT ![v] = l]
               /\ Put(l, v, Held(v), VSz(s, v))
               /\ NoteUsed(l)
         /\ UNCHANGED <<s, m, omem, phase, ok>>

(* --- invoke ------------------------------------------------------------------------------------------ *)
Cal == s.callees[St.c]
(* (1) live values leave the registers the callee may overwrite *)
Evacuated(v) == Bug # "keepVolatile" /\ loc[v][1] # "spill" /\ Volatile(loc[v])
LocE == [v \in DOMAIN loc |-> IF Evacuated(v) THEN <<"spill", v>> ELSE loc[v]]
SpillE == [v \in DOMAIN spill \cup { x \in DOMAIN loc : Evacuated(x) } |-> IF v \in DOMAIN loc /\ Evacuated(v) THEN Held(v) ELSE spill[v]]

(* (2) designated values; L = sequence of ABI locations of the callee's arguments (computed once per call) *)
ArgVal(j) == LET d == St.args[j] psz == Sz(Cal.args[j]) IN
             IF d.k = "v" THEN Low(ValueAt(loc[d.v]), psz) ELSE IF d.k = "imm" THEN Low(d.val, psz) ELSE Low(Junk(16), psz)
FirstUse(j) == \A j2 \in 1..(j - 1) : St.args[j2] # St.args[j]
Passed(j) == IF Bug = "dupArg" /\ St.args[j].k = "v" /\ ~FirstUse(j) THEN Low(Junk(16), Sz(Cal.args[j])) ELSE ArgVal(j)
(* position of argument j among the register arguments of its group, reversed by the seeded slip "wrongOrder" *)
RegArgs(L, g) == { j \in 1..Len(L) : L[j].k = "reg" /\ L[j].g = g }
Mirror(L, j) == LET S0 == RegArgs(L, L[j].g)
                    rank(x) == Cardinality({ y \in S0 : y < x })
                IN CHOOSE y \in S0 : rank(y) = Cardinality(S0) - 1 - rank(j)
Src(L, j) == IF Bug = "wrongOrder" /\ L[j].k = "reg" /\ SameKind(Cal.args[j], Cal.args[Mirror(L, j)]) THEN Mirror(L, j) ELSE j

GpView(L) == [q \in 1..6 |->
                LET js == { j \in 1..Len(L) : L[j] = A!R("gp", SysvGpOrder[q]) } IN
                IF js = {} THEN Junk(4) ELSE LET j == CHOOSE x \in js : TRUE IN Widen(Passed(Src(L, j)), Sz(Cal.args[j]), 4)]
VecView(L) == [q \in 1..8 |->
                 LET js == { j \in 1..Len(L) : L[j] = A!R("vec", q - 1) } IN
                 IF js = {} THEN Junk(16) ELSE LET j == CHOOSE x \in js : TRUE IN Widen(Passed(Src(L, j)), Sz(Cal.args[j]), 16)]
StackArgs(L) == { j \in 1..Len(L) : L[j].k = "stack" }
(* the seeded slip "stackPacked" stores 4-byte arguments at 4-byte granularity *)
StackOff(L, j) == IF Bug = "stackPacked"
                  THEN LET before == { x \in StackArgs(L) : x < j } IN
                       IF \A x \in before \cup {j} : Sz(Cal.args[x]) <= 4 THEN 4 * Cardinality(before) ELSE L[j].off
                  ELSE L[j].off
NWords == s.stackwords
StackView(L) ==
  LET sa == StackArgs(L)
      off == [j \in sa |-> StackOff(L, j)]
      val == [j \in sa |-> Passed(j)]
      byte(b) == LET js == { j \in sa : b >= off[j] /\ b < off[j] + Sz(Cal.args[j]) } IN
                 IF js = {} THEN (IF b % 2 = 0 THEN JunkL % 256 ELSE JunkL \div 256)
                 ELSE LET j == CHOOSE x \in js : \A y \in js : y <= x
                          o == b - off[j]
                          limb == IF Sz(Cal.args[j]) = 1 THEN val[j][1] ELSE val[j][o \div 2 + 1] IN
                      IF o % 2 = 0 THEN limb % 256 ELSE limb \div 256 IN
  [w \in 1..NWords |-> [q \in 1..4 |-> byte(8 * (w - 1) + 2 * (q - 1)) + 256 * byte(8 * (w - 1) + 2 * (q - 1) + 1)]]

IInvoke ==
  /\ phase = "run" /\ AtInvoke(m) /\ Taken("IInvoke")
  /\ \E rv \in RetVals :
       LET cl == ArgLocs(Cal)
           L == [j \in 1..Len(Cal.args) |-> CHOOSE x \in cl[j].pk[1] : TRUE]
           used8 == IF Len(Cal.args) = 0 THEN 0 ELSE (cl[Len(Cal.args)].off + 7) \div 8
           rother == [q \in 1..16 |-> (rv[q] + 4660) % 65536]
           retGp == Cal.ret = "void" \/ A!R("gp", 0) \in A!ExpectedRet(ABIName, Cal.ret)[1]
           obs == [idx |-> Cal.thunk, gp |-> GpView(L), vec |-> VecView(L), stack |-> StackView(L),
                   al |-> IF Cal.va # 255 /\ Bug # "noAl" THEN NVecRegs(cl) ELSE 193,
                   sp64 |-> IF Bug = "misalign" /\ used8 % 2 = 1 THEN 0 ELSE 8,
                   ret |-> [rax |-> IF retGp THEN Pad(rv, 4) ELSE Pad(rother, 4), rdx |-> Junk(4),
                            v0 |-> IF retGp THEN rother ELSE rv, v1 |-> Junk(16)]]
           (* (5) where the caller picks the result up *)
           taken == IF (retGp /\ Bug # "retWrongReg") \/ (~retGp /\ Bug = "retWrongReg") THEN obs.ret.rax ELSE obs.ret.v0
           hasRet == St.ret # 0 /\ Cal.ret # "void"
           rloc == IF hasRet THEN <<GroupOf(VT(s, St.ret)), 0>> ELSE <<"gp", 0>>
           locA == IF hasRet THEN FSet(LocE, St.ret, rloc) ELSE LocE
       IN
       /\ ok' = (ok /\ InvokeOk(s, m, obs))
       /\ m' = AfterInvoke(s, m, obs)
       /\ loc' = locA
       /\ spill' = SpillE
       (* (4) the callee overwrote every register the convention does not preserve *)
       /\ regs' = [r \in DOMAIN regs |->
                     IF hasRet /\ r = rloc THEN Widen(Low(taken, VSz(s, St.ret)), VSz(s, St.ret), RegLimbs(r[1]))
                     ELSE IF Volatile(r) THEN Junk(RegLimbs(r[1])) ELSE regs[r]]
  /\ UNCHANGED <<s, omem, used, moves, phase>>

(* --- return ------------------------------------------------------------------------------------------ *)
SlotView(sl) ==
  IF sl \in DOMAIN omem
  THEN LET sz == omem[sl].sz v == omem[sl].val IN
       [q \in 1..SlotLimbs |-> IF sz = 1 THEN (IF q = 1 THEN v[1] + 256 * (FillLimb \div 256) ELSE FillLimb)
                               ELSE IF q <= sz \div 2 THEN v[q] ELSE FillLimb]
  ELSE [q \in 1..SlotLimbs |-> FillLimb]

ILeave ==
  /\ phase = "run" /\ AtEnd(m) /\ Taken("ILeave")
  /\ LET hasRet == s.retv # 0 /\ s.f.ret # "void"
         retGp == hasRet /\ A!R("gp", 0) \in A!ExpectedRet(ABIName, s.f.ret)[1]
         rv == IF hasRet THEN Held(s.retv) ELSE Junk(4)
         canary(id) == <<id, 0, 0, 49374>>
         obs == [rax |-> IF retGp THEN Widen(rv, Sz(s.f.ret), 4) ELSE Junk(4), rdx |-> Junk(4),
                 v0 |-> IF hasRet /\ ~retGp THEN Widen(rv, Sz(s.f.ret), 16) ELSE Junk(16),
                 out |-> [sl \in 1..s.nslots |-> SlotView(sl)],
                 guards |-> TRUE, sp_ok |-> TRUE, ncalls |-> m.ncall,
                 cs |-> [q \in 1..2 |-> LET id == IF q = 1 THEN 3 ELSE 12 IN
                           [id |-> id, a |-> canary(id), b |-> IF Bug = "noRestore" /\ id \in used THEN Junk(4) ELSE canary(id)]]] IN
     ok' = (ok /\ LeaveOk(s, m, obs))
  /\ phase' = "done"
  /\ UNCHANGED <<s, m, loc, regs, spill, omem, used, moves>>

Next == IArg \/ IDef \/ IArith \/ IStore \/ ICtl \/ IMove \/ IInvoke \/ ILeave
Spec == Init /\ [][Next]_ivars

(* ------------------------------------------------------------------------------------------------------- *)
ContractHolds == ok
Coherent == phase = "run" => \A v \in DOMAIN loc : v \in DOMAIN m.env => Held(v) = m.env[v]
OutCoherent == \A sl \in DOMAIN omem : sl \in DOMAIN m.out /\ omem[sl] = m.out[sl]
OneHolder == \A v1, v2 \in DOMAIN loc : (v1 # v2 /\ loc[v1] = loc[v2]) => FALSE
Finishes == <>(phase = "done")
=============================================================================
