SPECIFICATION Spec
INVARIANT Accepts
