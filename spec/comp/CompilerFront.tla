---------------------------- MODULE CompilerFront ----------------------------
(* X06 Part B: the life cycle of the Compiler front end (asmjit/core/compiler.h/.cpp, x86compiler.h, a64compiler.h)  *)
(* as far as its headers document it.  Contract level: every action is parameterised by what the real call reported  *)
(* (error class, ids of the nodes it produced, projection p of the real emitter after the call) and is enabled        *)
(* exactly for reports the documentation allows.                                                                     *)
(*                                                                                                                    *)
(* State = what a user of the API can see:                                                                            *)
(*   seq, cur   the node list and the cursor (BaseBuilder: a new node goes after the cursor and becomes the cursor;    *)
(*              that part of the contract is C08's Builder.tla and is only restated for the calls used here)          *)
(*   kind       node id -> "section" | "func" | "label" | "sentinel" | "invoke" | "funcret" | "inst" | "jump" | "pool" *)
(*   func       the function being generated (BaseCompiler::func()), 0 = none                                         *)
(*   funcs      functions created so far: [f, x, e] = FuncNode, exit label, end sentinel                              *)
(*   pend       constant pools that exist but are not part of the code yet: [local, global] (node id or 0)            *)
(*   placed     set of [pool, owner] : pools that were put into the code (owner = function id, 0 = global)            *)
(*   vregs      the virtual register table: sequence of [size, align, stack, name]                                    *)
(*   nann       number of jump annotations                                                                            *)
(*   fin        1 after finalize()                                                                                    *)
(*                                                                                                                    *)
(* compiler.h, FuncNode:                                                                                              *)
(*   "[FuncNode]  - Entry point of the function, acts as a label as well.  {...} - Function body - user code          *)
(*    basically.  [ExitLabel] - Exit label  <Epilog> <Return>  {...} - Can contain data or user code (error handling,  *)
(*    special cases, ...).  [FuncEnd] - End sentinel"                                                                 *)
(*   "When a function is added to the instruction stream by BaseCompiler::add_func() it actually inserts 3 nodes      *)
(*    (FuncNode, ExitLabel, and FuncEnd) and sets the current cursor to be FuncNode.  When BaseCompiler::end_func()   *)
(*    is called the cursor is set to FuncEnd."                                                                        *)
(*   end_func(): "After calling end_func() the active function node is reset and func() would return nullptr unless    *)
(*    another function is being started via add_func()."                                                               *)
(*   _const_pools: "Local constant pool is flushed with each function, global constant pool is flushed only by         *)
(*    finalize()."   x86compiler.h: "Local constant pool - Part of FuncNode, can be only used by a single function     *)
(*    and added after the function epilog sequence (after `ret` instruction).  Global constant pool - Part of          *)
(*    BaseCompiler, flushed at the end of the generated code by BaseEmitter::finalize()."                              *)
(*   invoke(): "Creates a new InvokeNode, initializes all the necessary members to match the given function            *)
(*    signature, adds the node to the compiler, and stores its pointer to out.  The operation is atomic, if anything   *)
(*    fails nullptr is stored in out and error code is returned."                                                      *)
(*   new_stack(): "Creates a new stack of the given size and alignment"; VirtReg::alignment(): "the virtual register   *)
(*    alignment required for memory operations (load/spill)"; virt_reg_by_index / virt_id_to_index: registers are      *)
(*    numbered in creation order.                                                                                      *)
(* What the headers do not settle is left open: the error *code*, whether add_func() inside an open function is an     *)
(* error (it is not; the user then owns the consequences), what finalize() does with a list that is not a sequence of  *)
(* closed functions.  InvokeNode::set_arg(index out of range) is guarded by an assertion only (no error to check).     *)
EXTENDS Naturals, Sequences, FiniteSets

VARIABLES seq, cur, kind, func, funcs, pend, placed, vregs, nann, fin
cvars == <<seq, cur, kind, func, funcs, pend, placed, vregs, nann, fin>>

Null == 0
(* list helpers (as in spec/code/Builder.tla) *)
Range(s) == {s[i] : i \in DOMAIN s}
InSeq(s, n) == n \in Range(s)
Idx(s, n) == CHOOSE i \in DOMAIN s : s[i] = n
Rev(s) == [i \in 1 .. Len(s) |-> s[Len(s) + 1 - i]]
Distinct(s) == \A i, j \in DOMAIN s : i # j => s[i] # s[j]
InsertAfter(s, c, ns) == IF c = Null THEN ns \o s
                         ELSE SubSeq(s, 1, Idx(s, c)) \o ns \o SubSeq(s, Idx(s, c) + 1, Len(s))
InsertBefore(s, r, ns) == SubSeq(s, 1, Idx(s, r) - 1) \o ns \o SubSeq(s, Idx(s, r), Len(s))
Mark(k, ns, ks) == [x \in DOMAIN k \cup Range(ns) |-> IF x \in Range(ns) THEN ks[Idx(ns, x)] ELSE k[x]]

Known == DOMAIN kind \cup UNION { {F.f, F.x, F.e} : F \in funcs } \cup {pend.local, pend.global}
Fresh(ns) == Distinct(ns) /\ \A i \in DOMAIN ns : ns[i] # Null /\ ns[i] \notin Known

(* the real emitter after the call: list walked both ways, cursor, func(), size of the register table *)
Agrees(p) == /\ p.fwd = seq' /\ p.bwd = Rev(seq')
             /\ p.cur = cur' /\ p.func = func' /\ p.nv = Len(vregs')
Open == fin = 0
(* a call that fails changes nothing *)
Refused(p) == UNCHANGED cvars /\ Agrees(p)

Init0(n0) == /\ seq = <<n0>> /\ cur = n0 /\ kind = [x \in {n0} |-> "section"]
             /\ func = 0 /\ funcs = {} /\ pend = [local |-> 0, global |-> 0] /\ placed = {}
             /\ vregs = <<>> /\ nann = 0 /\ fin = 0

(* CodeHolder::reinit() (the Compiler's on_reinit): "BaseCompiler_clear" - no function, no pools, no virtual registers, no     *)
(* annotations; the code is a fresh .text section again (allowed in every state, also after finalize())                           *)
Reinit(r, n0, annots, pools, p) ==
  /\ r = "Ok"
  /\ n0 # Null /\ annots = 0 /\ pools = 0
  /\ seq' = <<n0>> /\ cur' = n0 /\ kind' = [x \in {n0} |-> "section"]
  /\ func' = 0 /\ funcs' = {} /\ pend' = [local |-> 0, global |-> 0] /\ placed' = {}
  /\ vregs' = <<>> /\ nann' = 0 /\ fin' = 0
  /\ Agrees(p)

FuncOf(f) == CHOOSE F \in funcs : F.f = f
IsPow2(n) == n \in {1, 2, 4, 8, 16, 32, 64, 128, 256, 512, 1024}

(* ---- functions ----------------------------------------------------------------------------------------------- *)
(* new_func_node(): the three nodes exist, nothing is added to the code *)
NewFunc(r, good, ns, p) ==
  /\ Open
  /\ good => r = "Ok"
  /\ IF r = "Ok"
       THEN /\ Len(ns) = 3 /\ Fresh(ns)
            /\ funcs' = funcs \cup {[f |-> ns[1], x |-> ns[2], e |-> ns[3]]}
            /\ UNCHANGED <<seq, cur, kind, func, pend, placed, vregs, nann, fin>>
            /\ Agrees(p)
       ELSE ~good /\ Refused(p)

(* add_func(node): "inserts 3 nodes (FuncNode, ExitLabel, and FuncEnd) and sets the current cursor to be FuncNode" *)
AddFuncNode(f, p) ==
  /\ Open
  /\ \E F \in funcs : F.f = f
  /\ LET F == FuncOf(f) IN
     /\ ~InSeq(seq, F.f) /\ ~InSeq(seq, F.x) /\ ~InSeq(seq, F.e)
     /\ seq' = InsertAfter(seq, cur, <<F.f, F.x, F.e>>)
     /\ cur' = F.f
     /\ kind' = Mark(kind, <<F.f, F.x, F.e>>, <<"func", "label", "sentinel">>)
     /\ func' = F.f
  /\ UNCHANGED <<funcs, pend, placed, vregs, nann, fin>>
  /\ Agrees(p)

(* add_func(signature) = new_func_node + add_func *)
AddFunc(r, good, ns, p) ==
  /\ Open
  /\ good => r = "Ok"
  /\ IF r = "Ok"
       THEN /\ Len(ns) = 3 /\ Fresh(ns)
            /\ funcs' = funcs \cup {[f |-> ns[1], x |-> ns[2], e |-> ns[3]]}
            /\ seq' = InsertAfter(seq, cur, ns)
            /\ cur' = ns[1]
            /\ kind' = Mark(kind, ns, <<"func", "label", "sentinel">>)
            /\ func' = ns[1]
            /\ UNCHANGED <<pend, placed, vregs, nann, fin>>
            /\ Agrees(p)
       ELSE ~good /\ Refused(p)

(* end_func(): without a function it fails; otherwise the local constant pool (if any) is placed "after the function     *)
(* epilog sequence" = between the exit label and the end sentinel, the function is closed, the cursor is on FuncEnd      *)
EndFunc(r, p) ==
  /\ Open
  /\ IF func = 0
       THEN r # "Ok" /\ Refused(p)
       ELSE LET F == FuncOf(func) IN
            /\ r = "Ok"
            /\ InSeq(seq, F.e)
            /\ IF pend.local # 0
                 THEN /\ seq' = InsertBefore(seq, F.e, <<pend.local>>)
                      /\ kind' = Mark(kind, <<pend.local>>, <<"pool">>)
                      /\ placed' = placed \cup {[pool |-> pend.local, owner |-> func]}
                 ELSE UNCHANGED <<seq, kind, placed>>
            /\ pend' = [pend EXCEPT !.local = 0]
            /\ cur' = F.e
            /\ func' = 0
            /\ UNCHANGED <<funcs, vregs, nann, fin>>
            /\ Agrees(p)

(* ---- nodes added after the cursor: invoke(), ret(), an instruction, bind(), an annotated jump ----------------- *)
(* out: what the call left in its Out<InvokeNode*> parameter: "node" | "null" | "stale" (the value it had before) *)
Invoke(r, good, n, out, p) ==
  /\ Open
  /\ good => r = "Ok"
  /\ IF r = "Ok"
       THEN /\ Fresh(<<n>>) /\ out = "node"
            /\ seq' = InsertAfter(seq, cur, <<n>>) /\ cur' = n
            /\ kind' = Mark(kind, <<n>>, <<"invoke">>)
            /\ UNCHANGED <<func, funcs, pend, placed, vregs, nann, fin>>
            /\ Agrees(p)
       ELSE ~good /\ out = "null" /\ Refused(p)

Emit(k, r, n, p) ==
  /\ Open
  /\ k \in {"funcret", "inst", "label", "jump"}
  /\ r = "Ok"
  /\ Fresh(<<n>>)
  /\ seq' = InsertAfter(seq, cur, <<n>>) /\ cur' = n
  /\ kind' = Mark(kind, <<n>>, <<k>>)
  /\ UNCHANGED <<func, funcs, pend, placed, vregs, nann, fin>>
  /\ Agrees(p)

SetCursor(n, p) ==
  /\ Open
  /\ n = Null \/ InSeq(seq, n)
  /\ cur' = n
  /\ UNCHANGED <<seq, kind, func, funcs, pend, placed, vregs, nann, fin>>
  /\ Agrees(p)

(* ---- constants ------------------------------------------------------------------------------------------------ *)
(* new_const(scope, data, size): the pool of that scope is created on first use and is not part of the code until it   *)
(* is flushed; the returned operand addresses the pool's label (offsets: C19).  scope: "local" | "global" | "bad"       *)
NewConst(scope, okSize, r, pool, lbl, poolLbl, p) ==
  /\ Open
  /\ (scope # "bad" /\ okSize) => r = "Ok"
  /\ IF r = "Ok"
       THEN /\ scope # "bad" /\ okSize
            /\ IF pend[scope] = 0 THEN Fresh(<<pool>>) ELSE pool = pend[scope]
            /\ lbl = poolLbl                                    \* the memory operand refers to the pool's label
            /\ pend' = [pend EXCEPT ![scope] = pool]
            /\ UNCHANGED <<seq, cur, kind, func, funcs, placed, vregs, nann, fin>>
            /\ Agrees(p)
       ELSE \* a refused constant may leave a freshly created, still empty pool of a valid scope behind
            /\ scope = "bad" \/ ~okSize
            /\ IF scope # "bad" /\ pend[scope] = 0 /\ pool # 0
                 THEN Fresh(<<pool>>) /\ pend' = [pend EXCEPT ![scope] = pool]
                 ELSE UNCHANGED pend
            /\ UNCHANGED <<seq, cur, kind, func, funcs, placed, vregs, nann, fin>>
            /\ Agrees(p)

(* ---- virtual registers ----------------------------------------------------------------------------------------- *)
(* new_reg(type) / new_similar_reg(ref): index = position in creation order; size = size of the type; the alignment     *)
(* is a power of two that is enough for the value (at most 64).  new_similar_reg: "similar to ref in terms of size and  *)
(* type" - the size of the virtual register ref or the size of the register operand ref (wsizes holds both)             *)
NewReg(r, good, idx, size, align, name, wsizes, wname, p) ==
  /\ Open
  /\ good => r = "Ok"
  /\ IF r = "Ok"
       THEN /\ idx = Len(vregs)
            /\ size \in wsizes /\ name = wname
            /\ IsPow2(align) /\ align <= 64 /\ (IsPow2(size) /\ size <= 64 => align >= size)
            /\ vregs' = Append(vregs, [size |-> size, align |-> align, stack |-> FALSE, name |-> name])
            /\ UNCHANGED <<seq, cur, kind, func, funcs, pend, placed, nann, fin>>
            /\ Agrees(p)
       ELSE ~good /\ Refused(p)

(* new_stack(size, alignment): a size of 0 or an alignment that is not a power of two cannot be honoured *)
NewStack(r, idx, size, align, wsize, walign, p) ==
  /\ Open
  /\ LET sane == wsize > 0 /\ (walign = 0 \/ IsPow2(walign)) IN
     /\ sane => r = "Ok"
     /\ IF r = "Ok"
          THEN /\ sane
               /\ idx = Len(vregs) /\ size = wsize
               /\ IsPow2(align) /\ (walign <= 64 => align >= walign) /\ (walign > 64 => align >= 64)
               /\ vregs' = Append(vregs, [size |-> size, align |-> align, stack |-> TRUE, name |-> ""])
               /\ UNCHANGED <<seq, cur, kind, func, funcs, pend, placed, nann, fin>>
               /\ Agrees(p)
          ELSE Refused(p)

(* set_stack_size(id, new_size, new_alignment): 0 = keep *)
SetStackSize(r, idx, wsize, walign, size, align, p) ==
  /\ Open
  /\ LET sane == idx < Len(vregs) /\ (walign = 0 \/ IsPow2(walign)) IN
     /\ sane => r = "Ok"
     /\ IF r = "Ok"
          THEN /\ sane
               /\ size = (IF wsize = 0 THEN vregs[idx + 1].size ELSE wsize)
               /\ IF walign = 0 THEN align = vregs[idx + 1].align
                  ELSE IsPow2(align) /\ (walign <= 64 => align >= walign) /\ (walign > 64 => align >= 64)
               /\ vregs' = [vregs EXCEPT ![idx + 1].size = size, ![idx + 1].align = align]
               /\ UNCHANGED <<seq, cur, kind, func, funcs, pend, placed, nann, fin>>
               /\ Agrees(p)
          ELSE Refused(p)

(* rename(reg, fmt, ...): "Rename the given virtual register" *)
Rename(idx, wname, name, p) ==
  /\ Open
  /\ idx < Len(vregs)
  /\ name = (IF wname = "" THEN vregs[idx + 1].name ELSE wname)
  /\ vregs' = [vregs EXCEPT ![idx + 1].name = name]
  /\ UNCHANGED <<seq, cur, kind, func, funcs, pend, placed, nann, fin>>
  /\ Agrees(p)

(* new_jump_annotation(): annotation ids count up *)
NewAnnot(id, p) ==
  /\ Open
  /\ id = nann
  /\ nann' = nann + 1
  /\ UNCHANGED <<seq, cur, kind, func, funcs, pend, placed, vregs, fin>>
  /\ Agrees(p)

(* ---- finalize ------------------------------------------------------------------------------------------------- *)
(* finalize() runs the passes (register allocation rewrites the function bodies, so the list is not compared node by    *)
(* node).  If it succeeds: every closed function still reads FuncNode .. ExitLabel .. [local pool] .. FuncEnd, and the  *)
(* global constant pool, if one exists, is "flushed at the end of the generated code".  fwd = the list afterwards.       *)
Before(s, a, b) == InSeq(s, a) /\ InSeq(s, b) /\ Idx(s, a) < Idx(s, b)
Finalize(r, fwd) ==
  /\ Open
  /\ r = "Ok" =>
       /\ \A F \in funcs : InSeq(seq, F.f) => Before(fwd, F.f, F.x) /\ Before(fwd, F.x, F.e)
       /\ \A P \in placed : P.owner # 0 => LET F == FuncOf(P.owner) IN Before(fwd, F.x, P.pool) /\ Before(fwd, P.pool, F.e)
       /\ pend.global # 0 => Len(fwd) > 0 /\ fwd[Len(fwd)] = pend.global
       /\ pend.local # 0 => ~InSeq(fwd, pend.local)            \* a local pool of a function that was never ended is not code
  /\ fin' = 1
  /\ placed' = IF r = "Ok" /\ pend.global # 0 THEN placed \cup {[pool |-> pend.global, owner |-> 0]} ELSE placed
  /\ pend' = IF r = "Ok" THEN [pend EXCEPT !.global = 0] ELSE pend
  /\ UNCHANGED <<seq, cur, kind, func, funcs, vregs, nann>>

(* ---- what the documentation promises about every reachable state ----------------------------------------------- *)
Wellformed ==
  /\ Distinct(seq)
  /\ cur = Null \/ InSeq(seq, cur)
  /\ Range(seq) \subseteq DOMAIN kind
  /\ func = 0 \/ \E F \in funcs : F.f = func
(* FuncNode .. ExitLabel .. FuncEnd, in this order, for every function that is part of the code *)
FuncShape == \A F \in funcs : InSeq(seq, F.f) => Before(seq, F.f, F.x) /\ Before(seq, F.x, F.e)
(* a pool is pending or placed, never both, never twice; a placed local pool sits between its owner's exit label and end *)
PoolsOnce ==
  /\ \A P \in placed : P.pool # pend.local /\ P.pool # pend.global
  /\ \A P1, P2 \in placed : P1.pool = P2.pool => P1 = P2
  /\ pend.local # 0 => ~InSeq(seq, pend.local)
  /\ pend.global # 0 => ~InSeq(seq, pend.global)
  /\ (pend.local # 0 /\ pend.global # 0) => pend.local # pend.global
LocalPoolPlace == \A P \in placed : P.owner # 0 =>
                    LET F == FuncOf(P.owner) IN Before(seq, F.x, P.pool) /\ Before(seq, P.pool, F.e)
(* after end_func() no function is open and no local pool is pending: stated as a step property in the MC module *)
CInv == Wellformed /\ FuncShape /\ PoolsOnce /\ LocalPoolPlace
=============================================================================
