------------------------- MODULE CompilerFrontTrace --------------------------
(* X06 Part B, trace validation: a trace recorded by harness/compfront.cpp from a real x86::Compiler (x86-64 and       *)
(* x86-32) or a64::Compiler is accepted iff it is a behaviour of the contract CompilerFront.tla; CInv is checked in     *)
(* every state.  MODE = report additionally prints which event could not be consumed (REJECT line).                     *)
EXTENDS CompilerFront, TraceLib

VARIABLE l
tvars == <<cvars, l>>

T == TraceLog
Ev == T[l]
IsEv(e) == l <= Len(T) /\ Ev.e = e /\ l' = l + 1
Ok(r) == IF r = "Ok" THEN "Ok" ELSE "Err"

TInit == /\ l = 1 /\ InitProgress
         /\ seq = <<>> /\ cur = 0 /\ kind = << >> /\ func = 0 /\ funcs = {} /\ pend = [local |-> 0, global |-> 0]
         /\ placed = {} /\ vregs = <<>> /\ nann = 0 /\ fin = 1

(* a fresh emitter attached to a fresh CodeHolder: the list is the .text section node, the cursor is on it *)
TReset == /\ IsEv("Reset")
          /\ Ev.n0 # 0 /\ Ev.k0 = "section"
          /\ seq' = <<Ev.n0>> /\ cur' = Ev.n0 /\ kind' = [x \in {Ev.n0} |-> "section"]
          /\ func' = 0 /\ funcs' = {} /\ pend' = [local |-> 0, global |-> 0] /\ placed' = {}
          /\ vregs' = <<>> /\ nann' = 0 /\ fin' = 0
          /\ Agrees(Ev.p)

FuncKinds == <<"func", "label", "sentinel">>
TNewFunc == IsEv("NewFunc") /\ NewFunc(Ok(Ev.r), Ev.good, Ev.ns, Ev.p) /\ (Ev.r = "Ok" => Ev.nk = FuncKinds)
TAddFuncNode == IsEv("AddFuncNode") /\ AddFuncNode(Ev.f, Ev.p)
TAddFunc == IsEv("AddFunc") /\ AddFunc(Ok(Ev.r), Ev.good, Ev.ns, Ev.p) /\ (Ev.r = "Ok" => Ev.nk = FuncKinds)
TEndFunc == IsEv("EndFunc") /\ EndFunc(Ok(Ev.r), Ev.p)
(* KNOWN_STALE_OUT=1 (set by the runner only while the finding "front:invoke-out-not-null-on-failure" is listed as known):  *)
(* a failed invoke() that left its out parameter untouched does not end the validation of the execution                   *)
KnownStale == "KNOWN_STALE_OUT" \in DOMAIN IOEnv /\ IOEnv.KNOWN_STALE_OUT = "1"
OutOf(e) == IF e.out = "stale" /\ e.r # "Ok" /\ KnownStale THEN "null" ELSE e.out
TInvoke == IsEv("Invoke") /\ Invoke(Ok(Ev.r), Ev.good, Ev.n, OutOf(Ev), Ev.p) /\ (Ev.r = "Ok" => Ev.nk = "invoke")
TEmit == IsEv("Emit") /\ Emit(Ev.k, Ok(Ev.r), Ev.n, Ev.p) /\ Ev.nk = Ev.k
TSetCursor == IsEv("SetCursor") /\ SetCursor(Ev.n, Ev.p)
TNewConst == /\ IsEv("NewConst")
             /\ NewConst(Ev.scope, Ev.okSize, Ok(Ev.r), Ev.pool, Ev.lbl, Ev.poolLbl, Ev.p)
             /\ Ev.pool # 0 => Ev.pk = "pool"
TNewReg == IsEv("NewReg") /\ NewReg(Ok(Ev.r), Ev.good, Ev.idx, Ev.size, Ev.align, Ev.name, {Ev.wsize, Ev.wsize2}, Ev.wname, Ev.p) /\ ~Ev.stack
TNewStack == /\ IsEv("NewStack")
             /\ NewStack(Ok(Ev.r), Ev.idx, Ev.size, Ev.align, Ev.wsize, Ev.walign, Ev.p)
             /\ Ev.r = "Ok" => Ev.stack
TSetStackSize == IsEv("SetStackSize") /\ SetStackSize(Ok(Ev.r), Ev.idx, Ev.wsize, Ev.walign, Ev.size, Ev.align, Ev.p)
TRename == IsEv("Rename") /\ Rename(Ev.idx, Ev.wname, Ev.name, Ev.p)
TNewAnnot == IsEv("NewAnnot") /\ NewAnnot(Ev.id, Ev.p) /\ Ev.count = nann'
(* a tidy execution (closed functions made of documented calls only) must finalize.  KNOWN_A64_LABEL=1 (set by the runner   *)
(* only while the finding "front:a64-invoke-label-target" is listed as known): an AArch64 execution that invoked a label     *)
(* may fail                                                                                                                  *)
KnownA64Label == "KNOWN_A64_LABEL" \in DOMAIN IOEnv /\ IOEnv.KNOWN_A64_LABEL = "1"
TFinalize == /\ IsEv("Finalize") /\ Finalize(Ok(Ev.r), Ev.fwd)
             /\ Ev.tidy => (Ev.r = "Ok" \/ (KnownA64Label /\ Ev.arch = "a64" /\ Ev.lblinv > 0))

Report == "MODE" \in DOMAIN IOEnv /\ IOEnv.MODE = "report"
TDiag == /\ Report /\ l <= Len(T) /\ Ev.e # "Reset"
         /\ PrintT(<<"REJECT", l, Ev.e, IF "r" \in DOMAIN Ev THEN Ok(Ev.r) ELSE "-", IF Ev.e = "Invoke" THEN Ev.out ELSE "-">>)
         /\ FALSE /\ UNCHANGED tvars

TReinit == IsEv("Reinit") /\ fin \in {0, 1} /\ seq # <<>> /\ Reinit(Ok(Ev.r), Ev.n0, Ev.annots, Ev.pools, Ev.p) /\ Ev.k0 = "section"

TNext == \/ TReset \/ TReinit \/ TNewFunc \/ TAddFuncNode \/ TAddFunc \/ TEndFunc \/ TInvoke \/ TEmit \/ TSetCursor
         \/ TNewConst \/ TNewReg \/ TNewStack \/ TSetStackSize \/ TRename \/ TNewAnnot \/ TFinalize \/ TDiag
TSpec == TInit /\ [][TNext]_tvars

Progress == NoteProgress(l)
TraceAccepted == Accepted(Len(T))
TInv == fin = 1 \/ seq = <<>> \/ CInv
=============================================================================
