---------------------------- MODULE InvokeTrace -----------------------------
(* X06 Part A, trace validation: a trace recorded by harness/invoke.cpp (real x86::Compiler, generated code   *)
(* executed on the host between an assembly trampoline and recording callee thunks) is accepted iff it is a     *)
(* behaviour of the contract Invoke.tla.  One execution = Reset, Scenario, Build, then per input                *)
(* Enter, Call*, Leave, and End.  A Crash event (the generated code faulted / did not return) is never          *)
(* consumable.  Steps of f that call nothing are silent steps of the virtual-register machine.                  *)
(*   MODE = report: a rejected Call / Leave / Build additionally prints a REJECT line naming the broken clause. *)
EXTENDS Invoke, TraceLib

VARIABLES l,        \* next trace line
          sl,       \* line of the current Scenario event (0 = none)
          phase,    \* reset | loaded | built | refused | run | left | end
          r,        \* inputs executed so far
          m         \* virtual-register machine of the current execution
tvars == <<l, sl, phase, r, m>>

T == TraceLog
Ev == T[l]
IsEv(e) == l <= Len(T) /\ Ev.e = e /\ l' = l + 1
S == T[sl].s
Report == "MODE" \in DOMAIN IOEnv /\ IOEnv.MODE = "report"
Idle == [env |-> << >>, k |-> <<>>, out |-> << >>, ncall |-> 0]

TInit == l = 1 /\ InitProgress /\ sl = 0 /\ phase = "end" /\ r = 0 /\ m = Idle

TReset == /\ IsEv("Reset") /\ phase = "end"
          /\ sl' = 0 /\ phase' = "reset" /\ r' = 0 /\ m' = Idle

TScenario == /\ IsEv("Scenario") /\ phase = "reset"
             /\ sl' = l /\ phase' = "loaded" /\ UNCHANGED <<r, m>>

TBuild == /\ IsEv("Build") /\ phase = "loaded"
          /\ BuildOk(S, Ev)
          /\ phase' = IF Ev.ok THEN "built" ELSE "refused"
          /\ UNCHANGED <<sl, r, m>>

TEnter == /\ IsEv("Enter") /\ phase \in {"built", "left"}
          /\ r < Len(S.runs)
          /\ Ev.run = r + 1 /\ Ev.args = S.runs[r + 1].args
          /\ r' = r + 1 /\ m' = Start(S) /\ phase' = "run" /\ UNCHANGED sl

TSilent == /\ phase = "run" /\ AtSilent(m)
           /\ m' = Silent(S, S.runs[r], m)
           /\ UNCHANGED <<l, sl, phase, r>>

TInvoke == /\ IsEv("Call") /\ phase = "run" /\ AtInvoke(m)
           /\ InvokeOk(S, m, Ev)
           /\ m' = AfterInvoke(S, m, Ev)
           /\ UNCHANGED <<sl, phase, r>>

TLeave == /\ IsEv("Leave") /\ phase = "run"
          /\ Ev.run = r
          /\ LeaveOk(S, m, Ev)
          /\ phase' = "left" /\ UNCHANGED <<sl, r, m>>

TEnd == /\ IsEv("End")
        /\ phase = "refused" \/ (phase \in {"built", "left"} /\ r = Len(S.runs))
        /\ phase' = "end" /\ UNCHANGED <<sl, r, m>>

(* diagnosis only: these disjuncts are never enabled *)
Say(x) == PrintT(<<"REJECT", l, x>>)
TDiag == /\ Report /\ l <= Len(T)
         /\ \/ Ev.e = "Call" /\ phase = "run" /\ AtInvoke(m) /\ ~InvokeOk(S, m, Ev) /\ Say(InvokeDiag(S, m, Ev))
            \/ Ev.e = "Call" /\ phase = "run" /\ AtEnd(m) /\ Say(<<"invoke", "unexpected-call">>)
            \/ Ev.e = "Leave" /\ phase = "run" /\ ~AtSilent(m) /\ ~LeaveOk(S, m, Ev) /\ Say(LeaveDiag(S, m, Ev))
            \/ Ev.e = "Build" /\ phase = "loaded" /\ ~BuildOk(S, Ev) /\ Say(<<"build", "refused", Ev.api, Ev.fin, Ev.add>>)
            \/ Ev.e = "Crash" /\ ~(phase = "run" /\ AtSilent(m)) /\ Say(<<"crash", Ev.signal, phase>> \o
                    (IF phase = "run" /\ AtInvoke(m)
                     THEN <<"invoke", S.callees[m.k[1].c].target, IF S.callees[m.k[1].c].va = 255 THEN "fixed" ELSE "variadic">>
                     ELSE IF phase = "run" THEN <<"leave">> ELSE <<"-">>))
         /\ FALSE /\ UNCHANGED tvars

TNext == TReset \/ TScenario \/ TBuild \/ TEnter \/ TSilent \/ TInvoke \/ TLeave \/ TEnd \/ TDiag
TSpec == TInit /\ [][TNext]_tvars

Progress == NoteProgress(l)
TraceAccepted == Accepted(Len(T))
=============================================================================
