SPECIFICATION Spec
INVARIANT Export
