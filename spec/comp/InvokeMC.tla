------------------------------ MODULE InvokeMC ------------------------------
(* X06 Part A, model checking configuration of InvokeImpl: a catalogue of small scenarios that together use every    *)
(* step kind, register and stack arguments of both classes, immediates, duplicated operands, narrow types, a variadic  *)
(* callee, chained calls, a call in a loop and under a condition.  The same scenarios are exported (SCN lines) and     *)
(* executed on the real Compiler by checks/x06.py ("spec-generated histories").                                        *)
EXTENDS InvokeImpl, Json

V(v) == [k |-> "v", v |-> v, val |-> <<>>]
I(val) == [k |-> "imm", v |-> 0, val |-> val]
N0 == [k |-> "none", v |-> 0, val |-> <<>>]
Cfg == [avx |-> 0, fp |-> 0, cleanup |-> 0, horder |-> "after", outmode |-> "fresh"]
Sig(r, a, va) == [ret |-> r, args |-> a, va |-> va]
Callee(r, a, va, tg, th) == [ret |-> r, args |-> a, va |-> va, target |-> tg, thunk |-> th]
Arg(v, i) == [op |-> "arg", v |-> v, i |-> i]
Imm(v, val) == [op |-> "imm", v |-> v, val |-> val, pool |-> "local"]
Mov(v, a) == [op |-> "mov", v |-> v, a |-> a]
Add(v, a) == [op |-> "add", v |-> v, a |-> a]
AddI(v, val) == [op |-> "addi", v |-> v, val |-> val]
Store(v) == [op |-> "store", slot |-> v, v |-> v]
Inv(c, a, r) == [op |-> "invoke", c |-> c, args |-> a, ret |-> r]
Loop(n, b) == [op |-> "loop", n |-> n, body |-> b]
IfNz(v, b) == [op |-> "ifnz", v |-> v, body |-> b]
Run1(a) == <<[args |-> a, rets |-> <<<<7, 0, 0, 0, 0, 0, 0, 0, 0, 0, 0, 0, 0, 0, 0, 0>>, <<65535, 1, 2, 3, 4, 5, 6, 7, 8, 9, 10, 11, 12, 13, 14, 15>>>>]>>
Scn(id, f, cs, vr, st, rv, ns, sw, a) ==
  [id |-> id, cfg |-> Cfg, f |-> f, callees |-> cs, vregs |-> vr, steps |-> st, retv |-> rv, nslots |-> ns, stackwords |-> sw,
   runs |-> Run1(a), profile |-> "model"]

D64(x) == <<x, 0, 0, 16384, 7, 7, 7, 7>>        \* a double in an xmm container (upper half junk)

S1 == Scn(9001, Sig("i32", <<"i32", "f64">>, 255), <<Callee("i32", <<"i64", "f64", "i32", "i32">>, 255, "imm", 3)>>,
          <<"i32", "f64", "i64", "i32">>,
          <<Arg(1, 1), Arg(2, 2), Imm(3, <<1, 2, 3, 4>>), Inv(1, <<V(3), V(2), V(1), I(<<77, 0, 0, 0>>)>>, 4), Store(3), Store(2), Add(4, 1)>>,
          4, 4, 4, <<<<10, 0, 48879, 57005>>, D64(5)>>)
S2 == Scn(9002, Sig("void", <<>>, 255), <<Callee("i64", <<"i32", "i32", "i32", "i32", "i32", "i32", "i32", "i32", "i32">>, 255, "reg", 5)>>,
          <<"i32", "i32", "i32", "i64">>,
          <<Imm(1, <<11, 0>>), Imm(2, <<22, 1>>), Imm(3, <<33, 2>>),
            Inv(1, <<V(1), I(<<65535, 65535, 65535, 65535>>), V(2), V(1), I(<<9, 0, 1, 0>>), V(2), V(3), V(1), V(3)>>, 4), Store(4), Store(3)>>,
          0, 4, 10, <<>>)
S3 == Scn(9003, Sig("f64", <<"f64">>, 255), <<Callee("i32", <<"i32", "f64", "f64">>, 1, "imm", 7)>>,
          <<"f64", "i32", "i32">>,
          <<Arg(1, 1), Imm(2, <<300, 3>>), Inv(1, <<V(2), V(1), V(1)>>, 3), Store(3), Store(1)>>,
          1, 3, 5, <<D64(8)>>)
S4 == Scn(9004, Sig("i32", <<"f64", "i32">>, 255), <<Callee("f64", <<"f64">>, 255, "mem", 1), Callee("i32", <<"i32", "f64">>, 255, "imm", 2)>>,
          <<"f64", "f64", "i32", "i32">>,
          <<Arg(3, 2), Arg(1, 1), Inv(1, <<V(1)>>, 2), Inv(2, <<V(3), V(2)>>, 4), Store(1), Store(2), AddI(4, <<5, 0, 0, 0>>)>>,
          4, 4, 3, <<D64(1), <<500, 0, 9, 9>>>>)
S5 == Scn(9005, Sig("void", <<"f64", "f64">>, 255),
          <<Callee("void", <<"f64", "f64", "f64", "f64", "f64", "f64", "f64", "f64", "f64", "i64", "i64", "i64", "i64", "i64", "i64", "u8">>, 255, "imm", 9)>>,
          <<"f64", "f64", "i64", "u8">>,
          <<Arg(1, 1), Arg(2, 2), Imm(3, <<1, 1, 1, 1>>), Imm(4, <<200>>),
            Inv(1, <<V(1), V(2), V(1), V(2), V(1), V(2), V(1), V(2), V(2), V(3), I(<<2, 0, 0, 0>>), V(3), V(3), V(3), V(3), V(4)>>, 0),
            Store(1), Store(4)>>,
          0, 4, 20, <<D64(1), D64(2)>>)
S6 == Scn(9006, Sig("u16", <<"i8", "u16">>, 255), <<Callee("i8", <<"i8", "u16", "i8", "u16">>, 255, "label", 4)>>,
          <<"i8", "u16", "i8">>,
          <<Arg(1, 1), Arg(2, 2), Inv(1, <<V(1), V(2), V(1), V(2)>>, 3), Store(3), Store(1)>>,
          2, 3, 6, <<<<65409, 9, 9, 9>>, <<40000, 8, 8, 8>>>>)
S7 == Scn(9007, Sig("i32", <<"i32">>, 255), <<Callee("i32", <<"i32">>, 255, "imm", 6)>>,
          <<"i32", "i32">>,
          <<Arg(1, 1), Loop(2, <<Inv(1, <<V(1)>>, 2), Add(1, 2)>>), IfNz(1, <<Store(1)>>), Mov(2, 1)>>,
          2, 2, 3, <<<<3, 0, 1, 1>>>>)

Switch(v, cs) == [op |-> "switch", v |-> v, cases |-> cs]
S8 == Scn(9008, Sig("i64", <<"i64", "f64">>, 255), <<Callee("i64", <<"f64", "i64">>, 255, "reg", 8)>>,
          <<"i64", "f64", "i64">>,
          <<Arg(1, 1), Arg(2, 2), Imm(3, <<5, 0, 0, 0>>),
            Switch(1, << <<Inv(1, <<V(2), V(3)>>, 3)>>, <<AddI(3, <<1, 0, 0, 0>>), Inv(1, <<V(2), V(1)>>, 3), Store(1)>> >>), Store(3), Store(2)>>,
          3, 3, 3, <<<<3, 0, 0, 0>>, D64(2)>>)

MCScenarios == {S1, S2, S3, S4, S5, S6, S7, S8}
MCSmall == {S1, S3, S6}
MCOne == {S7}
MCCov == {S7, S3}
R16(a, b) == <<a, b, 2, 3, 4, 5, 6, 7, 8, 9, 10, 11, 12, 13, 14, 15>>
MCRetVals == {R16(7, 0), R16(65535, 1)}
MCRetOne == {R16(7, 0)}

(* scenarios for the real Compiler *)
Export == (moves = 0 /\ loc = << >> /\ m.ncall = 0 /\ m.k = s.steps) => PrintT(ToJson(<<"SCN", s>>))
=============================================================================
