---------------------------- MODULE InvokeStatic -----------------------------
(* X06 Part B, second half: calls on targets that cannot be executed on the host (x86-32, Win64, AArch64).            *)
(* Each case is one real run of                                                                                         *)
(*     add_func(fsig); set_arg(i, v_i) ..; invoke(target, csig); InvokeNode::set_arg(j, v_map(j) | imm) ..; end_func();  *)
(*     finalize()                                                                                                       *)
(* recorded by harness/compfront.cpp (static): the locations FuncDetail reports for f's and the callee's arguments (one  *)
(* entry per value of an argument pack) and every instruction from the entry of f to the call.  TLC executes that         *)
(* instruction list on the abstract machine spec/machine/Machine.tla (the machine of C06(b) / C05), starting from          *)
(* "argument i of f sits where the convention puts it", and checks at the call instruction:                               *)
(*   Built       the documented calls were accepted, finalize() succeeded, the call instruction exists                    *)
(*   NoFault     no access through a register that holds no stack address                                                *)
(*   ArgsPlaced  every location of the callee's signature holds the designated argument of f (its low size-of-type bytes, *)
(*               unconverted) or the designated immediate                                                                 *)
(*   Aligned     the stack pointer at the call is 16-byte aligned (AAPCS64 5.2.2.1 / i386 and AMD64 psABI / Microsoft x64) *)
(* Locations: a case is judged only where FuncDetail's locations are the ones spec/func/ABI.tla prescribes (differences   *)
(* are C06(a)'s business and are only counted here).                                                                      *)
(*   CASES = ndjson file, MODE = report | strict (as ABICheck.tla / ArgShuffle.tla)                                       *)
EXTENDS Machine, Json, IOUtils

A == INSTANCE ABI
Cases == ndJsonDeserialize(IOEnv.CASES)
Strict == "MODE" \in DOMAIN IOEnv /\ IOEnv.MODE = "strict"

(* ---- units: one per value of an argument pack ---------------------------------------------------------------------- *)
RECURSIVE Flat(_, _)
Flat(packs, j) == IF j > Len(packs) THEN <<>>
                  ELSE [q \in 1..Len(packs[j]) |-> [arg |-> j, vi |-> q, loc |-> packs[j][q]]] \o Flat(packs, j + 1)
FUnits(cs) == Flat(cs.floc, 1)
CUnits(cs) == Flat(cs.cloc, 1)
FUnitOf(cs, a, vi) == CHOOSE q \in 1..Len(FUnits(cs)) : FUnits(cs)[q].arg = a /\ FUnits(cs)[q].vi = vi
(* the q-th immediate operand of the call belongs to the q-th callee argument whose map entry is 0 *)
ImmOf(cs, j) == cs.imms[Cardinality({ x \in 1..j : cs.map[x] = 0 })]

(* ---- do asmjit's locations agree with ABI.tla? ---------------------------------------------------------------------- *)
Agrees(env, conv, args, packs) ==
  LET abi == A!AbiOf(env, conv) IN
  /\ abi # "none" /\ A!SigAsserted(abi, args, 255)
  /\ LET sts == A!States(abi, args, 255) IN
     \A j \in 1..Len(args) : A!PackOk(packs[j], sts[j].pk)
Built(cs) == cs.api = "Ok" /\ cs.fin = "Ok" /\ cs.reached
Judged(cs) == Built(cs) /\ Agrees(cs.env, cs.fconv, cs.fargs, cs.floc) /\ Agrees(cs.env, cs.cconv, cs.cargs, cs.cloc)

(* ---- initial machine ------------------------------------------------------------------------------------------------- *)
(* "arg" space: offset 0 = the first stack argument slot of f (x86: just above the return address; AArch64: sp at entry) *)
EntrySp(cs) == IF cs.family = "x86" THEN Ptr("arg", 0 - cs.bits \div 8) ELSE Ptr("arg", 0)
RECURSIVE PlaceUnits(_, _, _)
PlaceUnits(m0, us, q) ==
  IF q > Len(us) THEN m0
  ELSE LET u == us[q] v == ArgVal(q, u.loc.sz) IN
       PlaceUnits(IF u.loc.k = "reg" THEN RegPut(m0, u.loc.g, u.loc.id, v)
                  ELSE IF u.loc.k = "stack" THEN MemStore(m0, <<"arg", u.loc.off>>, u.loc.sz, v)
                  ELSE m0, us, q + 1)
InitMachine(cs) == PlaceUnits(RegPut(NewMachine(cs.family, cs.bits, cs.sp), "gp", cs.sp, EntrySp(cs)), FUnits(cs), 1)

(* ---- instructions Machine.tla does not know (prolog forms, immediates, movlps) ---------------------------------------- *)
ImmV(d) == Val(d, "", 8, 8, "-")                     \* an immediate operand: a fully known value, identified by its number
PtrOf(m0, o) == RegGet(m0, "gp", o.b)
XExec(m0, ins) ==
  LET op == ins.op
      no == Len(ins.o)
      d == ins.o[1]
      s == ins.o[IF no >= 2 THEN 2 ELSE 1]
      t == ins.o[IF no >= 3 THEN 3 ELSE 1] IN
  IF no = 0 THEN m0
  ELSE IF op = "mov" /\ no = 2 /\ s.k = "imm" /\ d.k = "reg" THEN RegSet(m0, d.g, d.id, ImmV(s.d))
  ELSE IF op = "mov" /\ no = 2 /\ s.k = "imm" /\ d.k = "mem" THEN
         (IF BadAddr(m0, d) THEN Fault(m0, "store through a register that holds no stack address")
          ELSE MemStore(m0, AddrOf(m0, d), d.sz, ImmV(s.d)))
  ELSE IF op \in {"movlps", "vmovlps"} /\ no = 2 /\ d.k = "mem" /\ s.k = "reg" THEN
         (IF BadAddr(m0, d) THEN Fault(m0, "store through a register that holds no stack address")
          ELSE MemStore(m0, AddrOf(m0, d), 8, Low(RegGet(m0, s.g, s.id), 8)))
  (* dynamic stack alignment `and sp, -N`: the stack pointer leaves the "arg" space; what is known afterwards is that it is   *)
  (* N-aligned ("sp" space when N >= 16, "spx" otherwise); f's own arguments stay reachable through the frame pointer       *)
  ELSE IF m0.family = "x86" /\ op = "and" /\ no = 2 /\ d.k = "reg" /\ d.g = "gp" /\ d.id = m0.sp /\ s.k = "imm" /\ s.d < 0 THEN
         RegSet(m0, "gp", m0.sp, Ptr(IF 0 - s.d >= 16 THEN "sp" ELSE "spx", 0))
  ELSE IF m0.family = "a64" /\ op \in {"sub", "add"} /\ no = 3 /\ d.k = "reg" /\ s.k = "reg" /\ t.k = "imm" /\ RegGet(m0, s.g, s.id).t = "ptr" THEN
         LET p == RegGet(m0, s.g, s.id) IN RegSet(m0, d.g, d.id, Ptr(p.x, IF op = "add" THEN p.lo + t.d ELSE p.lo - t.d))
  ELSE IF m0.family = "a64" /\ op = "stp" /\ no = 3 /\ t.k = "mem" THEN
         LET p == PtrOf(m0, t) IN
         IF t.x \/ p.t # "ptr" THEN Fault(m0, "stp through a register that holds no stack address")
         ELSE LET base == IF t.m = "post" THEN p.lo ELSE p.lo + t.d
                  m1 == MemStore(MemStore(m0, <<p.x, base>>, d.sz, Low(RegGet(m0, d.g, d.id), d.sz)),
                                 <<p.x, base + d.sz>>, s.sz, Low(RegGet(m0, s.g, s.id), s.sz)) IN
              IF t.m = "" THEN m1 ELSE RegPut(m1, "gp", t.b, Ptr(p.x, p.lo + t.d))
  ELSE IF m0.family = "a64" /\ op = "str" /\ no = 2 /\ s.k = "mem" /\ s.m # "" THEN
         LET p == PtrOf(m0, s) IN
         IF s.x \/ p.t # "ptr" THEN Fault(m0, "str through a register that holds no stack address")
         ELSE LET base == IF s.m = "post" THEN p.lo ELSE p.lo + s.d IN
              RegPut(MemStore(m0, <<p.x, base>>, d.sz, Low(RegGet(m0, d.g, d.id), d.sz)), "gp", s.b, Ptr(p.x, p.lo + s.d))
  ELSE Exec(m0, ins)

(* ---- what the callee must find ------------------------------------------------------------------------------------------ *)
AtLoc(m0, cs, loc) ==
  IF loc.k = "reg" THEN RegGet(m0, loc.g, loc.id)
  ELSE LET spv == RegGet(m0, "gp", cs.sp) a == <<spv.x, spv.lo + loc.off>> IN
       IF spv.t = "ptr" /\ a \in DOMAIN m0.mem THEN m0.mem[a].v ELSE Junk
(* An argument passed BY REFERENCE (Win64: 16-byte vectors; vectorcall: the 7th+ vector): the location holds the address of a    *)
(* temporary the caller made.  Microsoft x64: "the caller allocates the memory for the copy and passes a pointer, 16-byte aligned". *)
(* The temporary must be the caller's own outgoing-call memory: above the callee's argument/home area (8 bytes per position, at     *)
(* least 4) and inside what the finalized frame reserves for calls (FuncFrame::call_stack_size - everything above belongs to the     *)
(* caller's locals and spills), 16-byte aligned, and it must hold the designated vector.                                             *)
ByRefReason(m0, cs, u) ==
  LET v == AtLoc(m0, cs, u.loc)
      spv == RegGet(m0, "gp", cs.sp)
      src == cs.map[u.arg]
      argArea == 8 * (IF Len(cs.cargs) > 4 THEN Len(cs.cargs) ELSE 4) IN
  IF src = 0 \/ v.t # "ptr" \/ spv.t # "ptr" \/ v.x # spv.x THEN "not-a-stack-address"
  ELSE LET rel == v.lo - spv.lo a == <<v.x, v.lo>> IN
       IF rel < argArea THEN "inside-argument-area"
       ELSE IF rel + u.loc.sz > cs.call_area THEN "outside-reserved-call-area"
       ELSE IF v.lo % 16 # 0 THEN "misaligned"
       ELSE IF ~(a \in DOMAIN m0.mem) THEN "temporary-not-written"
       ELSE LET w == m0.mem[a].v fa == cs.floc[src] IN
            IF w.t = "val" /\ w.i = FUnitOf(cs, src, u.vi) /\ w.c = "" /\ w.lo >= MMin(u.loc.sz, fa[u.vi].sz) THEN "ok" ELSE "wrong-contents"
UnitOk(m0, cs, u) ==
  LET v == AtLoc(m0, cs, u.loc)
      src == cs.map[u.arg] IN
  IF u.loc.ind THEN ByRefReason(m0, cs, u) = "ok"
  ELSE IF src = 0 THEN (u.vi > 1 \/ (v.t = "val" /\ v.i = ImmOf(cs, u.arg) /\ v.c = ""))
  ELSE LET fa == cs.floc[src] IN
       u.vi > Len(fa) \/ (v.t = "val" /\ v.i = FUnitOf(cs, src, u.vi) /\ v.c = "" /\ v.lo >= MMin(u.loc.sz, fa[u.vi].sz))
BadUnits(m0, cs) == { q \in 1..Len(CUnits(cs)) : ~UnitOk(m0, cs, CUnits(cs)[q]) }
(* a local of f with known contents (written before the call) must still hold them when the call is reached *)
LiveOk(m0, cs) == cs.live = 0 \/ \A t \in {9001, 9002} : \E a \in DOMAIN m0.mem : m0.mem[a].v = ImmV(t)
AlignDemanded(cs) == cs.env \in {"x86-sysv", "x64-sysv", "x64-win", "a64-aapcs"}
SpAligned(m0, cs) == LET spv == RegGet(m0, "gp", cs.sp) IN spv.t = "ptr" /\ spv.x \in {"arg", "sp"} /\ spv.lo % 16 = 0

(* ------------------------------------------------------------------------------------------------------------------------- *)
VARIABLES c, pc, m
vars == <<c, pc, m>>
Case == Cases[c]
Insts == Case.insts
NC == Len(Cases)
NB == IF NC <= 200 THEN 1 ELSE 64
Empty == NewMachine("x86", 64, 4)
Init == c = 0 /\ pc = 0 /\ m = Empty
(* the call itself is not executed: the machine stops in front of it *)
Next == \/ c = 0 /\ pc = 0 /\ c' = 0 /\ pc' \in { 0 - q : q \in 1..NB } /\ m' = Empty
        \/ /\ c = 0 /\ pc < 0
           /\ c' \in { q \in 1..NC : q % NB = (0 - pc) % NB }
           /\ pc' = 1
           /\ m' = IF Judged(Cases[c']) THEN InitMachine(Cases[c']) ELSE Empty
        \/ /\ c > 0 /\ Judged(Case) /\ pc < Len(Insts) /\ m.fault = ""
           /\ m' = XExec(m, Insts[pc])
           /\ pc' = pc + 1
           /\ c' = c
Spec == Init /\ [][Next]_vars

AtCall == pc = Len(Insts)
PrevOp == IF pc > 1 THEN Insts[pc - 1].op ELSE "-"
Min(S) == CHOOSE x \in S : \A y \in S : x <= y
Verdict ==
  IF c = 0 THEN <<>> ELSE
  LET cs == Case IN
  IF ~Built(cs) THEN (IF pc = 1 THEN <<cs.family, "build-refused", cs.api, cs.fin>> ELSE <<>>)
  ELSE IF ~Judged(cs) THEN <<>>
  ELSE IF m.fault # "" THEN <<cs.family, "fault", PrevOp>>
  ELSE IF AtCall /\ BadUnits(m, cs) # {}
       THEN LET u == CUnits(cs)[Min(BadUnits(m, cs))] IN
            IF u.loc.ind THEN <<cs.family, "arg-by-reference", ByRefReason(m, cs, u)>>
            ELSE <<cs.family, "arg", cs.cargs[u.arg], IF cs.map[u.arg] = 0 THEN "imm" ELSE "v", u.loc.k, u.vi>>
  ELSE IF AtCall /\ ~LiveOk(m, cs) THEN <<cs.family, "live-local-clobbered">>
  ELSE IF AtCall /\ AlignDemanded(cs) /\ ~SpAligned(m, cs) THEN <<cs.family, "stack-alignment">>
  ELSE <<>>
Deferred == c > 0 /\ pc = 1 /\ Built(Case) /\ ~Judged(Case)
Report == PrintT(ToJson(<<"NONCONF", c, Verdict>>))
Accepts == /\ Deferred => PrintT(ToJson(<<"DEFERRED", c>>))
           /\ Verdict = <<>> \/ (~Strict /\ Report)
=============================================================================
