----------------------------- MODULE InvokePlace -----------------------------
(* X06 Part A helper: where the trampoline that enters f must put f's arguments.  The harness knows no       *)
(* calling convention: for every scenario of the file SCN this module prints the locations ABI.tla prescribes  *)
(* for f's own signature (PLACE lines); checks/x06.py copies them into the scenario (`place`).                 *)
EXTENDS Invoke, Json, IOUtils

Scn == ndJsonDeserialize(IOEnv.SCN)
VARIABLE i
Init == i \in 1..Len(Scn)
Next == UNCHANGED i
Spec == Init /\ [][Next]_i

PlaceOf(s) == LET sts == ArgLocs(s.f) IN
              [j \in 1..Len(s.f.args) |-> LET loc == CHOOSE x \in sts[j].pk[1] : TRUE IN
                                          [k |-> loc.k, g |-> loc.g, id |-> loc.id, off |-> loc.off]]
Export == PrintT(ToJson(<<"PLACE", Scn[i].id, PlaceOf(Scn[i])>>))
=============================================================================
