SPECIFICATION Spec
CONSTANTS
  MaxOps = 5
  MaxNodes = 9
  MaxRegs = 2
  Bug = "none"
  Cov = FALSE
INVARIANT CInv
PROPERTIES RefinesContract StepProps
VIEW View
