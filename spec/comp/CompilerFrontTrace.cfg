SPECIFICATION TSpec
INVARIANT TInv
CONSTRAINT Progress
POSTCONDITION TraceAccepted
