--------------------------- MODULE CompilerFrontMC ---------------------------
(* X06 Part B, design level: asmjit/core/compiler.cpp transcribed (add_func / end_func / new_invoke_node / _new_const   *)
(* / new_virt_reg / _new_stack / GlobalConstPoolPass in terms of the Builder primitives add_node and set_cursor) and    *)
(* explored by TLC over every call sequence of bounded length.  Checked: every step of the algorithm is a step of the    *)
(* documented contract (RefinesContract), the documented shape invariants hold in every state (CInv), the step          *)
(* properties of end_func / add_func (StepProps).  Bug # "none" seeds one transcription slip each (negative controls).  *)
(* With -simulate the module also exports call sequences that are replayed on the real Compiler (harness/compfront).    *)
EXTENDS CompilerFront, TLC

CONSTANTS MaxOps, MaxNodes, MaxRegs, Bug, Cov

VARIABLES nnodes,    \* node ids handed out so far
          nops,
          lastOp,    \* the call just made and what it reported
          hist       \* the calls so far (replay script)
vars == <<cvars, nnodes, nops, lastOp, hist>>

Taken(a) == Cov => PrintT(<<"ACT", a>>)

(* BaseBuilder::add_node(n): link n after the cursor, the cursor becomes n *)
AddNodeP(S, n) == [seq |-> InsertAfter(S.seq, S.cur, <<n>>), cur |-> n]
Here == [seq |-> seq, cur |-> cur]
ProjOf(s, c, f, v) == [fwd |-> s, bwd |-> Rev(s), cur |-> c, func |-> f, nv |-> Len(v)]
Proj == ProjOf(seq, cur, func, vregs)
Step(op, h) == /\ nops < MaxOps /\ nops' = nops + 1 /\ lastOp' = op /\ hist' = Append(hist, h)
Same == UNCHANGED cvars

Init == /\ Init0(1) /\ nnodes = 1 /\ nops = 0 /\ lastOp = [op |-> "Reset"] /\ hist = <<>>

(* BaseCompiler::new_func_node *)
INewFunc(good) ==
  /\ fin = 0 /\ Taken("INewFunc")
  /\ IF good
       THEN /\ nnodes + 3 <= MaxNodes
            /\ LET ns == <<nnodes + 1, nnodes + 2, nnodes + 3>> IN
               /\ funcs' = funcs \cup {[f |-> ns[1], x |-> ns[2], e |-> ns[3]]}
               /\ Step([op |-> "NewFunc", r |-> "Ok", good |-> TRUE, ns |-> ns], <<"NewFunc", TRUE>>)
            /\ nnodes' = nnodes + 3
            /\ UNCHANGED <<seq, cur, kind, func, pend, placed, vregs, nann, fin>>
       ELSE /\ Same /\ UNCHANGED nnodes
            /\ Step([op |-> "NewFunc", r |-> "Err", good |-> FALSE, ns |-> <<0, 0, 0>>], <<"NewFunc", FALSE>>)

(* BaseCompiler::add_func(node):  _func = func; add_node(func); prev = cursor(); add_node(exit); add_node(end);    *)
(*                                     set_cursor(prev)                                                                 *)
AddFuncBody(F) ==
  LET s1 == AddNodeP(Here, F.f)
      prev == s1.cur
      s2 == AddNodeP(s1, F.x)
      s3 == AddNodeP(s2, F.e) IN
  /\ seq' = s3.seq
  /\ cur' = IF Bug = "addFuncCursorEnd" THEN s3.cur ELSE prev
  /\ kind' = Mark(kind, <<F.f, F.x, F.e>>, <<"func", "label", "sentinel">>)
  /\ func' = F.f

Unadded == { F \in funcs : ~InSeq(seq, F.f) }
IAddFuncNode ==
  /\ fin = 0 /\ Taken("IAddFuncNode")
  /\ \E F \in Unadded :
       /\ \A G \in Unadded : F.f <= G.f                       \* the oldest one (keeps the replay script simple)
       /\ AddFuncBody(F)
       /\ Step([op |-> "AddFuncNode", f |-> F.f], <<"AddFuncNode">>)
  /\ UNCHANGED <<funcs, pend, placed, vregs, nann, fin, nnodes>>

IAddFunc(good) ==
  /\ fin = 0 /\ Taken("IAddFunc")
  /\ IF good
       THEN /\ nnodes + 3 <= MaxNodes
            /\ LET F == [f |-> nnodes + 1, x |-> nnodes + 2, e |-> nnodes + 3] IN
               /\ funcs' = funcs \cup {F}
               /\ AddFuncBody(F)
               /\ Step([op |-> "AddFunc", r |-> "Ok", good |-> TRUE, ns |-> <<F.f, F.x, F.e>>], <<"AddFunc", TRUE>>)
            /\ nnodes' = nnodes + 3
            /\ UNCHANGED <<pend, placed, vregs, nann, fin>>
       ELSE /\ Same /\ UNCHANGED nnodes
            /\ Step([op |-> "AddFunc", r |-> "Err", good |-> FALSE, ns |-> <<0, 0, 0>>], <<"AddFunc", FALSE>>)

(* BaseCompiler::end_func *)
IEndFunc ==
  /\ fin = 0 /\ Taken("IEndFunc")
  /\ IF func = 0
       THEN Same /\ Step([op |-> "EndFunc", r |-> "Err"], <<"EndFunc">>)
       ELSE LET F == FuncOf(func)
                (* set_cursor(func->end_node()->prev()); add_node(local_const_pool) *)
                at == IF Bug = "poolAfterEnd" THEN F.e ELSE seq[Idx(seq, F.e) - 1]
                s1 == IF pend.local # 0 THEN AddNodeP([seq |-> seq, cur |-> at], pend.local) ELSE Here IN
            /\ seq' = s1.seq
            /\ kind' = IF pend.local # 0 THEN Mark(kind, <<pend.local>>, <<"pool">>) ELSE kind
            /\ placed' = IF pend.local # 0 THEN placed \cup {[pool |-> pend.local, owner |-> func]} ELSE placed
            /\ pend' = IF Bug = "poolKept" THEN pend ELSE [pend EXCEPT !.local = 0]
            /\ func' = IF Bug = "funcKept" THEN func ELSE 0
            /\ cur' = IF Bug = "endCursorExit" THEN F.x ELSE F.e
            /\ UNCHANGED <<funcs, vregs, nann, fin>>
            /\ Step([op |-> "EndFunc", r |-> "Ok"], <<"EndFunc">>)
  /\ UNCHANGED nnodes

(* BaseCompiler::add_invoke_node: new_invoke_node (fails before anything is added when the signature is bad) + add_node *)
IInvoke(good) ==
  /\ fin = 0 /\ Taken("IInvoke")
  /\ IF good
       THEN /\ nnodes + 1 <= MaxNodes
            /\ LET n == nnodes + 1 s1 == AddNodeP(Here, n) IN
               /\ seq' = s1.seq /\ cur' = s1.cur
               /\ kind' = Mark(kind, <<n>>, <<"invoke">>)
               /\ Step([op |-> "Invoke", r |-> "Ok", good |-> TRUE, n |-> n, out |-> "node"], <<"Invoke", TRUE>>)
            /\ nnodes' = nnodes + 1
            /\ UNCHANGED <<func, funcs, pend, placed, vregs, nann, fin>>
       ELSE /\ Same /\ UNCHANGED nnodes
            /\ Step([op |-> "Invoke", r |-> "Err", good |-> FALSE, n |-> 0, out |-> IF Bug = "invokeStaleOut" THEN "stale" ELSE "null"],
                    <<"Invoke", FALSE>>)

IEmit(k) ==
  /\ fin = 0 /\ Taken("IEmit")
  /\ nnodes + 1 <= MaxNodes
  /\ LET n == nnodes + 1 s1 == AddNodeP(Here, n) IN
     /\ seq' = s1.seq /\ cur' = s1.cur
     /\ kind' = Mark(kind, <<n>>, <<k>>)
     /\ Step([op |-> "Emit", k |-> k, r |-> "Ok", n |-> n], <<"Emit", k>>)
  /\ nnodes' = nnodes + 1
  /\ UNCHANGED <<func, funcs, pend, placed, vregs, nann, fin>>

(* set_cursor to the node at position i of the list (0 = before the first node) *)
ISetCursor(i) ==
  /\ fin = 0 /\ Taken("ISetCursor")
  /\ i \in 0..Len(seq)
  /\ LET n == IF i = 0 THEN 0 ELSE seq[i] IN
     /\ n # cur
     /\ cur' = n
     /\ Step([op |-> "SetCursor", n |-> n], <<"SetCursor", i>>)
  /\ UNCHANGED <<seq, kind, func, funcs, pend, placed, vregs, nann, fin, nnodes>>

(* BaseCompiler::_new_const *)
INewConst(scope, okSize) ==
  /\ fin = 0 /\ Taken("INewConst")
  /\ IF scope = "bad"
       THEN /\ Same /\ UNCHANGED nnodes
            /\ Step([op |-> "NewConst", scope |-> scope, okSize |-> okSize, r |-> "Err", pool |-> 0], <<"NewConst", scope, okSize>>)
       ELSE LET create == pend[scope] = 0
                pool == IF create THEN nnodes + 1 ELSE pend[scope] IN
            /\ create => nnodes + 1 <= MaxNodes
            /\ nnodes' = IF create THEN nnodes + 1 ELSE nnodes
            /\ pend' = [pend EXCEPT ![scope] = pool]
            /\ UNCHANGED <<seq, cur, kind, func, funcs, placed, vregs, nann, fin>>
            /\ Step([op |-> "NewConst", scope |-> scope, okSize |-> okSize, r |-> IF okSize THEN "Ok" ELSE "Err", pool |-> pool],
                    <<"NewConst", scope, okSize>>)

(* BaseCompiler::new_virt_reg through new_reg(type) *)
INewReg(good) ==
  /\ fin = 0 /\ Taken("INewReg")
  /\ IF good
       THEN /\ Len(vregs) < MaxRegs
            /\ vregs' = Append(vregs, [size |-> 4, align |-> 4, stack |-> FALSE, name |-> "r"])
            /\ UNCHANGED <<seq, cur, kind, func, funcs, pend, placed, nann, fin>>
            /\ Step([op |-> "NewReg", r |-> "Ok", good |-> TRUE, idx |-> Len(vregs), size |-> 4, align |-> 4, name |-> "r"], <<"NewReg", TRUE>>)
       ELSE Same /\ Step([op |-> "NewReg", r |-> "Err", good |-> FALSE, idx |-> 0, size |-> 0, align |-> 0, name |-> ""], <<"NewReg", FALSE>>)
  /\ UNCHANGED nnodes

(* BaseCompiler::_new_stack: size == 0 or alignment not a power of two -> error; alignment 0 -> 1; > 64 -> 64 *)
INewStack(wsize, walign) ==
  /\ fin = 0 /\ Taken("INewStack")
  /\ IF wsize = 0 \/ ~(walign = 0 \/ IsPow2(walign))
       THEN Same /\ Step([op |-> "NewStack", r |-> "Err", idx |-> 0, size |-> 0, align |-> 0, wsize |-> wsize, walign |-> walign], <<"NewStack", wsize, walign>>)
       ELSE LET al == IF walign = 0 THEN 1 ELSE IF walign > 64 THEN 64 ELSE walign IN
            /\ Len(vregs) < MaxRegs
            /\ vregs' = Append(vregs, [size |-> wsize, align |-> al, stack |-> TRUE, name |-> ""])
            /\ UNCHANGED <<seq, cur, kind, func, funcs, pend, placed, nann, fin>>
            /\ Step([op |-> "NewStack", r |-> "Ok", idx |-> Len(vregs), size |-> wsize, align |-> al, wsize |-> wsize, walign |-> walign],
                    <<"NewStack", wsize, walign>>)
  /\ UNCHANGED nnodes

(* finalize(): run_passes -> GlobalConstPoolPass: add_after(global pool, last_node()) *)
IFinalize ==
  /\ fin = 0 /\ Taken("IFinalize")
  /\ LET fwd == IF pend.global # 0 /\ Bug # "globalNotFlushed" THEN Append(seq, pend.global) ELSE seq IN
     Step([op |-> "Finalize", r |-> "Ok", fwd |-> fwd], <<"Finalize">>)
  /\ fin' = 1
  /\ placed' = IF pend.global # 0 THEN placed \cup {[pool |-> pend.global, owner |-> 0]} ELSE placed
  /\ pend' = [pend EXCEPT !.global = 0]
  /\ UNCHANGED <<seq, cur, kind, func, funcs, vregs, nann, nnodes>>

(* BaseCompiler::on_reinit: BaseCompiler_clear + BaseBuilder::on_reinit (a new section node) *)
IReinit ==
  /\ Taken("IReinit")
  /\ nnodes + 1 <= MaxNodes /\ nops >= 1
  /\ LET n0 == nnodes + 1 IN
     /\ seq' = <<n0>> /\ cur' = n0 /\ kind' = [x \in {n0} |-> "section"]
     /\ func' = IF Bug = "reinitKeepsFunc" THEN func ELSE 0
     /\ funcs' = {} /\ pend' = [local |-> 0, global |-> 0] /\ placed' = {}
     /\ vregs' = IF Bug = "reinitKeepsRegs" THEN vregs ELSE <<>>
     /\ nann' = 0 /\ fin' = 0
     /\ Step([op |-> "Reinit", r |-> "Ok", n0 |-> n0], <<"Reinit">>)
  /\ nnodes' = nnodes + 1

Next == \/ IReinit
        \/ \E g \in BOOLEAN : INewFunc(g) \/ IAddFunc(g) \/ IInvoke(g) \/ INewReg(g)
        \/ IAddFuncNode \/ IEndFunc \/ IFinalize
        \/ \E k \in {"inst", "funcret"} : IEmit(k)
        \/ \E i \in 0..MaxNodes : ISetCursor(i)
        \/ \E sc \in {"local", "global", "bad"}, ok \in BOOLEAN : INewConst(sc, ok)
        \/ \E ws \in {0, 24}, wa \in {0, 3, 16, 128} : INewStack(ws, wa)
Spec == Init /\ [][Next]_vars

(* every step of the algorithm is a step of the documented contract *)
RefinesContract ==
  [][ LET o == lastOp' IN
      CASE o.op = "NewFunc"     -> NewFunc(o.r, o.good, o.ns, Proj')
        [] o.op = "AddFuncNode" -> AddFuncNode(o.f, Proj')
        [] o.op = "AddFunc"     -> AddFunc(o.r, o.good, o.ns, Proj')
        [] o.op = "EndFunc"     -> EndFunc(o.r, Proj')
        [] o.op = "Invoke"      -> Invoke(o.r, o.good, o.n, o.out, Proj')
        [] o.op = "Emit"        -> Emit(o.k, o.r, o.n, Proj')
        [] o.op = "SetCursor"   -> SetCursor(o.n, Proj')
        [] o.op = "NewConst"    -> NewConst(o.scope, o.okSize, o.r, o.pool, 1, 1, Proj')
        [] o.op = "NewReg"      -> NewReg(o.r, o.good, o.idx, o.size, o.align, o.name, {4}, "r", Proj')
        [] o.op = "NewStack"    -> NewStack(o.r, o.idx, o.size, o.align, o.wsize, o.walign, Proj')
        [] o.op = "Finalize"    -> Finalize(o.r, o.fwd)
        [] o.op = "Reinit"      -> Reinit(o.r, o.n0, 0, 0, Proj') ]_vars

(* the documented post-conditions, as step properties of their own (clearer counterexamples) *)
StepProps ==
  [][ LET o == lastOp' IN
      /\ (o.op = "EndFunc" /\ o.r = "Ok") => func' = 0 /\ pend'.local = 0 /\ kind'[cur'] = "sentinel"
      /\ (o.op \in {"AddFunc", "AddFuncNode"} /\ ("r" \notin DOMAIN o \/ o.r = "Ok")) => func' = cur' /\ kind'[cur'] = "func" ]_vars

View == <<cvars, nnodes, nops>>
Export == (nops = MaxOps \/ fin = 1) => PrintT(<<"BEH", hist>>)
=============================================================================
