SPECIFICATION Spec
CONSTANTS
  Scenarios <- MCScenarios
  RetVals <- MCRetVals
  MaxMoves = 1
  Cov = FALSE
  Bug = "none"
INVARIANTS ContractHolds Coherent OutCoherent OneHolder
