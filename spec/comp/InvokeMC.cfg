SPECIFICATION Spec
CONSTANTS
  Scenarios <- MCScenarios
  RetVals <- MCRetVals
  MaxMoves = 1
  Bug = "none"
INVARIANTS ContractHolds Coherent OutCoherent OneHolder
