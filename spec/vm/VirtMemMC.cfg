SPECIFICATION ISpec
CONSTANTS
  Grans = {2, 4}
  DefGran = 2
  MinBlock = 8
  MaxBlock = 64
  MaxOps = 2
  MaxFaults = 1
  Level = "vm"
  Bug = "none"
  EnvSet <- EnvsSome
INVARIANTS Accepted CInv WXEnforced
