-------------------------------- MODULE VirtMem --------------------------------
(* X01 - CONTRACT: asmjit::VirtMem and asmjit::JitRuntime - virtual-memory mappings follow the documented  *)
(* life cycle.                                                                                             *)
(*                                                                                                         *)
(* An execution is an interleaving of three layers of events, all recorded inside one process:             *)
(*   Os      every libc/OS request issued by asmjit code (mmap, munmap, mprotect, madvise, memfd_create,   *)
(*           shm_open, open, ftruncate, close, shm_unlink, unlink, read, malloc) with its arguments and    *)
(*           its result - recorded by link-time interposition inside the harness executable; a result may  *)
(*           be a failure INJECTED by the harness (fault position k) or a failure of the simulated         *)
(*           environment (no memfd_create, /dev/shm mounted noexec, W^X enforced, no huge pages);          *)
(*   Vm      call and return of every public VirtMem function (also interposed, so the calls made by       *)
(*           JitAllocator as a client of VirtMem are seen exactly like the calls of the test driver);      *)
(*   Rt      call and return of JitRuntime operations (construction, add, release, reset, destruction),    *)
(*           with what the driver observed: returned address, JitAllocator::query() of it, the base the    *)
(*           installed image was relocated for, image == reference image, result of executing it.          *)
(*   Jit / Flush   calls of VirtMem::protect_jit_memory and VirtMem::flush_instruction_cache; construction *)
(*           and destruction of a ProtectJitReadWriteScope by the driver are bracketed like Vm calls       *)
(*           (api scope_open / scope_close).                                                               *)
(*                                                                                                         *)
(* The state is what an OS would know - the set of mappings (address range, protection, backing object,    *)
(* sharing), open descriptors, names created in the file system - derived from the Os events ONLY, plus    *)
(* the API-level ghosts: live handles (memory a successful alloc / alloc_dual_mapping returned and that    *)
(* was not released), the runtime's live code spans.  Every API return is judged against that state:       *)
(* `Why(ev)` is the set of reasons the event is not allowed by the documented contract (empty = allowed),  *)
(* `Effect(ev)` is the total state update.  The implementation is free in everything the documentation     *)
(* leaves open: which error code, which anonymous-memory strategy, how many probes, which address.         *)
(*                                                                                                         *)
(* Addresses are byte addresses after order-preserving compression of the page numbers of one execution    *)
(* (tools side, checks/x01.py), so alignment, adjacency, containment and overlap are exact and < 2^31.     *)
EXTENDS Integers, Sequences, FiniteSets, TLC

(* JitAllocator::CreateParams limits (jitallocator.h: granularity "[64..256]", block size "[64kB..256MB]"); *)
(* constants so that the design-level model can run on a scaled-down address space                          *)
CONSTANTS Grans,      \* valid granularities; the first default applies otherwise
          DefGran,
          MinBlock, MaxBlock

VARIABLES
  page,     \* OS page size (from the Reset event)
  maps,     \* set of mappings [a, n, prot, obj, off, sh, huge]; obj = 0: anonymous, > 0: file object id
  fds,      \* function: descriptor -> file object, descriptors opened by the component and still open
  files,    \* set of [kind, name] created in /dev/shm or the tmp directory and not yet unlinked
  objsz,    \* function: file object -> size set by ftruncate (-1: a file that was only opened for reading)
  handles,  \* set of live API handles [k, rx, rw, n, owner, ok, pristine]  (k = "single": rx = rw)
  spans,    \* JitRuntime: set of live code spans [p, n]
  rt,       \* JitRuntime: [alive, dual, multi, fill, imm, nopad, gran, pools]
  vm,       \* VirtMem call in progress: [api, arg, m0, f0, log]   (api = "none": no call)
  rtc,      \* JitRuntime call in progress: [api, arg, h0, s0, m0, f0]
  jit,      \* per-thread JIT protection: "RX" | "RW"
  flushed,  \* ranges passed to flush_instruction_cache during the JitRuntime call in progress
  lastfree, \* JitRuntime: size of the span released by the previous call if its block stayed mapped, else 0
  facts     \* what the execution revealed so far: [refused, granted, fail, hard, info, lp, hri]

cvars == <<page, maps, fds, files, objsz, handles, spans, rt, vm, rtc, jit, flushed, lastfree, facts>>

(* ------------------------------------------------------------------------------------------------------ *)
(* helpers                                                                                                *)
(* ------------------------------------------------------------------------------------------------------ *)
Chk(label, cond) == IF cond THEN {} ELSE {label}
NoCall == [api |-> "none"]
NoRt == [alive |-> FALSE, dual |-> FALSE, multi |-> FALSE, fill |-> FALSE, imm |-> FALSE, nopad |-> FALSE, gran |-> DefGran, pools |-> 1]
Facts0 == [refused |-> FALSE, granted |-> FALSE, fail |-> FALSE, hard |-> 0, info |-> <<>>, lp |-> -1, hri |-> "unknown"]

IsPow2(n) == n > 0 /\ \E k \in 0 .. 30 : n = 2 ^ k
PageUp(n) == ((n + page - 1) \div page) * page
AlignUp(n, g) == ((n + g - 1) \div g) * g

(* access / protection as three bits: read = 1, write = 2, execute = 4 (MemoryFlags::kAccess* use the same) *)
Rb(x) == x % 2 = 1
Wb(x) == (x \div 2) % 2 = 1
Xb(x) == (x \div 4) % 2 = 1
MinusW(acc) == IF Wb(acc) THEN acc - 2 ELSE acc
MinusX(acc) == IF Xb(acc) THEN acc - 4 ELSE acc
(* "exactly the requested access": write and execute exactly as requested; read may be implied by write /   *)
(* execute (no platform maps write-only pages), and no access at all stays no access                       *)
GrantOk(acc, prot) == /\ Wb(prot) = Wb(acc) /\ Xb(prot) = Xb(acc)
                      /\ (Rb(acc) => Rb(prot)) /\ (Rb(prot) => acc % 8 # 0)

REnd(m) == m.a + m.n
Ov(m, a, n) == m.a < a + n /\ a < REnd(m)
Inside(a, n, b, m) == b <= a /\ a + n <= b + m
Cut(m, a, n) == (IF m.a < a THEN {[m EXCEPT !.n = a - m.a]} ELSE {})
           \cup (IF REnd(m) > a + n THEN {[m EXCEPT !.a = a + n, !.n = REnd(m) - (a + n), !.off = m.off + (a + n - m.a)]} ELSE {})
Mid(m, a, n) == LET lo == IF m.a > a THEN m.a ELSE a
                    hi == IF REnd(m) < a + n THEN REnd(m) ELSE a + n
                IN [m EXCEPT !.a = lo, !.n = hi - lo, !.off = m.off + (lo - m.a)]
Unmap(S, a, n) == UNION {IF Ov(m, a, n) THEN Cut(m, a, n) ELSE {m} : m \in S}
Reprot(S, a, n, p) == UNION {IF Ov(m, a, n) THEN Cut(m, a, n) \cup {[Mid(m, a, n) EXCEPT !.prot = p]} ELSE {m} : m \in S}
PagesOf(a, n) == {a + k * page : k \in 0 .. (PageUp(n) \div page) - 1}
CoveredBy(S, a, n, P(_)) == n > 0 /\ \A x \in PagesOf(a - (a % page), n + (a % page)) : \E m \in S : m.a <= x /\ x < REnd(m) /\ P(m)
Mapped(S, a, n) == CoveredBy(S, a, n, LAMBDA m : TRUE)
Unmapped(S, a, n) == \A m \in S : ~Ov(m, a, PageUp(n))

RemoveKey(f, k) == [x \in DOMAIN f \ {k} |-> f[x]]
NewObj == Cardinality(DOMAIN objsz) + 1

(* handles *)
HRanges(h) == IF h.k = "single" THEN {<<h.rx, PageUp(h.n)>>} ELSE {<<h.rx, PageUp(h.n)>>, <<h.rw, PageUp(h.n)>>}
OwnedBy(m, h) == \E r \in HRanges(h) : Inside(m.a, m.n, r[1], r[2])
Owned(S, H) == \A m \in S : \E h \in H : OwnedBy(m, h)
RtH(H) == {h \in H : h.owner = "rt"}
Owner == IF rtc.api = "none" THEN "client" ELSE "rt"
SpanIn(s, h) == Inside(s.p, s.n, h.rx, h.n)
EmptyBlocks(H, S) == {h \in RtH(H) : \A s \in S : ~SpanIn(s, h)}
(* JitAllocatorOptions::kImmediateRelease: "When this flag is not set the allocator would keep one empty    *)
(* block in each pool"; when set, unused blocks are released immediately during release() or reset()        *)
EmptyPolicy(H, S) == Cardinality(EmptyBlocks(H, S)) <= (IF rt.imm THEN 0 ELSE rt.pools)

Quiescent == vm.api = "none" /\ rtc.api = "none"
NoDescriptor == DOMAIN fds = {}
LeakWhy(H) == Chk("leak: a mapping is not owned by any live handle at API return", Owned(maps, H))
         \cup Chk("leak: a descriptor is still open at API return", NoDescriptor)
         \cup Chk("leak: a name created in the file system was not unlinked at API return", files = {})

(* ------------------------------------------------------------------------------------------------------ *)
(* Initial state / Reset                                                                                  *)
(* ------------------------------------------------------------------------------------------------------ *)
CInitWith(pg) ==
  /\ page = pg /\ maps = {} /\ fds = <<>> /\ files = {} /\ objsz = <<>> /\ handles = {} /\ spans = {}
  /\ rt = NoRt /\ vm = NoCall /\ rtc = NoCall /\ jit = "RX" /\ flushed = {} /\ lastfree = 0 /\ facts = Facts0
CInit == CInitWith(4096)

ResetEffect(ev) ==
  /\ page' = ev.page /\ maps' = {} /\ fds' = <<>> /\ files' = {} /\ objsz' = <<>> /\ handles' = {} /\ spans' = {}
  /\ rt' = NoRt /\ vm' = NoCall /\ rtc' = NoCall /\ jit' = "RX" /\ flushed' = {} /\ lastfree' = 0 /\ facts' = Facts0

(* ------------------------------------------------------------------------------------------------------ *)
(* Os events: the model of the operating system.  The "why" of an Os event is about the recording (the OS  *)
(* never hands out overlapping ranges), except for close(): closing a descriptor the component does not    *)
(* own is a defect of the component (it may belong to somebody else by now).                               *)
(* ------------------------------------------------------------------------------------------------------ *)
OsWhy(ev) ==
  Chk("os: request outside any API call", ~Quiescent) \cup
  (IF ev.fn = "mmap" /\ ev.ok THEN
        Chk("os: mmap result not page aligned", ev.a # 0 /\ ev.a % page = 0 /\ ev.n > 0)
   \cup Chk("os: mmap result overlaps a live mapping", \A m \in maps : ~Ov(m, ev.a, PageUp(ev.n)))
   \cup Chk("os: mmap of a descriptor that is not open", ev.fd = -1 \/ ev.fd \in DOMAIN fds)
   ELSE IF ev.fn \in {"memfd", "shm_open", "open"} /\ ev.ok THEN Chk("os: new descriptor equals a descriptor that is still open", ev.fd \notin DOMAIN fds)
   ELSE IF ev.fn = "mprotect" /\ ev.ok THEN Chk("os: mprotect of unmapped pages succeeded", Mapped(maps, ev.a, ev.n))
   ELSE IF ev.fn = "ftruncate" /\ ev.ok THEN Chk("os: ftruncate of a descriptor that is not open", ev.fd \in DOMAIN fds)
   ELSE IF ev.fn = "close" THEN Chk("close of a descriptor the component does not own (double close)", ev.fd \in DOMAIN fds)
   ELSE {})

OsEffect(ev) ==
  LET wx == ev.fn \in {"mmap", "mprotect"} /\ Wb(ev.prot) /\ Xb(ev.prot) IN
  /\ facts' = [facts EXCEPT !.refused = @ \/ (wx /\ ~ev.ok), !.granted = @ \/ (wx /\ ev.ok),
                            !.fail = @ \/ (~ev.ok /\ ev.fn \notin {"shm_unlink", "unlink"}),
                            \* failed requests other than a large-page mmap (for which regular pages are the fall-back)
                            !.hard = @ + (IF ~ev.ok /\ ev.fn \notin {"shm_unlink", "unlink", "madvise"} /\ ~(ev.fn = "mmap" /\ ev.huge) THEN 1 ELSE 0)]
  /\ maps' = IF ~ev.ok THEN maps
             ELSE IF ev.fn = "mmap" THEN
               maps \cup {[a |-> ev.a, n |-> PageUp(ev.n), prot |-> ev.prot,
                           obj |-> IF ev.fd = -1 THEN 0 ELSE IF ev.fd \in DOMAIN fds THEN fds[ev.fd] ELSE -2,
                           off |-> 0, sh |-> ev.sh, huge |-> ev.huge]}
             ELSE IF ev.fn = "munmap" THEN Unmap(maps, ev.a, PageUp(ev.n))
             ELSE IF ev.fn = "mprotect" THEN Reprot(maps, ev.a, PageUp(ev.n), ev.prot)
             ELSE maps
  /\ fds' = IF ev.fn \in {"memfd", "shm_open", "open"} /\ ev.ok THEN fds @@ (ev.fd :> NewObj)
            ELSE IF ev.fn = "close" /\ ev.fd \in DOMAIN fds THEN RemoveKey(fds, ev.fd)   \* Linux: closed even when close() reports an error
            ELSE fds
  /\ objsz' = IF ev.fn \in {"memfd", "shm_open"} /\ ev.ok THEN objsz @@ (NewObj :> 0)
              ELSE IF ev.fn = "open" /\ ev.ok THEN objsz @@ (NewObj :> IF ev.creat THEN 0 ELSE -1)
              ELSE IF ev.fn = "ftruncate" /\ ev.ok /\ ev.fd \in DOMAIN fds THEN [objsz EXCEPT ![fds[ev.fd]] = ev.n]
              ELSE objsz
  /\ files' = IF ev.fn = "shm_open" /\ ev.ok THEN files \cup {[kind |-> "shm", name |-> ev.name]}
              ELSE IF ev.fn = "open" /\ ev.ok /\ ev.creat THEN files \cup {[kind |-> "file", name |-> ev.name]}
              ELSE IF ev.fn = "shm_unlink" /\ ev.ok THEN files \ {[kind |-> "shm", name |-> ev.name]}
              ELSE IF ev.fn = "unlink" /\ ev.ok THEN files \ {[kind |-> "file", name |-> ev.name]}
              ELSE files
  /\ UNCHANGED <<page, handles, spans, rt, vm, rtc, jit, flushed, lastfree>>

(* ------------------------------------------------------------------------------------------------------ *)
(* protect_jit_memory / flush_instruction_cache                                                           *)
(*   virtmem.h: "This function must be called before and after a memory mapped with MAP_JIT flag is        *)
(*   modified" - kReadWrite ... write ... kReadExecute, then flush_instruction_cache(); the protection is  *)
(*   one per-thread switch, so a write window opened inside an open write window (nested                   *)
(*   ProtectJitReadWriteScope) would be closed by the inner scope while the outer one still writes.        *)
(* ------------------------------------------------------------------------------------------------------ *)
JitWhy(ev) == Chk("jit: write window opened inside an open write window (nested ProtectJitReadWriteScope)",
                  ev.acc = "RW" => jit = "RX")
(* Jit / Flush events inside a recorded call are also appended to the call's log (ProtectJitReadWriteScope) *)
Logged(x) == IF vm.api = "none" THEN vm ELSE [vm EXCEPT !.log = Append(@, x)]
JitEffect(ev) == /\ jit' = ev.acc /\ vm' = Logged([k |-> "jit", acc |-> ev.acc])
                 /\ UNCHANGED <<page, maps, fds, files, objsz, handles, spans, rt, rtc, flushed, lastfree, facts>>
FlushWhy(ev) == {}
FlushEffect(ev) == /\ flushed' = IF rtc.api = "none" THEN flushed ELSE flushed \cup {[a |-> ev.a, n |-> ev.n]}
                   /\ vm' = Logged([k |-> "flush", a |-> ev.a, n |-> ev.n])
                   /\ UNCHANGED <<page, maps, fds, files, objsz, handles, spans, rt, rtc, jit, lastfree, facts>>

(* ------------------------------------------------------------------------------------------------------ *)
(* VirtMem API                                                                                            *)
(* ------------------------------------------------------------------------------------------------------ *)
VmCallWhy(ev) == Chk("vm: call inside a VirtMem call", vm.api = "none")
VmCallEffect(ev) == /\ vm' = [api |-> ev.api, arg |-> ev, m0 |-> maps, f0 |-> facts.hard, log |-> <<>>]
                    /\ UNCHANGED <<page, maps, fds, files, objsz, handles, spans, rt, rtc, jit, flushed, lastfree, facts>>

New == maps \ vm.m0
TheNew == CHOOSE m \in New : TRUE
NewAt(a) == {m \in New : m.a = a}

(* alloc(p, size, flags): "Allocates virtual memory by either using mmap() (POSIX) or VirtualAlloc()"      *)
(*   success: page-aligned memory of at least `size` bytes with exactly the requested access, anonymous,   *)
(*            private unless kMapShared, large pages iff kMMapLargePages ("If this option is used and      *)
(*            large page(s) cannot be mapped, the allocation will fail");                                  *)
(*   failure: *p = nullptr and nothing is left behind.                                                     *)
AllocWhy(ev) ==
  LET a == vm.arg IN
  IF ev.r = "Ok" THEN
       Chk("alloc: size 0 accepted", a.n > 0)
  \cup Chk("alloc: returned pointer null or not page aligned", ev.p # 0 /\ ev.p % page = 0)
  \cup Chk("alloc: success, but the OS state is not 'the old mappings plus exactly one new mapping'",
           Cardinality(New) = 1 /\ vm.m0 \subseteq maps)
  \cup (IF Cardinality(New) = 1 /\ a.n > 0 THEN
          LET m == TheNew IN
               Chk("alloc: the new mapping does not start at the returned pointer", m.a = ev.p)
          \cup Chk("alloc: the new mapping is smaller than requested", m.n >= a.n)
          \cup Chk("alloc: access of the new mapping is not exactly the requested access", GrantOk(a.acc, m.prot))
          \cup Chk("alloc: mapping is not anonymous", m.obj = 0)
          \cup Chk("alloc: sharing differs from kMapShared", m.sh = a.sh)
          \cup Chk("alloc: kMMapLargePages granted without large pages", a.huge => m.huge)
          \cup Chk("alloc: /proc/self/maps disagrees (range not covered, other protection or sharing)",
                   ev.obs.cov /\ ev.obs.perms = m.prot /\ ev.obs.sh = a.sh)
          \cup Chk("alloc: memory not usable with the requested access (write/read-back/execute)", ev.obs.use)
        ELSE {})
  ELSE Chk("alloc: failure, but *p is not null", ev.p = 0)
  \cup Chk("alloc: failure left the set of mappings changed", maps = vm.m0)
  \cup Chk("alloc: failed although the arguments are valid and no OS request failed", a.n = 0 \/ a.huge \/ facts.hard > vm.f0)
AllocHandles(ev) ==
  IF ev.r = "Ok" /\ ev.p # 0
    THEN handles \cup {[k |-> "single", rx |-> ev.p, rw |-> ev.p, n |-> IF vm.arg.n > 0 THEN vm.arg.n ELSE page, owner |-> Owner, ok |-> TRUE, pristine |-> TRUE]}
    ELSE handles

(* release(p, size): "Releases virtual memory previously allocated by VirtMem::alloc()".                   *)
ReleaseWhy(ev) ==
  LET a == vm.arg IN
  IF ev.r = "Ok" THEN
       Chk("release: success, but the range is still mapped", Unmapped(maps, a.p, a.n))
  \cup Chk("release: mappings outside the released range changed", maps = Unmap(vm.m0, a.p, PageUp(a.n)))
  ELSE Chk("release: failure changed the set of mappings", maps = vm.m0)
ReleaseHandles(ev) ==
  IF ev.r = "Ok" THEN {h \in handles : ~(h.k = "single" /\ h.rx = vm.arg.p /\ PageUp(h.n) = PageUp(vm.arg.n))} ELSE handles

(* protect(p, size, flags): "A cross-platform wrapper around mprotect()"                                   *)
ProtectWhy(ev) ==
  LET a == vm.arg IN
  IF ev.r = "Ok" THEN
       Chk("protect: success, but the range does not have exactly the requested access",
           CoveredBy(maps, a.p, a.n, LAMBDA m : GrantOk(a.acc, m.prot)))
  \cup Chk("protect: mappings outside the range changed", Unmap(maps, a.p, PageUp(a.n)) = Unmap(vm.m0, a.p, PageUp(a.n)))
  \cup Chk("protect: /proc/self/maps disagrees", ev.obs.cov /\ GrantOk(a.acc, ev.obs.perms))
  ELSE Chk("protect: failure changed the mappings", maps = vm.m0)

(* alloc_dual_mapping(dm, size, flags): "Allocates virtual memory and creates two views of it where the     *)
(*   first view has no write access ... two independent mappings of the same shared memory region";         *)
(*   "Both pointers in dm would be set to nullptr if the function fails".                                   *)
DualWhy(ev) ==
  LET a == vm.arg IN
  IF ev.r = "Ok" THEN
       Chk("dual: size 0 accepted", a.n > 0)
  \cup Chk("dual: a returned pointer is null or not page aligned, or both views are the same",
           ev.rx # 0 /\ ev.rw # 0 /\ ev.rx % page = 0 /\ ev.rw % page = 0 /\ ev.rx # ev.rw)
  \cup Chk("dual: success, but the OS state is not 'the old mappings plus exactly two new mappings'",
           Cardinality(New) = 2 /\ vm.m0 \subseteq maps)
  \cup (IF Cardinality(NewAt(ev.rx)) = 1 /\ Cardinality(NewAt(ev.rw)) = 1 /\ ev.rx # ev.rw THEN
          LET mx == CHOOSE m \in NewAt(ev.rx) : TRUE
              mw == CHOOSE m \in NewAt(ev.rw) : TRUE IN
               Chk("dual: a view is smaller than requested", mx.n >= a.n /\ mw.n >= a.n)
          \cup Chk("dual: the views are not shared mappings of one file object at offset 0",
                   mx.obj > 0 /\ mx.obj = mw.obj /\ mx.off = 0 /\ mw.off = 0 /\ mx.sh /\ mw.sh)
          \cup Chk("dual: the backing object is smaller than the views (not allocated)",
                   mx.obj \in DOMAIN objsz /\ objsz[mx.obj] >= a.n)
          \cup Chk("dual: the first (rx) view does not have the requested access minus write", GrantOk(MinusW(a.acc), mx.prot))
          \cup Chk("dual: the second (rw) view does not have the requested access minus execute", GrantOk(MinusX(a.acc), mw.prot))
          \cup Chk("dual: /proc/self/maps disagrees (protection, sharing, or different inodes)",
                   ev.obs.cov /\ ev.obs.prx = mx.prot /\ ev.obs.prw = mw.prot /\ ev.obs.sh /\ ev.obs.ino)
          \cup Chk("dual: the views do not alias (a write through rw is not read through rx)", ev.obs.alias)
        ELSE {"dual: no new mapping at a returned pointer"})
  ELSE Chk("dual: failure, but a pointer of dm is not null", ev.rx = 0 /\ ev.rw = 0)
  \cup Chk("dual: failure left the set of mappings changed (a view was not released)", maps = vm.m0)
  \cup Chk("dual: failed although the arguments are valid and no OS request failed", a.n = 0 \/ facts.hard > vm.f0)
DualHandles(ev) ==
  IF ev.r = "Ok" /\ ev.rx # 0 /\ ev.rw # 0
    THEN handles \cup {[k |-> "dual", rx |-> ev.rx, rw |-> ev.rw, n |-> IF vm.arg.n > 0 THEN vm.arg.n ELSE page, owner |-> Owner, ok |-> TRUE, pristine |-> TRUE]}
    ELSE handles

(* release_dual_mapping(dm, size): "Releases virtual memory mapping previously allocated by                 *)
(*   alloc_dual_mapping()"; "Both pointers in dm would be set to nullptr if the function succeeds".         *)
Unmap2(S, a) == Unmap(Unmap(S, a.rx, PageUp(a.n)), a.rw, PageUp(a.n))
RelDualWhy(ev) ==
  LET a == vm.arg IN
  IF ev.r = "Ok" THEN
       Chk("release_dual: success, but a view is still mapped", Unmapped(maps, a.rx, a.n) /\ Unmapped(maps, a.rw, a.n))
  \cup Chk("release_dual: mappings outside the two views changed", maps = Unmap2(vm.m0, a))
  \cup Chk("release_dual: success, but dm was not set to null", ev.rx = 0 /\ ev.rw = 0)
  ELSE Chk("release_dual: failure changed mappings outside the two views", Unmap2(maps, a) = Unmap2(vm.m0, a))
RelDualHandles(ev) ==
  LET mine(h) == h.k = "dual" /\ h.rx = vm.arg.rx /\ h.rw = vm.arg.rw IN
  IF ev.r = "Ok" THEN {h \in handles : ~mine(h)}
  ELSE {IF mine(h) THEN [h EXCEPT !.ok = FALSE] ELSE h : h \in handles}

(* info(): "Virtual memory page size / page granularity"                                                    *)
InfoWhy(ev) ==
       Chk("info: page_size is not the OS page size", ev.ps = page /\ IsPow2(ev.ps))
  \cup Chk("info: page_granularity is not a multiple of the page size", ev.pg >= ev.ps /\ ev.pg % ev.ps = 0)
  \cup Chk("info: differs from an earlier answer", facts.info = <<>> \/ facts.info = <<ev.ps, ev.pg>>)
  \cup Chk("info: changed the mappings", maps = vm.m0)
(* large_page_size(): "Returns either the detected large page size or 0, if large page support is either    *)
(*   not supported by AsmJit or not accessible to the process."  (ev.sys = what the OS says, 0 = nothing)   *)
LpsWhy(ev) ==
       Chk("large_page_size: neither 0 nor the size the OS reports", ev.lp = 0 \/ ev.lp = ev.sys)
  \cup Chk("large_page_size: not a power of two above the page size", ev.lp = 0 \/ (IsPow2(ev.lp) /\ ev.lp > page))
  \cup Chk("large_page_size: 0 although the OS reports one and nothing failed", (ev.lp = 0 /\ IsPow2(ev.sys) /\ ev.sys > page) => facts.fail)
  \cup Chk("large_page_size: differs from an earlier answer", facts.lp = -1 \/ facts.lp = ev.lp)
  \cup Chk("large_page_size: changed the mappings", maps = vm.m0)
(* hardened_runtime_info(): kEnabled - "it's not possible to have Write & Execute memory protection";       *)
(*   kMapJit - "(Apple specific)"; kDualMapping - RWX "can be allocated with dual mapping approach".        *)
HriWhy(ev) ==
       Chk("hardened_runtime_info: kEnabled although no write+execute request was ever refused", ev.en => facts.refused)
  \cup Chk("hardened_runtime_info: not kEnabled although no write+execute request was ever granted", ~ev.en => facts.granted)
  \cup Chk("hardened_runtime_info: kMapJit / kDualMapping wrong for this platform", ev.dual /\ ~ev.mapjit)
  \cup Chk("hardened_runtime_info: differs from an earlier answer", facts.hri = "unknown" \/ (facts.hri = "enabled") = ev.en)
  \cup Chk("hardened_runtime_info: changed the mappings", maps = vm.m0)

(* a successful protect() by the owner changes what the views of a handle may do: no longer "as allocated" *)
ProtectHandles(ev) ==
  IF ev.r = "Ok" THEN {IF \E r \in HRanges(h) : r[1] < vm.arg.p + PageUp(vm.arg.n) /\ vm.arg.p < r[1] + r[2] THEN [h EXCEPT !.pristine = FALSE] ELSE h : h \in handles}
  ELSE handles
(* ProtectJitReadWriteScope: "It calls protect_jit_memory(kReadWrite) at construction time and                *)
(*   protect_jit_memory(kReadExecute) combined with flush_instruction_cache() in destructor" - the flush      *)
(*   unless the policy is CachePolicy::kNeverFlush ("Avoid flushing instruction cache after a write").       *)
ScopeOpenWhy(ev) == Chk("scope: construction is not exactly protect_jit_memory(kReadWrite)", vm.log = <<[k |-> "jit", acc |-> "RW"]>>)
ScopeCloseWhy(ev) ==
  LET a == vm.arg
      rx == [k |-> "jit", acc |-> "RX"]
      fl == [k |-> "flush", a |-> a.p, n |-> a.n] IN
  Chk("scope: destruction is not protect_jit_memory(kReadExecute) followed by flush_instruction_cache(rx, size) unless kNeverFlush",
      vm.log = (IF a.policy = 2 THEN <<rx>> ELSE <<rx, fl>>))

VmRetHandles(ev) ==
  IF ev.api = "alloc" THEN AllocHandles(ev) ELSE IF ev.api = "release" THEN ReleaseHandles(ev) ELSE IF ev.api = "protect" THEN ProtectHandles(ev)
  ELSE IF ev.api = "dual" THEN DualHandles(ev) ELSE IF ev.api = "reldual" THEN RelDualHandles(ev) ELSE handles

VmRetWhy(ev) ==
  IF vm.api # ev.api THEN {"vm: return without matching call"}
  ELSE (IF ev.api = "alloc" THEN AllocWhy(ev) ELSE IF ev.api = "release" THEN ReleaseWhy(ev)
        ELSE IF ev.api = "protect" THEN ProtectWhy(ev) ELSE IF ev.api = "dual" THEN DualWhy(ev)
        ELSE IF ev.api = "reldual" THEN RelDualWhy(ev) ELSE IF ev.api = "info" THEN InfoWhy(ev)
        ELSE IF ev.api = "lps" THEN LpsWhy(ev) ELSE IF ev.api = "hri" THEN HriWhy(ev)
        ELSE IF ev.api = "scope_open" THEN ScopeOpenWhy(ev) ELSE IF ev.api = "scope_close" THEN ScopeCloseWhy(ev) ELSE {"vm: unknown api"})
       \cup LeakWhy(VmRetHandles(ev))

VmRetEffect(ev) ==
  /\ handles' = VmRetHandles(ev)
  /\ facts' = IF ev.api = "info" THEN [facts EXCEPT !.info = <<ev.ps, ev.pg>>]
              ELSE IF ev.api = "lps" THEN [facts EXCEPT !.lp = ev.lp]
              ELSE IF ev.api = "hri" THEN [facts EXCEPT !.hri = IF ev.en THEN "enabled" ELSE "disabled"]
              ELSE facts
  /\ vm' = NoCall
  /\ UNCHANGED <<page, maps, fds, files, objsz, spans, rt, rtc, jit, flushed, lastfree>>

(* ------------------------------------------------------------------------------------------------------ *)
(* JitRuntime                                                                                             *)
(* ------------------------------------------------------------------------------------------------------ *)
RtCallWhy(ev) == Chk("rt: call inside a call", Quiescent)
              \cup Chk("rt: operation on a runtime that does not exist", ev.api = "new" \/ rt.alive)
RtCallEffect(ev) == /\ rtc' = [api |-> ev.api, arg |-> ev, h0 |-> handles, s0 |-> spans, m0 |-> maps, f0 |-> facts.hard]
                    /\ flushed' = {}
                    /\ UNCHANGED <<page, maps, fds, files, objsz, handles, spans, rt, vm, jit, lastfree, facts>>

(* JitRuntime(params) / JitAllocator(params):                                                              *)
(*   kUseDualMapping: "Dual mapping would be automatically turned on by JitAllocator in case of hardened    *)
(*   runtime that enforces W^X policy"; CreateParams: "If the input is not valid then the default block     *)
(*   size will be used instead", granularity "(default 64)"; the runtime targets the host.                  *)
RtNewWhy(ev) ==
  LET a == rtc.arg IN
       Chk("new: allocator not initialized although nothing failed", ev.init \/ facts.fail)
  \cup (IF ev.init THEN
             Chk("new: dual mapping not (only) enabled by request or by a hardened runtime",
                 ev.o.dual = (a.dual \/ facts.hri = "enabled"))
        \cup Chk("new: other options not as requested", ev.o.multi = a.multi /\ ev.o.fill = a.fill /\ ev.o.imm = a.imm /\ ev.o.nopad = a.nopad)
        \cup Chk("new: granularity is neither the valid request nor the default 64",
                 ev.o.gran = (IF a.gran \in Grans THEN a.gran ELSE DefGran))
        \cup Chk("new: block size is neither the valid request nor the default",
                 IF IsPow2(a.block) /\ a.block >= MinBlock /\ a.block <= MaxBlock THEN ev.o.block = a.block
                 ELSE facts.info # <<>> /\ ev.o.block = facts.info[2])
        ELSE {})
  \cup Chk("new: the runtime's target is not the host (arch, JIT object format, cpu features)", ev.target)
  \cup Chk("new: construction created or kept a mapping", handles = rtc.h0)

(* add(dst, code): "Allocates memory needed for a code stored in the CodeHolder and relocates the code to   *)
(*   the pointer allocated.  The beginning of the memory allocated for the function is returned in dst.     *)
(*   If failed Error code is returned and dst is explicitly set to nullptr".                                *)
RtAddWhy(ev) ==
  LET a == rtc.arg IN
  IF ev.r = "Ok" THEN
       Chk("add: success without code", a.size > 0)
  \cup Chk("add: returned address null or not aligned to the granularity", ev.p # 0 /\ ev.p % rt.gran = 0)
  \cup Chk("add: query() of the returned address is not a span starting there, covering the code, of granular size",
           ev.q = "Ok" /\ ev.qrx = ev.p /\ ev.qn >= a.size /\ ev.qn % rt.gran = 0)
  \cup (IF ev.q = "Ok" /\ ev.qn > 0 /\ ev.p # 0 THEN
          LET hs == {h \in RtH(handles) : h.ok /\ Inside(ev.p, ev.qn, h.rx, h.n)} IN
               Chk("add: the span is not inside one block mapped by the runtime", Cardinality(hs) = 1)
          \cup (IF Cardinality(hs) = 1 THEN
                  LET h == CHOOSE h \in hs : TRUE IN
                       Chk("add: writable address is not the same offset in the block's rw view", ev.qrw = ev.p - h.rx + h.rw)
                  \cup Chk("add: code is not in readable+executable memory", CoveredBy(maps, ev.p, ev.qn, LAMBDA m : Rb(m.prot) /\ Xb(m.prot)))
                  \cup Chk("add: dual mapping option and kind of block disagree", rt.dual = (h.k = "dual"))
                  \cup Chk("add: dual mapping, but the executable view is writable or the writable view is executable",
                           h.k = "dual" => /\ CoveredBy(maps, ev.p, ev.qn, LAMBDA m : ~Wb(m.prot))
                                           /\ CoveredBy(maps, ev.qrw, ev.qn, LAMBDA m : Wb(m.prot) /\ ~Xb(m.prot)))
                  \cup Chk("add: function placed at the very beginning of a mapped region although initial padding is on",
                           rt.nopad \/ ev.p > h.rx)
                ELSE {})
        ELSE {})
  \cup Chk("add: span overlaps a live span", \A s \in spans : ev.p + ev.qn <= s.p \/ s.p + s.n <= ev.p)
  \cup Chk("add: image was not relocated for exactly the returned address", ev.base = ev.p)
  \cup Chk("add: installed bytes differ from the flattened and relocated image", ev.img)
  \cup Chk("add: executing the installed function gives a wrong result", ev.run)
  \cup Chk("add: another live function changed", ev.intact)
  \cup Chk("add: instruction cache not flushed for the installed code", \E f \in flushed : Inside(ev.p, a.size, f.a, f.n))
  \cup Chk("add: a span of the size just released was not reused (a new block was mapped)",
           (lastfree # 0 /\ AlignUp(a.size, rt.gran) = lastfree) => handles = rtc.h0)
  \cup Chk("add: more empty blocks kept than the release policy allows", EmptyPolicy(handles, spans \cup {[p |-> ev.p, n |-> ev.qn]}))
  ELSE Chk("add: failure, but dst is not null", ev.p = 0)
  \cup Chk("add: failure changed a live function", ev.intact)
  \cup Chk("add: no code, but mappings changed", a.size > 0 \/ handles = rtc.h0)
  \cup Chk("add: failed although there is code and no request failed (a refused large-page request must fall back to regular pages)",
           a.size = 0 \/ facts.hard > rtc.f0)
  \cup Chk("add: failure left more empty blocks than the release policy allows", EmptyPolicy(handles, spans))
RtAddSpans(ev) == IF ev.r = "Ok" /\ ev.p # 0 THEN spans \cup {[p |-> ev.p, n |-> IF ev.qn > 0 THEN ev.qn ELSE rt.gran]} ELSE spans

(* release(p): "Releases p which was obtained by calling add()"                                            *)
RtRelWhy(ev) ==
  LET a == rtc.arg
      ss == {s \in spans : s.p = a.p} IN
  IF a.kind = "live" THEN
       Chk("release: a live function was not released", ev.r = "Ok" /\ ss # {})
  \cup Chk("release: another live function changed", ev.intact)
  \cup Chk("release: harness and specification disagree whether the block is still mapped",
           ss # {} => (ev.mapped = \A s \in ss : Mapped(maps, s.p, s.n)))
  \cup Chk("release: kFillUnusedMemory, but the released memory was not filled", (rt.fill /\ ev.mapped) => ev.filled)
  \cup Chk("release: more empty blocks kept than the release policy allows", EmptyPolicy(handles, spans \ ss))
  ELSE Chk("release: null or foreign pointer accepted", ev.r # "Ok")
  \cup Chk("release: refused, but mappings changed", handles = rtc.h0)
  \cup Chk("release: refused, but a live function changed", ev.intact)
RtRelSpans(ev) == IF rtc.arg.kind = "live" /\ ev.r = "Ok" THEN {s \in spans : s.p # rtc.arg.p} ELSE spans

(* reset(policy): "Resets the JitRuntime, freeing everything that was allocated by it. ... freed entirely    *)
(*   when ResetPolicy::kHard is used, or the allocator can keep some of it for next allocations"            *)
RtResetWhy(ev) ==
       Chk("reset(hard): a block is still mapped", rtc.arg.hard => RtH(handles) = {})
  \cup Chk("reset: more blocks kept than the release policy allows", EmptyPolicy(handles, {}))
  \cup Chk("reset: kFillUnusedMemory, but memory of a kept block was not wiped", rt.fill => ev.filled)
RtDelWhy(ev) == Chk("~JitRuntime: a block is still mapped", RtH(handles) = {})

RtRetWhy(ev) ==
  IF rtc.api # ev.api THEN {"rt: return without matching call"}
  ELSE (IF ev.api = "new" THEN RtNewWhy(ev) ELSE IF ev.api = "add" THEN RtAddWhy(ev)
        ELSE IF ev.api = "release" THEN RtRelWhy(ev) ELSE IF ev.api = "reset" THEN RtResetWhy(ev)
        ELSE IF ev.api = "del" THEN RtDelWhy(ev) ELSE {"rt: unknown api"})
       \cup Chk("rt: return inside a VirtMem call", vm.api = "none")
       \cup Chk("rt: JIT write protection left open at return", jit = "RX")
       \cup LeakWhy(handles)

RtRetEffect(ev) ==
  /\ rt' = IF ev.api = "new" THEN
             (IF ev.init THEN [alive |-> TRUE, dual |-> ev.o.dual, multi |-> ev.o.multi, fill |-> ev.o.fill, imm |-> ev.o.imm,
                               nopad |-> ev.o.nopad, gran |-> ev.o.gran, pools |-> IF ev.o.multi THEN 3 ELSE 1]
              ELSE [NoRt EXCEPT !.alive = TRUE])
           ELSE IF ev.api = "del" THEN NoRt ELSE rt
  /\ spans' = IF ev.api = "add" THEN RtAddSpans(ev) ELSE IF ev.api = "release" THEN RtRelSpans(ev)
              ELSE IF ev.api \in {"reset", "del"} THEN {} ELSE spans
  /\ lastfree' = IF ev.api = "release" /\ rtc.arg.kind = "live" /\ ev.r = "Ok" /\ ev.mapped
                   THEN (LET ss == {s \in spans : s.p = rtc.arg.p} IN IF ss = {} THEN 0 ELSE (CHOOSE s \in ss : TRUE).n)
                   ELSE 0
  /\ rtc' = NoCall /\ flushed' = {}
  /\ UNCHANGED <<page, maps, fds, files, objsz, handles, vm, jit, facts>>

(* End of an execution: everything was released by the script; the harness counted the entries of           *)
(* /proc/self/fd and the mappings of its own table independently of this specification.                     *)
EndWhy(ev) ==
       Chk("end: execution ends inside a call", Quiescent)
  \cup Chk("end: descriptors leaked according to /proc/self/fd", ev.fdleak = 0)
  \cup Chk("end: specification and /proc/self/maps disagree whether mappings are left", (ev.mapleft = 0) = (maps = {}))
  \cup LeakWhy(handles)

(* ------------------------------------------------------------------------------------------------------ *)
(* Dispatch                                                                                               *)
(* ------------------------------------------------------------------------------------------------------ *)
Why(ev) ==
  IF ev.e = "Reset" THEN {}
  ELSE IF ev.e = "Os" THEN OsWhy(ev)
  ELSE IF ev.e = "Jit" THEN JitWhy(ev)
  ELSE IF ev.e = "Flush" THEN FlushWhy(ev)
  ELSE IF ev.e = "VmCall" THEN VmCallWhy(ev)
  ELSE IF ev.e = "VmRet" THEN VmRetWhy(ev)
  ELSE IF ev.e = "RtCall" THEN RtCallWhy(ev)
  ELSE IF ev.e = "RtRet" THEN RtRetWhy(ev)
  ELSE IF ev.e = "End" THEN EndWhy(ev)
  ELSE {"event that no action of the contract consumes: " \o ev.e}      \* ABORT: crash, sanitizer report, timeout

Effect(ev) ==
  IF ev.e = "Reset" THEN ResetEffect(ev)
  ELSE IF ev.e = "Os" THEN OsEffect(ev)
  ELSE IF ev.e = "Jit" THEN JitEffect(ev)
  ELSE IF ev.e = "Flush" THEN FlushEffect(ev)
  ELSE IF ev.e = "VmCall" THEN VmCallEffect(ev)
  ELSE IF ev.e = "VmRet" THEN VmRetEffect(ev)
  ELSE IF ev.e = "RtCall" THEN RtCallEffect(ev)
  ELSE IF ev.e = "RtRet" THEN RtRetEffect(ev)
  ELSE UNCHANGED cvars

(* ------------------------------------------------------------------------------------------------------ *)
(* The property as state invariants (redundant with the Why sets at the returns; checked in every state)   *)
(* ------------------------------------------------------------------------------------------------------ *)
NoLeakWhenIdle == Quiescent => (Owned(maps, handles) /\ NoDescriptor /\ files = {})
(* (a handle whose release failed half-way - ok = FALSE - may name a range the OS has handed out again) *)
HandlesDisjoint == \A g, h \in handles : (g # h /\ g.ok /\ h.ok) =>
                     \A r \in HRanges(g) : \A q \in HRanges(h) : r[1] + r[2] <= q[1] \/ q[1] + q[2] <= r[1]
HandleBacked == vm.api = "none" =>
                  \A h \in handles : h.ok => \A r \in HRanges(h) : Mapped(maps, r[1], r[2])
DualIsWX == vm.api = "none" =>
              \A h \in handles : (h.ok /\ h.pristine /\ h.k = "dual") =>
                 /\ CoveredBy(maps, h.rx, h.n, LAMBDA m : ~Wb(m.prot))
                 /\ CoveredBy(maps, h.rw, h.n, LAMBDA m : ~Xb(m.prot))
SpansOK == /\ \A s, t \in spans : s # t => (s.p + s.n <= t.p \/ t.p + t.n <= s.p)
           /\ rtc.api = "none" => \A s \in spans : \E h \in RtH(handles) : SpanIn(s, h)
(* a client may keep a ProtectJitReadWriteScope open between calls; the runtime must not (see RtRetWhy) *)
CInv == NoLeakWhenIdle /\ HandlesDisjoint /\ HandleBacked /\ DualIsWX /\ SpansOK
(* the same as a set of reasons (used by the trace specification, which reports instead of stopping) *)
InvWhy == Chk("invariant NoLeakWhenIdle violated in the state before this event", NoLeakWhenIdle)
     \cup Chk("invariant HandlesDisjoint violated in the state before this event", HandlesDisjoint)
     \cup Chk("invariant HandleBacked violated in the state before this event", HandleBacked)
     \cup Chk("invariant DualIsWX violated in the state before this event", DualIsWX)
     \cup Chk("invariant SpansOK violated in the state before this event", SpansOK)
(* events after which the state cannot be tracked any further (the execution is abandoned) *)
Hard(ev) == \/ ev.e \notin {"Reset", "Os", "Jit", "Flush", "VmCall", "VmRet", "RtCall", "RtRet", "End"}
            \/ ev.e = "VmRet" /\ vm.api # ev.api
            \/ ev.e = "RtRet" /\ rtc.api # ev.api
=============================================================================
