------------------------------ MODULE VirtMemMC ------------------------------
(* Model-checking instance of VirtMemImpl (the .cfg is written by checks/x01.py). *)
EXTENDS VirtMemImpl

Env(memfd, shmexec, rwx, huge, lpfile) == [memfd |-> memfd, shmexec |-> shmexec, rwx |-> rwx, huge |-> huge, lpfile |-> lpfile]
EnvsAll == Envs
(* the environments that differ in what the fall-back logic does *)
EnvsSome == { Env(TRUE, TRUE, TRUE, TRUE, TRUE),       \* everything available
              Env(FALSE, TRUE, TRUE, TRUE, TRUE),      \* no memfd_create: shm_open, /dev/shm executable
              Env(FALSE, FALSE, TRUE, FALSE, TRUE),    \* no memfd_create, /dev/shm noexec: tmp files; no huge pages
              Env(TRUE, TRUE, FALSE, TRUE, FALSE),     \* hardened runtime (W^X); no huge page information
              Env(FALSE, FALSE, FALSE, FALSE, FALSE) } \* nothing
EnvsOne == { Env(TRUE, TRUE, TRUE, TRUE, TRUE) }
=============================================================================
