SPECIFICATION TSpec
INVARIANT CInv
CONSTRAINT Progress
POSTCONDITION TraceAccepted
