SPECIFICATION TSpec
CONSTANTS
  Grans = {64, 128, 256}
  DefGran = 64
  MinBlock = 65536
  MaxBlock = 268435456
CONSTRAINT Progress
POSTCONDITION TraceAccepted
