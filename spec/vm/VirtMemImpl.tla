------------------------------ MODULE VirtMemImpl ------------------------------
(* X01 - IMPL-SHAPED specification: the POSIX/Linux branch of asmjit/core/virtmem.cpp and the block         *)
(* handling of JitAllocator / JitRuntime that is a client of it, transcribed at the granularity of ONE      *)
(* OS REQUEST PER STEP, running on an abstract operating system:                                            *)
(*   - the OS state is the contract's state (maps, fds, files, objsz) - every Os event the transcription    *)
(*     emits is applied by the contract's OsEffect, mmap returns the lowest free range, open the lowest     *)
(*     free descriptor;                                                                                     *)
(*   - every failable request may fail (at most MaxFaults injected failures per behaviour, every position); *)
(*   - the simulated environment `env` decides what the OS supports: memfd_create (else ENOSYS), executable *)
(*     mappings of /dev/shm objects (else EINVAL = mounted noexec), write+execute mappings (else the        *)
(*     runtime is hardened), huge pages, the sysfs file with the huge page size.                            *)
(* Transcribed: has_hardened_runtime (cached probe), large_page_size (cached, read_file = open/read/close), *)
(* get_anonymous_memory_strategy + detect_anonymous_memory_strategy (cached), AnonymousMemory::open         *)
(* (memfd_create -> ENOSYS latch -> shm_open / open with EEXIST retry), ::allocate, ::~AnonymousMemory      *)
(* (unlink, close), map_memory (size 0, large pages, MAP_HUGETLB + madvise), alloc, release, protect,       *)
(* alloc_dual_mapping_using_file with its clean-up, unmap_dual_mapping, and JitAllocator_new_block (dual /  *)
(* large pages with fall-back / regular; header malloc failure path; fill), release with the empty-block    *)
(* policy, reset(soft|hard), destruction, JitRuntime::_add / _release.                                      *)
(*                                                                                                          *)
(* Every step emits one event of the vocabulary of the contract (VirtMem.tla) and the contract judges it:   *)
(* `lastwhy` = Why(event) must stay empty (invariant Accepted) and the contract's invariants CInv must hold *)
(* - that is the refinement statement "the algorithm as written implements the documented life cycle under  *)
(* every fault position and in every environment".  `Bug` switches on one seeded slip (negative controls).  *)
EXTENDS VirtMem

CONSTANTS MaxOps, MaxFaults,
          EnvSet,       \* simulated environments to start from (subset of Envs)
          Level,        \* "vm": scripts of VirtMem calls, "rt": scripts of JitRuntime operations
          Bug           \* "none" | "leakFirstView" | "noUnlink" | "leakOnMallocFail" | "noFallback" | "relocRw" | "keepEmpty" | "noFlush" | "nestedScope"

VARIABLES im,       \* all implementation-side state (record, see IInit)
          lastwhy   \* Why(last emitted event)

ivars == <<cvars, im, lastwhy>>

PG == 4                 \* model page size
LPS == 8                \* model huge page size
GR == 2                 \* model granularity
BLK == 8                \* model block size = page granularity
Addrs == {PG * k : k \in 1 .. 24}
Letters == {"m", "u", "p", "t", "o", "s", "f", "r", "a"}

(* mm_prot_from_memory_flags: write and execute imply read *)
ViewProt(acc) == IF acc % 8 = 0 THEN 0 ELSE 1 + (IF Wb(acc) THEN 2 ELSE 0) + (IF Xb(acc) THEN 4 ELSE 0)

(* ---------------------------------------------------------------------------------------------------- *)
(* abstract OS choices                                                                                  *)
(* ---------------------------------------------------------------------------------------------------- *)
FreeAt(a, n) == \A m \in maps : ~Ov(m, a, PageUp(n))
FreeAddr(n) == CHOOSE a \in Addrs : FreeAt(a, n) /\ \A b \in Addrs : (b < a) => ~FreeAt(b, n)
LowFd == CHOOSE f \in 3 .. 12 : f \notin DOMAIN fds /\ \A g \in 3 .. 12 : (g < f) => g \in DOMAIN fds
ProtAt(a) == IF \E m \in maps : m.a = a THEN (CHOOSE m \in maps : m.a = a).prot ELSE 0
ObjAt(a) == IF \E m \in maps : m.a = a THEN (CHOOSE m \in maps : m.a = a).obj ELSE -1
ShAt(a) == IF \E m \in maps : m.a = a THEN (CHOOSE m \in maps : m.a = a).sh ELSE FALSE

(* ---------------------------------------------------------------------------------------------------- *)
(* events                                                                                               *)
(* ---------------------------------------------------------------------------------------------------- *)
EMmap(o, a, n, prot, sh, fd, huge) == [e |-> "Os", fn |-> "mmap", ok |-> o.ok, a |-> a, n |-> n, prot |-> prot, sh |-> sh, fd |-> fd, huge |-> huge]
EMunmap(o, a, n) == [e |-> "Os", fn |-> "munmap", ok |-> o.ok, a |-> a, n |-> n]
EMprotect(o, a, n, prot) == [e |-> "Os", fn |-> "mprotect", ok |-> o.ok, a |-> a, n |-> n, prot |-> prot]
EMadvise(a, n) == [e |-> "Os", fn |-> "madvise", ok |-> TRUE, a |-> a, n |-> n]
EMemfd(o, fd) == [e |-> "Os", fn |-> "memfd", ok |-> o.ok, fd |-> fd]
EShmOpen(o, fd, name) == [e |-> "Os", fn |-> "shm_open", ok |-> o.ok, fd |-> fd, name |-> name]
EOpen(o, fd, name, creat) == [e |-> "Os", fn |-> "open", ok |-> o.ok, fd |-> fd, name |-> name, creat |-> creat]
EFtruncate(o, fd, n) == [e |-> "Os", fn |-> "ftruncate", ok |-> o.ok, fd |-> fd, n |-> n]
EClose(fd) == [e |-> "Os", fn |-> "close", ok |-> TRUE, fd |-> fd]
EUnlink(fn, name) == [e |-> "Os", fn |-> fn, ok |-> TRUE, name |-> name]
ERead(o, fd) == [e |-> "Os", fn |-> "read", ok |-> o.ok, fd |-> fd]
EMalloc(o) == [e |-> "Os", fn |-> "malloc", ok |-> o.ok]
EJit(acc) == [e |-> "Jit", acc |-> acc]
EFlush(a, n) == [e |-> "Flush", a |-> a, n |-> n]

(* ---------------------------------------------------------------------------------------------------- *)
(* state                                                                                                *)
(* ---------------------------------------------------------------------------------------------------- *)
NoSlot == [k |-> "none"]
LowestFree(f, s) == f[s].k = "none" /\ \A t \in 0 .. 1 : (t < s) => f[t].k # "none"
Loc0 == [n |-> 0, acc |-> 0, sh |-> FALSE, huge |-> FALSE, tmp |-> FALSE, p |-> 0, rx |-> 0, rw |-> 0, slot |-> 0,
         err |-> "Ok", rp |-> 0, rrx |-> 0, rrw |-> 0,
         fd |-> -1, ftype |-> "none", name |-> "", i |-> 0, prefer |-> FALSE, ptr0 |-> 0, e1 |-> TRUE,
         rslot |-> 0, rsize |-> 0, rp2 |-> 0, rn |-> 0, todo |-> <<>>, hard |-> FALSE, keep |-> FALSE, fresh |-> FALSE, lpfirst |-> FALSE]

Envs == [memfd : BOOLEAN, shmexec : BOOLEAN, rwx : BOOLEAN, huge : BOOLEAN, lpfile : BOOLEAN]

IInit ==
  /\ CInitWith(PG)
  /\ lastwhy = {}
  /\ \E env \in EnvSet :
       im = [env |-> env,
             cache |-> [hard |-> "unknown", strat |-> "unknown", nomemfd |-> FALSE, lp |-> -1],
             stk |-> <<>>, loc |-> Loc0,
             slots |-> [s \in 0 .. 1 |-> NoSlot],
             rtm |-> [alive |-> FALSE, dual |-> FALSE, fill |-> FALSE, imm |-> FALSE, lp |-> FALSE, blocks |-> <<>>],
             fsl |-> [s \in 0 .. 1 |-> NoSlot],
             nops |-> 0, faults |-> MaxFaults, fk |-> <<>>, fcnt |-> [c \in Letters |-> 0], nname |-> 0, hist |-> <<>>, done |-> FALSE]

Top == IF im.stk = <<>> THEN "idle" ELSE Head(im.stk)
At(l) == Top = l
L == im.loc
Cont(m, k) == [m EXCEPT !.stk = <<k>> \o Tail(@)]
Call(m, sub, k) == [m EXCEPT !.stk = <<sub, k>> \o Tail(@)]
Ret(m) == [m EXCEPT !.stk = Tail(@)]
SetL(m, l2) == [m EXCEPT !.loc = l2]

Emit(ev, m2) == /\ Effect(ev) /\ lastwhy' = Why(ev) /\ im' = m2

Natural(ok, err) == [ok |-> ok, err |-> IF ok THEN "" ELSE err, inj |-> FALSE]
Outcomes(natok, naterr, errs) ==
  {Natural(natok, naterr)} \cup (IF im.faults > 0 THEN {[ok |-> FALSE, err |-> e, inj |-> TRUE] : e \in errs} ELSE {})
Tick(m, letter, o) == [m EXCEPT !.fcnt[letter] = @ + 1,
                                !.faults = @ - (IF o.inj THEN 1 ELSE 0),
                                !.fk = IF o.inj THEN Append(@, <<letter, m.fcnt[letter] + 1, o.err>>) ELSE @]

(* what the OS would do with an mmap request in this environment *)
MmapNatOk(prot, fd, huge) ==
  /\ (Wb(prot) /\ Xb(prot)) => im.env.rwx
  /\ (Xb(prot) /\ fd # -1 /\ fd \in DOMAIN fds /\ \E f \in files : f.kind = "shm" /\ f.name = L.name) => im.env.shmexec
  /\ huge => im.env.huge
MmapNatErr(prot, fd, huge) ==
  IF Wb(prot) /\ Xb(prot) /\ ~im.env.rwx THEN "EACCES" ELSE IF huge /\ ~im.env.huge THEN "ENOMEM" ELSE "EINVAL"

(* ---------------------------------------------------------------------------------------------------- *)
(* large_page_size() internals: OSUtils::read_file = open, read, close (result cached)                  *)
(* ---------------------------------------------------------------------------------------------------- *)
LpOpen == /\ At("lp_open")
          /\ \E o \in Outcomes(im.env.lpfile, "ENOENT", {"EMFILE"}) :
               LET fd == IF o.ok THEN LowFd ELSE -1
                   m1 == Tick(im, "o", o) IN
               Emit(EOpen(o, fd, "hpage_pmd_size", FALSE),
                    IF o.ok THEN Cont(SetL(m1, [L EXCEPT !.fd = fd]), "lp_read")
                    ELSE Ret([m1 EXCEPT !.cache.lp = 0]))
LpRead == /\ At("lp_read")
          /\ \E o \in Outcomes(TRUE, "", {"EIO"}) :
               Emit(ERead(o, L.fd), Cont(SetL(Tick(im, "r", o), [L EXCEPT !.e1 = o.ok]), "lp_close"))
LpClose == /\ At("lp_close")
           /\ Emit(EClose(L.fd), Ret([SetL(im, [L EXCEPT !.fd = -1]) EXCEPT !.cache.lp = IF L.e1 THEN LPS ELSE 0]))

(* ---------------------------------------------------------------------------------------------------- *)
(* info / large_page_size / hardened_runtime_info                                                        *)
(* ---------------------------------------------------------------------------------------------------- *)
InfoCall == At("info_call") /\ Emit([e |-> "VmCall", api |-> "info"], Cont(im, "info_ret"))
InfoRet == At("info_ret") /\ Emit([e |-> "VmRet", api |-> "info", r |-> "Ok", ps |-> PG, pg |-> BLK], Ret(im))

LpsCall == At("lps_call") /\ Emit([e |-> "VmCall", api |-> "lps"],
                                  IF im.cache.lp = -1 THEN Call(im, "lp_open", "lps_ret") ELSE Cont(im, "lps_ret"))
LpsRet == At("lps_ret") /\ Emit([e |-> "VmRet", api |-> "lps", r |-> "Ok", lp |-> im.cache.lp, sys |-> IF im.env.lpfile THEN LPS ELSE 0], Ret(im))

HriCall == At("hri_call") /\ Emit([e |-> "VmCall", api |-> "hri"],
                                  IF im.cache.hard = "unknown" THEN Cont(im, "hri_mmap") ELSE Cont(im, "hri_ret"))
HriMmap == /\ At("hri_mmap")
           /\ \E o \in Outcomes(im.env.rwx, "EACCES", {"ENOMEM"}) :
                LET a == IF o.ok THEN FreeAddr(PG) ELSE 0
                    m1 == Tick(im, "m", o) IN
                Emit(EMmap(o, a, PG, 7, FALSE, -1, FALSE),
                     IF o.ok THEN Cont(SetL(m1, [L EXCEPT !.ptr0 = a]), "hri_munmap")
                     ELSE Cont([m1 EXCEPT !.cache.hard = "enabled"], "hri_ret"))
HriMunmap == At("hri_munmap") /\ Emit(EMunmap(Natural(TRUE, ""), L.ptr0, PG), Cont([im EXCEPT !.cache.hard = "disabled"], "hri_ret"))
HriRet == At("hri_ret") /\ Emit([e |-> "VmRet", api |-> "hri", r |-> "Ok", en |-> im.cache.hard = "enabled", mapjit |-> FALSE, dual |-> TRUE], Ret(im))

(* ---------------------------------------------------------------------------------------------------- *)
(* alloc (map_memory) / release / protect                                                               *)
(* ---------------------------------------------------------------------------------------------------- *)
AfterLp(m) ==      \* map_memory after large_page_size() is known
  IF m.cache.lp = 0 \/ m.loc.n % LPS # 0 THEN Cont(SetL(m, [m.loc EXCEPT !.err = "Err", !.rp = 0]), "al_ret") ELSE Cont(m, "al_mmap")
AlCall == /\ At("al_call")
          /\ Emit([e |-> "VmCall", api |-> "alloc", n |-> L.n, acc |-> L.acc, sh |-> L.sh, huge |-> L.huge],
                  IF L.n = 0 THEN Cont(SetL(im, [L EXCEPT !.err = "Err", !.rp = 0]), "al_ret")
                  ELSE IF L.huge THEN (IF im.cache.lp = -1 THEN Call(im, "lp_open", "al_lp") ELSE AfterLp(im))
                  ELSE Cont(im, "al_mmap"))
AlLp == At("al_lp") /\ im' = AfterLp(im) /\ UNCHANGED <<cvars, lastwhy>>      \* silent: back from the detection
AlMmap == /\ At("al_mmap")
          /\ LET prot == ViewProt(L.acc) IN
            \E o \in Outcomes(MmapNatOk(prot, -1, L.huge), MmapNatErr(prot, -1, L.huge), {"ENOMEM"}) :
               LET a == IF o.ok THEN FreeAddr(L.n) ELSE 0
                   m1 == SetL(Tick(im, "m", o), [L EXCEPT !.rp = a, !.err = IF o.ok THEN "Ok" ELSE "Err"]) IN
               Emit(EMmap(o, a, L.n, prot, L.sh, -1, L.huge), IF o.ok /\ L.huge THEN Cont(m1, "al_madv") ELSE Cont(m1, "al_ret"))
AlMadv == At("al_madv") /\ Emit(EMadvise(L.rp, L.n), Cont(im, "al_ret"))
AlRet == /\ At("al_ret")
         /\ Emit([e |-> "VmRet", api |-> "alloc", r |-> L.err, p |-> L.rp,
                  obs |-> [cov |-> TRUE, perms |-> ProtAt(L.rp), sh |-> ShAt(L.rp), use |-> TRUE]], Ret(im))

RelCall == At("rel_call") /\ Emit([e |-> "VmCall", api |-> "release", p |-> L.p, n |-> L.n], Cont(im, "rel_munmap"))
RelMunmap == /\ At("rel_munmap")
             /\ \E o \in (IF im.rtm.alive THEN {Natural(TRUE, "")} ELSE Outcomes(TRUE, "", {"EINVAL"})) :
                  Emit(EMunmap(o, L.p, L.n),
                       Cont(SetL(IF im.rtm.alive THEN im ELSE Tick(im, "u", o), [L EXCEPT !.err = IF o.ok THEN "Ok" ELSE "Err"]), "rel_ret"))
RelRet == At("rel_ret") /\ Emit([e |-> "VmRet", api |-> "release", r |-> L.err], Ret(im))

PrCall == At("pr_call") /\ Emit([e |-> "VmCall", api |-> "protect", p |-> L.p, n |-> L.n, acc |-> L.acc], Cont(im, "pr_mprotect"))
PrMprotect == /\ At("pr_mprotect")
              /\ LET prot == ViewProt(L.acc) IN
                 \E o \in Outcomes((Wb(prot) /\ Xb(prot)) => im.env.rwx, "EACCES", {"ENOMEM"}) :
                    Emit(EMprotect(o, L.p, L.n, prot), Cont(SetL(Tick(im, "p", o), [L EXCEPT !.err = IF o.ok THEN "Ok" ELSE "Err"]), "pr_ret"))
PrRet == At("pr_ret") /\ Emit([e |-> "VmRet", api |-> "protect", r |-> L.err, obs |-> [cov |-> TRUE, perms |-> ProtAt(L.p)]], Ret(im))

(* ---------------------------------------------------------------------------------------------------- *)
(* AnonymousMemory: open / destructor                                                                   *)
(* ---------------------------------------------------------------------------------------------------- *)
Retry == 2        \* retry_count (100 in the code)
AmStart(m) == IF m.cache.nomemfd THEN Cont(m, "am_file") ELSE Cont(m, "am_memfd")
AmMemfd == /\ At("am_memfd")
           /\ \E o \in (IF im.env.memfd THEN Outcomes(TRUE, "", {"EMFILE", "ENOSYS"}) ELSE {Natural(FALSE, "ENOSYS")}) :
                LET fd == IF o.ok THEN LowFd ELSE -1
                    m1 == IF im.env.memfd THEN Tick(im, "f", o) ELSE im IN
                Emit(EMemfd(o, fd),
                     IF o.ok THEN Ret(SetL(m1, [L EXCEPT !.fd = fd, !.ftype = "none", !.err = "Ok"]))
                     ELSE IF o.err = "ENOSYS" THEN Cont([m1 EXCEPT !.cache.nomemfd = TRUE], "am_file")
                     ELSE Ret(SetL(m1, [L EXCEPT !.err = "Err"])))
AmFile == /\ At("am_file")
          /\ LET nm == IF L.prefer THEN "tmp" ELSE "shm" IN
             \E o \in Outcomes(TRUE, "", {"EMFILE", "EEXIST"}) :
                LET fd == IF o.ok THEN LowFd ELSE -1
                    name == nm \o ToString(im.nname)
                    m1 == [Tick(im, IF L.prefer THEN "o" ELSE "s", o) EXCEPT !.nname = @ + 1]
                    ev == IF L.prefer THEN EOpen(o, fd, name, TRUE) ELSE EShmOpen(o, fd, name) IN
                Emit(ev,
                     IF o.ok THEN Ret(SetL(m1, [L EXCEPT !.fd = fd, !.ftype = nm, !.name = name, !.err = "Ok"]))
                     ELSE IF o.err = "EEXIST" /\ L.i + 1 < Retry THEN Cont(SetL(m1, [L EXCEPT !.i = @ + 1]), "am_file")
                     ELSE Ret(SetL(m1, [L EXCEPT !.err = "Err"])))
(* ~AnonymousMemory: unlink(); close() *)
DsStart(m) == IF m.loc.ftype # "none" /\ Bug # "noUnlink" THEN Cont(m, "ds_unlink")
              ELSE IF m.loc.fd >= 0 THEN Cont(m, "ds_close") ELSE Ret(m)
DsUnlink == /\ At("ds_unlink")
            /\ Emit(EUnlink(IF L.ftype = "shm" THEN "shm_unlink" ELSE "unlink", L.name),
                    LET m1 == SetL(im, [L EXCEPT !.ftype = "none"]) IN IF L.fd >= 0 THEN Cont(m1, "ds_close") ELSE Ret(m1))
DsClose == At("ds_close") /\ Emit(EClose(L.fd), Ret(SetL(im, [L EXCEPT !.fd = -1])))
DsGo == At("ds") /\ im' = DsStart(im) /\ UNCHANGED <<cvars, lastwhy>>

(* ---------------------------------------------------------------------------------------------------- *)
(* alloc_dual_mapping_using_file / release_dual_mapping                                                  *)
(* ---------------------------------------------------------------------------------------------------- *)
Fail(m) == SetL(m, [m.loc EXCEPT !.err = "Err", !.rrx = 0, !.rrw = 0])
DuCall == /\ At("du_call")
          /\ Emit([e |-> "VmCall", api |-> "dual", n |-> L.n, acc |-> L.acc, tmp |-> L.tmp],
                  IF L.n = 0 THEN Cont(Fail(im), "du_ret")
                  ELSE IF ~L.tmp /\ im.cache.strat = "unknown"
                    THEN (LET m1 == SetL(im, [L EXCEPT !.prefer = FALSE, !.i = 0, !.fd = -1, !.ftype = "none"]) IN
                          [AmStart(m1) EXCEPT !.stk = <<Head(AmStart(m1).stk), "dt_opened">> \o Tail(m1.stk)])
                    ELSE Cont(im, "du_open"))
DtOpened == /\ At("dt_opened")      \* silent: ASMJIT_PROPAGATE(anon_mem.open(false))
            /\ im' = (IF L.err # "Ok" THEN Cont(Fail(im), "du_ret") ELSE Cont(im, "dt_trunc"))
            /\ UNCHANGED <<cvars, lastwhy>>
DtTrunc == /\ At("dt_trunc")
           /\ \E o \in Outcomes(TRUE, "", {"ENOSPC"}) :
                Emit(EFtruncate(o, L.fd, PG),
                     IF o.ok THEN Cont(Tick(im, "t", o), "dt_mmap") ELSE Call(Fail(Tick(im, "t", o)), "ds", "du_ret"))
DtMmap == /\ At("dt_mmap")
          /\ \E o \in Outcomes(MmapNatOk(5, L.fd, FALSE), MmapNatErr(5, L.fd, FALSE), {"ENOMEM", "EINVAL"}) :
               LET a == IF o.ok THEN FreeAddr(PG) ELSE 0
                   m1 == Tick(im, "m", o) IN
               Emit(EMmap(o, a, PG, 5, TRUE, L.fd, FALSE),
                    IF o.ok THEN Cont(SetL(m1, [L EXCEPT !.ptr0 = a]), "dt_munmap")
                    ELSE IF o.err = "EINVAL" THEN Call([m1 EXCEPT !.cache.strat = "tmp"], "ds", "du_open")
                    ELSE Call(Fail(m1), "ds", "du_ret"))
DtMunmap == At("dt_munmap") /\ Emit(EMunmap(Natural(TRUE, ""), L.ptr0, PG), Call([im EXCEPT !.cache.strat = "shm"], "ds", "du_open"))
DuOpen == /\ At("du_open")      \* silent: AnonymousMemory anon_mem; anon_mem.open(prefer_tmp_over_dev_shm)
          /\ LET m1 == SetL(im, [L EXCEPT !.prefer = L.tmp \/ im.cache.strat = "tmp", !.i = 0, !.fd = -1, !.ftype = "none", !.err = "Ok"])
                 m2 == AmStart(m1) IN
             im' = [m2 EXCEPT !.stk = <<Head(m2.stk), "du_opened">> \o Tail(m1.stk)]
          /\ UNCHANGED <<cvars, lastwhy>>
DuOpened == /\ At("du_opened")
            /\ im' = (IF L.err # "Ok" THEN Cont(Fail(im), "du_ret") ELSE Cont(im, "du_trunc"))
            /\ UNCHANGED <<cvars, lastwhy>>
DuTrunc == /\ At("du_trunc")
           /\ \E o \in Outcomes(TRUE, "", {"ENOSPC"}) :
                Emit(EFtruncate(o, L.fd, L.n),
                     IF o.ok THEN Cont(Tick(im, "t", o), "du_map0") ELSE Call(Fail(Tick(im, "t", o)), "ds", "du_ret"))
DuMap0 == /\ At("du_map0")
          /\ LET prot == ViewProt(MinusW(L.acc)) IN
             \E o \in Outcomes(MmapNatOk(prot, L.fd, FALSE), MmapNatErr(prot, L.fd, FALSE), {"ENOMEM"}) :
               LET a == IF o.ok THEN FreeAddr(L.n) ELSE 0
                   m1 == Tick(im, "m", o) IN
               Emit(EMmap(o, a, L.n, prot, TRUE, L.fd, FALSE),
                    IF o.ok THEN Cont(SetL(m1, [L EXCEPT !.ptr0 = a]), "du_map1") ELSE Call(Fail(m1), "ds", "du_ret"))
DuMap1 == /\ At("du_map1")
          /\ LET prot == ViewProt(MinusX(L.acc)) IN
             \E o \in Outcomes(MmapNatOk(prot, L.fd, FALSE), MmapNatErr(prot, L.fd, FALSE), {"ENOMEM"}) :
               LET a == IF o.ok THEN FreeAddr(L.n) ELSE 0
                   m1 == Tick(im, "m", o) IN
               Emit(EMmap(o, a, L.n, prot, TRUE, L.fd, FALSE),
                    IF o.ok THEN Call(SetL(m1, [L EXCEPT !.rrx = L.ptr0, !.rrw = a, !.err = "Ok"]), "ds", "du_ret")
                    ELSE Cont(Fail(m1), "du_unmap0"))
DuUnmap0 == /\ At("du_unmap0")      \* if (i == 1) unmap_memory(ptr[0], size);
            /\ Emit(EMunmap(Natural(TRUE, ""), IF Bug = "leakFirstView" THEN 0 ELSE L.ptr0, L.n), Call(im, "ds", "du_ret"))
DuRet == /\ At("du_ret")
         /\ Emit([e |-> "VmRet", api |-> "dual", r |-> L.err, rx |-> L.rrx, rw |-> L.rrw,
                  obs |-> [cov |-> TRUE, prx |-> ProtAt(L.rrx), prw |-> ProtAt(L.rrw), sh |-> ShAt(L.rrx) /\ ShAt(L.rrw),
                           ino |-> ObjAt(L.rrx) = ObjAt(L.rrw), alias |-> ObjAt(L.rrx) = ObjAt(L.rrw)]], Ret(im))

RdCall == At("rd_call") /\ Emit([e |-> "VmCall", api |-> "reldual", rx |-> L.rx, rw |-> L.rw, n |-> L.n], Cont(im, "rd_un0"))
RdUn0 == /\ At("rd_un0")
         /\ \E o \in (IF im.rtm.alive THEN {Natural(TRUE, "")} ELSE Outcomes(TRUE, "", {"EINVAL"})) :
              Emit(EMunmap(o, L.rx, L.n), Cont(SetL(IF im.rtm.alive THEN im ELSE Tick(im, "u", o), [L EXCEPT !.e1 = o.ok]), "rd_un1"))
RdUn1 == /\ At("rd_un1")
         /\ \E o \in (IF im.rtm.alive THEN {Natural(TRUE, "")} ELSE Outcomes(TRUE, "", {"EINVAL"})) :
              Emit(EMunmap(o, L.rw, L.n),
                   Cont(SetL(IF im.rtm.alive THEN im ELSE Tick(im, "u", o), [L EXCEPT !.err = IF L.e1 /\ o.ok THEN "Ok" ELSE "Err"]), "rd_ret"))
RdRet == /\ At("rd_ret")
         /\ Emit([e |-> "VmRet", api |-> "reldual", r |-> L.err, rx |-> IF L.err = "Ok" THEN 0 ELSE L.rx, rw |-> IF L.err = "Ok" THEN 0 ELSE L.rw], Ret(im))

(* ---------------------------------------------------------------------------------------------------- *)
(* client script, VirtMem level: after the call the result is stored into the slot                      *)
(* ---------------------------------------------------------------------------------------------------- *)
StoreSingle == /\ At("st_single")
               /\ im' = Ret([im EXCEPT !.slots[L.slot] = IF L.err = "Ok" THEN [k |-> "single", rx |-> L.rp, rw |-> L.rp, n |-> L.n] ELSE NoSlot])
               /\ UNCHANGED <<cvars, lastwhy>>
StoreDual == /\ At("st_dual")
             /\ im' = Ret([im EXCEPT !.slots[L.slot] = IF L.err = "Ok" THEN [k |-> "dual", rx |-> L.rrx, rw |-> L.rrw, n |-> L.n] ELSE NoSlot])
             /\ UNCHANGED <<cvars, lastwhy>>
StoreRel == /\ At("st_rel")
            /\ im' = Ret([im EXCEPT !.slots[L.slot] = IF L.err = "Ok" THEN NoSlot ELSE @])
            /\ UNCHANGED <<cvars, lastwhy>>

Begin(m, op, stk2, l2) == [m EXCEPT !.nops = @ + 1, !.hist = Append(@, op), !.stk = stk2, !.loc = l2]

VmChoose ==
  /\ Level = "vm" /\ At("idle") /\ ~im.done /\ im.nops < MaxOps
  /\ \/ \E s \in 0 .. 1, n \in {0, PG, 2 * PG}, acc \in {0, 3, 5, 7}, huge \in BOOLEAN :
          /\ LowestFree(im.slots, s) /\ (huge => n = 2 * PG /\ acc = 7)
          /\ im' = Begin(im, <<"alloc", n, acc, huge, s>>, <<"al_call", "st_single">>,
                         [Loc0 EXCEPT !.n = n, !.acc = acc, !.huge = huge, !.slot = s])
     \/ \E s \in 0 .. 1, n \in {0, PG, 2 * PG}, acc \in {3, 7}, tmp \in BOOLEAN :
          /\ LowestFree(im.slots, s)
          /\ im' = Begin(im, <<"dual", n, acc, tmp, s>>, <<"du_call", "st_dual">>, [Loc0 EXCEPT !.n = n, !.acc = acc, !.tmp = tmp, !.slot = s])
     \/ \E s \in 0 .. 1 :
          /\ im.slots[s].k = "single"
          /\ im' = Begin(im, <<"release", s>>, <<"rel_call", "st_rel">>, [Loc0 EXCEPT !.p = im.slots[s].rx, !.n = im.slots[s].n, !.slot = s])
     \/ \E s \in 0 .. 1 :
          /\ im.slots[s].k = "dual"
          /\ im' = Begin(im, <<"reldual", s>>, <<"rd_call", "st_rel">>,
                         [Loc0 EXCEPT !.rx = im.slots[s].rx, !.rw = im.slots[s].rw, !.n = im.slots[s].n, !.slot = s])
     \/ \E s \in 0 .. 1, acc \in {0, 5, 7} :
          /\ im.slots[s].k = "single"
          /\ im' = Begin(im, <<"protect", s, acc>>, <<"pr_call">>, [Loc0 EXCEPT !.p = im.slots[s].rx, !.n = PG, !.acc = acc, !.slot = s])
     \/ im' = Begin(im, <<"hri">>, <<"hri_call">>, Loc0)
     \/ im' = Begin(im, <<"lps">>, <<"lps_call">>, Loc0)
  /\ UNCHANGED <<cvars, lastwhy>>

(* ---------------------------------------------------------------------------------------------------- *)
(* JitRuntime / JitAllocator (one pool, granularity GR, blocks of BLK bytes, initial padding)            *)
(* ---------------------------------------------------------------------------------------------------- *)
R == im.rtm
Blocks == {R.blocks[i] : i \in 1 .. Len(R.blocks)}
LiveSpans == {im.fsl[s] : s \in {t \in 0 .. 1 : im.fsl[t].k = "fn"}}
InBlock(sp, b) == b.rx <= sp.p /\ sp.p + sp.n <= b.rx + b.n
BlockEmpty(b, S) == \A sp \in S : ~InBlock(sp, b)
FreeIn(b, off, n) == /\ off + n <= b.n
                     /\ \A sp \in LiveSpans : InBlock(sp, b) => (b.rx + off + n <= sp.p \/ sp.p + sp.n <= b.rx + off)
Offs(b) == {GR * k : k \in 1 .. (b.n \div GR) - 1}          \* initial padding: offset 0 is never handed out
Fits(b, n) == \E off \in Offs(b) : FreeIn(b, off, n)
FirstOff(b, n) == CHOOSE off \in Offs(b) : FreeIn(b, off, n) /\ \A o2 \in Offs(b) : (o2 < off) => ~FreeIn(b, o2, n)
FitIdx(n) == {i \in 1 .. Len(R.blocks) : Fits(R.blocks[i], n)}
RemoveAt(seq, i) == [j \in 1 .. Len(seq) - 1 |-> IF j < i THEN seq[j] ELSE seq[j + 1]]
IdxOfBlockAt(rx) == CHOOSE i \in 1 .. Len(R.blocks) : R.blocks[i].rx = rx

RnCall == /\ At("rn_call")
          /\ Emit([e |-> "RtCall", api |-> "new", dual |-> L.sh, multi |-> FALSE, fill |-> L.tmp, imm |-> L.huge, nopad |-> FALSE,
                   lp |-> L.e1, alignlp |-> FALSE, gran |-> 0, block |-> 0],
                  [im EXCEPT !.stk = <<"info_call", "hri_call", "rn_ret">> \o Tail(@)])
RnRet == /\ At("rn_ret")
         /\ LET dual == L.sh \/ im.cache.hard = "enabled" IN
            Emit([e |-> "RtRet", api |-> "new", r |-> "Ok", init |-> TRUE, target |-> TRUE,
                  o |-> [dual |-> dual, multi |-> FALSE, fill |-> L.tmp, imm |-> L.huge, nopad |-> FALSE, gran |-> GR, block |-> BLK]],
                 Ret([im EXCEPT !.rtm = [alive |-> TRUE, dual |-> dual, fill |-> L.tmp, imm |-> L.huge, lp |-> L.e1, blocks |-> <<>>]]))

(* _add: flatten ...; _allocator.alloc(span, size) [existing block | new block]; relocate; write; *dst = span.rx() *)
RaCall == /\ At("ra_call")
          /\ Emit([e |-> "RtCall", api |-> "add", kind |-> 1, size |-> L.rsize],
                  IF L.rsize = 0 THEN Cont(SetL(im, [L EXCEPT !.err = "Err", !.rp2 = 0]), "ra_ret")
                  ELSE IF FitIdx(L.rn) # {} THEN Cont(SetL(im, [L EXCEPT !.fresh = FALSE]), "ra_place")
                  ELSE \* JitAllocator_new_block
                    IF R.dual THEN [im EXCEPT !.stk = <<"du_call", "ra_mapped">> \o Tail(@), !.loc = [L EXCEPT !.n = BLK, !.acc = 7, !.tmp = FALSE]]
                    ELSE IF R.lp THEN [im EXCEPT !.stk = <<"lps_call", "ra_lpknown">> \o Tail(@)]
                    ELSE [im EXCEPT !.stk = <<"al_call", "ra_mapped">> \o Tail(@), !.loc = [L EXCEPT !.n = BLK, !.acc = 7, !.huge = FALSE, !.sh = FALSE]])
RaLpKnown == /\ At("ra_lpknown")    \* silent: "Only proceed if we can actually allocate large pages"
             /\ im' = (IF im.cache.lp # 0 /\ BLK >= im.cache.lp
                         THEN [im EXCEPT !.stk = <<"al_call", "ra_lpdone">> \o Tail(@), !.loc = [L EXCEPT !.n = BLK, !.acc = 7, !.huge = TRUE, !.sh = FALSE]]
                         ELSE [im EXCEPT !.stk = <<"al_call", "ra_mapped">> \o Tail(@), !.loc = [L EXCEPT !.n = BLK, !.acc = 7, !.huge = FALSE, !.sh = FALSE]])
             /\ UNCHANGED <<cvars, lastwhy>>
RaLpDone == /\ At("ra_lpdone")      \* silent: "Fallback to regular pages if large page(s) allocation failed"
            /\ im' = (IF L.err = "Ok" \/ Bug = "noFallback" THEN Cont(im, "ra_mapped")
                      ELSE [im EXCEPT !.stk = <<"al_call", "ra_mapped">> \o Tail(@), !.loc = [L EXCEPT !.huge = FALSE]])
            /\ UNCHANGED <<cvars, lastwhy>>
RaMapped == /\ At("ra_mapped")      \* silent: ASMJIT_PROPAGATE(VirtMem::alloc...)
            /\ im' = (IF L.err # "Ok" THEN Cont(SetL(im, [L EXCEPT !.rp2 = 0]), "ra_ret") ELSE Cont(im, "ra_malloc"))
            /\ UNCHANGED <<cvars, lastwhy>>
RaMalloc == /\ At("ra_malloc")      \* block header
            /\ \E o \in Outcomes(TRUE, "", {"ENOMEM"}) :
                 LET m1 == Tick(im, "a", o)
                     brx == IF R.dual THEN L.rrx ELSE L.rp
                     brw == IF R.dual THEN L.rrw ELSE L.rp IN
                 Emit(EMalloc(o),
                      IF o.ok THEN
                        (LET m2 == [m1 EXCEPT !.rtm.blocks = Append(@, [rx |-> brx, rw |-> brw, n |-> BLK, dual |-> R.dual]), !.loc.fresh = TRUE] IN
                         IF R.fill THEN Cont(m2, "ra_fill1") ELSE Cont(m2, "ra_place"))
                      ELSE \* "Out of memory...": release what was mapped
                        IF R.dual /\ Bug # "leakOnMallocFail"
                          THEN [m1 EXCEPT !.stk = <<"rd_call", "ra_oom">> \o Tail(@), !.loc = [L EXCEPT !.rx = brx, !.rw = brw, !.n = BLK]]
                          ELSE [m1 EXCEPT !.stk = <<"rel_call", "ra_oom">> \o Tail(@), !.loc = [L EXCEPT !.p = brx, !.n = BLK]])
RaOom == At("ra_oom") /\ im' = Cont(SetL(im, [L EXCEPT !.err = "Err", !.rp2 = 0]), "ra_ret") /\ UNCHANGED <<cvars, lastwhy>>
RaFill1 == At("ra_fill1") /\ Emit(EJit("RW"), Cont(im, "ra_fill2"))
RaFill2 == At("ra_fill2") /\ Emit(EJit("RX"), Cont(im, "ra_fill3"))
RaFill3 == At("ra_fill3") /\ Emit(EFlush(R.blocks[Len(R.blocks)].rw, BLK), Cont(im, "ra_place"))
RaPlace == /\ At("ra_place")        \* write scope opened: protect_jit_memory(kReadWrite)
           /\ LET i == CHOOSE i \in FitIdx(L.rn) : \A j \in FitIdx(L.rn) : i <= j
                  b == R.blocks[i]
                  p == b.rx + FirstOff(b, L.rn) IN
              Emit(EJit("RW"), Cont(SetL(im, [L EXCEPT !.rp2 = p, !.rrw = p - b.rx + b.rw]), IF Bug = "nestedScope" THEN "ra_nested" ELSE "ra_closed"))
RaNested == At("ra_nested") /\ Emit(EJit("RW"), Cont(im, "ra_closed"))
RaClosed == At("ra_closed") /\ Emit(EJit("RX"), Cont(im, IF Bug = "noFlush" THEN "ra_ok" ELSE "ra_flush"))
RaFlush == At("ra_flush") /\ Emit(EFlush(L.rp2, L.rn), Cont(im, "ra_ok"))
RaOk == At("ra_ok") /\ im' = Cont(SetL(im, [L EXCEPT !.err = "Ok"]), "ra_ret") /\ UNCHANGED <<cvars, lastwhy>>
RaRet == /\ At("ra_ret")
         /\ LET ok == L.err = "Ok" IN
            Emit([e |-> "RtRet", api |-> "add", r |-> L.err, p |-> IF ok THEN L.rp2 ELSE 0, size |-> L.rsize, q |-> IF ok THEN "Ok" ELSE "Err",
                  qrx |-> IF ok THEN L.rp2 ELSE 0, qrw |-> IF ok THEN L.rrw ELSE 0, qn |-> IF ok THEN L.rn ELSE 0,
                  base |-> IF ok THEN (IF Bug = "relocRw" THEN L.rrw ELSE L.rp2) ELSE 0, img |-> TRUE, run |-> TRUE, intact |-> TRUE],
                 Ret([im EXCEPT !.fsl[L.rslot] = IF ok THEN [k |-> "fn", p |-> L.rp2, n |-> L.rn] ELSE NoSlot]))

(* release(p) *)
RrCall == /\ At("rr_call")
          /\ Emit([e |-> "RtCall", api |-> "release", kind |-> "live", p |-> L.rp2, n |-> L.rn],
                  IF R.fill THEN Cont(im, "rr_fill1") ELSE Cont(im, "rr_block"))
RrFill1 == At("rr_fill1") /\ Emit(EJit("RW"), Cont(im, "rr_fill2"))
RrFill2 == At("rr_fill2") /\ Emit(EJit("RX"), Cont(im, "rr_fill3"))
RrFill3 == At("rr_fill3") /\ Emit(EFlush(L.rrw, L.rn), Cont(im, "rr_block"))
RrBlock == /\ At("rr_block")       \* silent: "Release the whole block if it became empty"
           /\ LET sp == im.fsl[L.rslot]
                  i == CHOOSE i \in 1 .. Len(R.blocks) : InBlock(sp, R.blocks[i])
                  b == R.blocks[i]
                  rest == LiveSpans \ {sp}
                  otherEmpty == \E j \in 1 .. Len(R.blocks) : j # i /\ BlockEmpty(R.blocks[j], rest)
                  m1 == [im EXCEPT !.fsl[L.rslot] = NoSlot] IN
              im' = IF BlockEmpty(b, rest) /\ ((R.imm /\ Bug # "keepEmpty") \/ otherEmpty)
                      THEN (LET m2 == [m1 EXCEPT !.rtm.blocks = RemoveAt(@, i)] IN
                            IF b.dual THEN [m2 EXCEPT !.stk = <<"rd_call", "rr_ret">> \o Tail(@), !.loc = [L EXCEPT !.rx = b.rx, !.rw = b.rw, !.n = b.n]]
                            ELSE [m2 EXCEPT !.stk = <<"rel_call", "rr_ret">> \o Tail(@), !.loc = [L EXCEPT !.p = b.rx, !.n = b.n]])
                      ELSE Cont(m1, "rr_ret")
           /\ UNCHANGED <<cvars, lastwhy>>
RrRet == /\ At("rr_ret")
         /\ Emit([e |-> "RtRet", api |-> "release", r |-> "Ok", intact |-> TRUE, mapped |-> Mapped(maps, L.rp2, L.rn), filled |-> TRUE], Ret(im))

(* reset(policy) / ~JitRuntime: delete blocks (all but the first for a soft reset without kImmediateRelease) *)
RsCall == /\ At("rs_call")
          /\ LET keep == ~L.hard /\ ~R.imm /\ Len(R.blocks) > 0
                 todo == IF keep THEN Tail(R.blocks) ELSE R.blocks IN
             Emit([e |-> "RtCall", api |-> IF L.keep THEN "del" ELSE "reset", hard |-> L.hard],
                  Cont([im EXCEPT !.loc = [L EXCEPT !.todo = todo], !.fsl = [s \in 0 .. 1 |-> NoSlot],
                                  !.rtm.blocks = IF keep THEN <<Head(R.blocks)>> ELSE <<>>], "rs_loop"))
RsLoop == /\ At("rs_loop")         \* silent
          /\ im' = IF L.todo = <<>> THEN Cont(im, "rs_ret")
                   ELSE LET b == Head(L.todo) IN
                        IF b.dual THEN [im EXCEPT !.stk = <<"rd_call", "rs_loop">> \o Tail(@), !.loc = [L EXCEPT !.todo = Tail(@), !.rx = b.rx, !.rw = b.rw, !.n = b.n]]
                        ELSE [im EXCEPT !.stk = <<"rel_call", "rs_loop">> \o Tail(@), !.loc = [L EXCEPT !.todo = Tail(@), !.p = b.rx, !.n = b.n]]
          /\ UNCHANGED <<cvars, lastwhy>>
RsRet == /\ At("rs_ret")
         /\ Emit(IF L.keep THEN [e |-> "RtRet", api |-> "del", r |-> "Ok"] ELSE [e |-> "RtRet", api |-> "reset", r |-> "Ok", filled |-> TRUE],
                 Ret(IF L.keep THEN [im EXCEPT !.rtm.alive = FALSE] ELSE im))

RtChoose ==
  /\ Level = "rt" /\ At("idle") /\ ~im.done /\ im.nops < MaxOps
  /\ \/ \E dual \in BOOLEAN, fill \in BOOLEAN, imm \in BOOLEAN, lp \in BOOLEAN :
          /\ ~R.alive /\ (lp => ~dual)
          /\ im' = Begin(im, <<"rt_new", dual, fill, imm, lp>>, <<"rn_call">>, [Loc0 EXCEPT !.sh = dual, !.tmp = fill, !.huge = imm, !.e1 = lp])
     \/ \E s \in 0 .. 1, size \in {0, 2, 4} :
          /\ R.alive /\ LowestFree(im.fsl, s)
          /\ im' = Begin(im, <<"rt_add", size, s>>, <<"ra_call">>, [Loc0 EXCEPT !.rslot = s, !.rsize = size, !.rn = AlignUp(size, GR)])
     \/ \E s \in 0 .. 1 :
          /\ R.alive /\ im.fsl[s].k = "fn"
          /\ im' = Begin(im, <<"rt_release", s>>, <<"rr_call">>,
                         [Loc0 EXCEPT !.rslot = s, !.rp2 = im.fsl[s].p, !.rn = im.fsl[s].n,
                                      !.rrw = LET b == CHOOSE b \in Blocks : InBlock(im.fsl[s], b) IN im.fsl[s].p - b.rx + b.rw])
     \/ \E hard \in BOOLEAN :
          /\ R.alive
          /\ im' = Begin(im, <<"rt_reset", hard>>, <<"rs_call">>, [Loc0 EXCEPT !.hard = hard, !.keep = FALSE])
     \/ /\ R.alive
        /\ im' = Begin(im, <<"rt_del">>, <<"rs_call">>, [Loc0 EXCEPT !.hard = TRUE, !.keep = TRUE])
  /\ UNCHANGED <<cvars, lastwhy>>

(* the script ends: the harness writes the End event (independent accounting: truthful here) *)
Finish == /\ At("idle") /\ ~im.done
          /\ Emit([e |-> "End", fdleak |-> Cardinality(DOMAIN fds), mapleft |-> Cardinality(maps)], [im EXCEPT !.done = TRUE])

INext == \/ VmChoose \/ RtChoose \/ Finish
         \/ LpOpen \/ LpRead \/ LpClose \/ InfoCall \/ InfoRet \/ LpsCall \/ LpsRet \/ HriCall \/ HriMmap \/ HriMunmap \/ HriRet
         \/ AlCall \/ AlLp \/ AlMmap \/ AlMadv \/ AlRet \/ RelCall \/ RelMunmap \/ RelRet \/ PrCall \/ PrMprotect \/ PrRet
         \/ AmMemfd \/ AmFile \/ DsUnlink \/ DsClose \/ DsGo
         \/ DuCall \/ DtOpened \/ DtTrunc \/ DtMmap \/ DtMunmap \/ DuOpen \/ DuOpened \/ DuTrunc \/ DuMap0 \/ DuMap1 \/ DuUnmap0 \/ DuRet
         \/ RdCall \/ RdUn0 \/ RdUn1 \/ RdRet \/ StoreSingle \/ StoreDual \/ StoreRel
         \/ RnCall \/ RnRet \/ RaCall \/ RaLpKnown \/ RaLpDone \/ RaMapped \/ RaMalloc \/ RaOom \/ RaFill1 \/ RaFill2 \/ RaFill3
         \/ RaPlace \/ RaNested \/ RaClosed \/ RaFlush \/ RaOk \/ RaRet
         \/ RrCall \/ RrFill1 \/ RrFill2 \/ RrFill3 \/ RrBlock \/ RrRet \/ RsCall \/ RsLoop \/ RsRet

ISpec == IInit /\ [][INext]_ivars

(* ---- what is checked ---- *)
Accepted == lastwhy = {}
(* the hardened environment never holds a writable and executable mapping *)
WXEnforced == ~im.env.rwx => \A m \in maps : ~(Wb(m.prot) /\ Xb(m.prot))
(* behaviour export: one line per finished behaviour *)
EnvT == <<im.env.memfd, im.env.shmexec, im.env.rwx, im.env.huge, im.env.lpfile>>
Export == im.done => PrintT(<<"BEH", EnvT, im.hist, im.fk>>)
=============================================================================
