------------------------------ MODULE VirtMemTrace ------------------------------
(* Trace validation for X01: a trace recorded from the real VirtMem / JitAllocator / JitRuntime code       *)
(* (harness/virtmem.cpp, addresses compressed by checks/x01.py) is accepted iff every event is allowed by   *)
(* the contract VirtMem.tla in the state the preceding events produced.                                     *)
(*                                                                                                          *)
(* An event the contract does not allow is reported as  <<"REJ", line, event, reasons>>  and validation      *)
(* resumes at the next execution (Reset line), so that one TLC run finds every rejected execution of a      *)
(* file.  With STRICT=1 in the environment the specification is stuck instead and the POSTCONDITION fails.  *)
(* The state invariants CInv are checked in every state on top of that.                                     *)
EXTENDS VirtMem, TraceLib

VARIABLE l
tvars == <<cvars, l>>

T == TraceLog
N == Len(T)
Strict == "STRICT" \in DOMAIN IOEnv /\ IOEnv.STRICT = "1"

RECURSIVE NextReset(_)
NextReset(k) == IF k > N THEN N + 1 ELSE IF T[k].e = "Reset" THEN k ELSE NextReset(k + 1)

TInit == CInit /\ l = 1 /\ InitProgress

TNext == /\ l <= N
         /\ LET ev == T[l]
                why == Why(ev) IN
            IF why = {} THEN Effect(ev) /\ l' = l + 1
            ELSE /\ ~Strict
                 /\ PrintT(<<"REJ", l, ev.e, why>>)
                 /\ l' = NextReset(l + 1)
                 /\ UNCHANGED cvars

TSpec == TInit /\ [][TNext]_tvars
Progress == NoteProgress(l)
TraceAccepted == Accepted(N)
=============================================================================
