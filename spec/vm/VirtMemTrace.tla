------------------------------ MODULE VirtMemTrace ------------------------------
(* Trace validation for X01: a trace recorded from the real VirtMem / JitAllocator / JitRuntime code       *)
(* (harness/virtmem.cpp, addresses compressed by checks/x01.py) is accepted iff every event is allowed by   *)
(* the contract VirtMem.tla in the state the preceding events produced.                                     *)
(*                                                                                                          *)
(* An event the contract does not allow is reported as  <<"REJ", line, event, reasons>>  (each reason once   *)
(* per execution) and validation goes on - the contract's effects are total - so that one TLC run finds     *)
(* every rejected execution of a file and every distinct reason in it.  Events after which the state cannot *)
(* be tracked (ABORT = crash of the traced process, a return without its call) abandon the execution:       *)
(* validation resumes at the next Reset line.  The contract's state invariants are evaluated in every state *)
(* and reported the same way (at the following event; the runner ends every file with a Reset line).        *)
(* With STRICT=1 in the environment a rejected event leaves the specification stuck instead and the         *)
(* POSTCONDITION fails.                                                                                     *)
EXTENDS VirtMem, TraceLib

VARIABLES l,      \* next line of the trace
          said    \* reasons already reported for the execution in progress
tvars == <<cvars, l, said>>

T == TraceLog
N == Len(T)
Strict == "STRICT" \in DOMAIN IOEnv /\ IOEnv.STRICT = "1"

RECURSIVE NextReset(_)
NextReset(k) == IF k > N THEN N + 1 ELSE IF T[k].e = "Reset" THEN k ELSE NextReset(k + 1)

TInit == CInit /\ l = 1 /\ said = {} /\ InitProgress

TNext == /\ l <= N
         /\ LET ev == T[l]
                why == Why(ev) \cup InvWhy
                new == why \ said IN
            /\ (IF why = {} THEN TRUE ELSE ~Strict)
            /\ (IF new = {} THEN TRUE ELSE PrintT(<<"REJ", l, ev.e, new>>))
            /\ IF why # {} /\ Hard(ev)
                 THEN l' = NextReset(l + 1) /\ said' = said \cup new /\ UNCHANGED cvars
                 ELSE Effect(ev) /\ l' = l + 1 /\ said' = IF ev.e = "Reset" THEN {} ELSE said \cup new

TSpec == TInit /\ [][TNext]_tvars
Progress == NoteProgress(l)
TraceAccepted == Accepted(N)
=============================================================================
