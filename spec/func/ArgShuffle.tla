------------------------------ MODULE ArgShuffle ------------------------------
(* C06(b): entry argument assignment.  Each case is one real run of                                            *)
(*    FuncDetail::init -> FuncFrame::init -> FuncArgsAssignment::update_func_frame -> finalize ->              *)
(*    emit_args_assignment(frame, args) into a Builder                                                         *)
(* recorded by harness/funcabi.cpp (source locations, requested destinations, frame record, instruction list). *)
(* TLC executes the instruction list on Machine.tla from "argument i sits where FuncDetail says" and checks:   *)
(*   Encodable       every emitted instruction exists (an Assembler accepts the list)                          *)
(*   NoFault         no memory access through a register that does not hold a stack address                    *)
(*   ValuesKept      no argument that still has to reach a destination has been overwritten everywhere         *)
(*   ScratchDeclared only registers the frame declares dirty (or the convention leaves to the callee) are      *)
(*                   written                                                                                   *)
(*   Final           at the end every destination register / stack slot holds its argument, sign/zero extended *)
(*                   or float-converted as source and destination types demand; the requested SA register      *)
(*                   holds the stack-argument base                                                             *)
(* A case asmjit refused (any error code) is not judged.                                                       *)
(*   CASES = ndjson file, MODE = report | strict   (see ABICheck.tla)                                          *)
EXTENDS Machine, Json, IOUtils

Cases == ndJsonDeserialize(IOEnv.CASES)
Strict == "MODE" \in DOMAIN IOEnv /\ IOEnv.MODE = "strict"

(* type table (class, size, signedness) for the types the generator uses *)
TyT(c, s, sg) == [c |-> c, sz |-> s, sg |-> sg, el |-> ""]
TyF(c, s, el) == [c |-> c, sz |-> s, sg |-> TRUE, el |-> el]          \* el = floating-point element type
TyTab == [ i8 |-> TyT("int", 1, TRUE), u8 |-> TyT("int", 1, FALSE), i16 |-> TyT("int", 2, TRUE), u16 |-> TyT("int", 2, FALSE),
           i32 |-> TyT("int", 4, TRUE), u32 |-> TyT("int", 4, FALSE), i64 |-> TyT("int", 8, TRUE), u64 |-> TyT("int", 8, FALSE),
           f32 |-> TyF("fp", 4, "f32"), f64 |-> TyF("fp", 8, "f64"),
           f32x1 |-> TyF("vec", 4, "f32"), f64x1 |-> TyF("vec", 8, "f64"),
           i32x2 |-> TyT("vec", 8, TRUE), f32x2 |-> TyF("vec", 8, "f32"), i8x16 |-> TyT("vec", 16, TRUE),
           i32x4 |-> TyT("vec", 16, TRUE), f32x4 |-> TyF("vec", 16, "f32"), f64x2 |-> TyF("vec", 16, "f64"),
           f32x8 |-> TyT("vec", 32, TRUE), f64x4 |-> TyT("vec", 32, TRUE), f32x16 |-> TyT("vec", 64, TRUE) ]

RtSize(rt) == CASE rt = "gp8" -> 1 [] rt = "gp16" -> 2 [] rt = "gp32" -> 4 [] rt = "gp64" -> 8 [] rt = "vec32" -> 4 [] rt = "vec64" -> 8
                [] rt = "vec128" -> 16 [] rt = "vec256" -> 32 [] rt = "vec512" -> 64 [] rt = "mask" -> 8 [] rt = "mm" -> 8 [] OTHER -> 0
RtGroup(rt) == IF rt \in {"gp8", "gp16", "gp32", "gp64"} THEN "gp" ELSE IF rt = "mask" THEN "k" ELSE IF rt = "mm" THEN "mm" ELSE "vec"

(* the destination type: explicit, else what asmjit documents for an untyped assignment: the register's natural  *)
(* type (signed integer of the register size / a vector of the register size), or the source type for a slot     *)
DstTy(cs, q) ==
  LET d == cs.dst[q] IN
  IF d.t # "" THEN TyTab[d.t]
  ELSE IF d.k = "reg" THEN (IF RtGroup(d.rt) = "gp" THEN TyT("int", RtSize(d.rt), TRUE) ELSE TyT("vec", RtSize(d.rt), TRUE))
  ELSE TyTab[cs.args[q]]
SrcTy(cs, q) == TyTab[cs.args[q]]

Judged(cs) == cs.e0 = "Ok" /\ cs.e1 = "Ok" /\ cs.e2 = "Ok" /\ cs.e3 = "Ok" /\ cs.e4 = "Ok"
Wanted(cs) == { q \in 1..Len(cs.args) : cs.dst[q].k # "none" }

(* --- initial machine: arguments where FuncDetail put them; stack pointer / SA register as the frame promises --- *)
RECURSIVE PlaceArgs(_, _, _)
PlaceArgs(m, cs, q) ==
  IF q > Len(cs.args) THEN m
  ELSE LET s == cs.src[q] n == SrcTy(cs, q).sz
           \* Apple arm64: the caller sign/zero-extends integer arguments narrower than 32 bits to 32 bits
           v == IF cs.env = "a64-apple" /\ SrcTy(cs, q).c = "int" /\ n < 4 /\ s.k = "reg"
                THEN Val(q, "", n, 4, IF SrcTy(cs, q).sg THEN "s" ELSE "z") ELSE ArgVal(q, n) IN
       PlaceArgs(IF s.k = "reg" THEN RegPut(m, s.g, s.id, v)
                 ELSE IF s.k = "stack" THEN MemStore(m, <<"arg", s.off>>, n, v)
                 ELSE m, cs, q + 1)

InitMachine(cs) ==
  LET f == cs.frame
      m0 == NewMachine(cs.family, cs.bits, f.sp)
      m1 == IF f.da THEN RegPut(m0, "gp", f.sp, Ptr("sp", 0)) ELSE RegPut(m0, "gp", f.sp, Ptr("arg", 0 - f.sa_sp))
      \* the prolog leaves the stack-argument base in the frame's SA register (mov sa, zsp after the pushes / mov sa, zbp)
      m2 == IF f.sa_reg # f.sp /\ f.sa_reg # 255 THEN RegPut(m1, "gp", f.sa_reg, Ptr("arg", 0 - f.sa_sa)) ELSE m1
      m3 == IF f.has_fp /\ f.fpreg # 255 THEN RegPut(m2, "gp", f.fpreg, Ptr("arg", 0 - f.sa_sa)) ELSE m2
  IN PlaceArgs(m3, cs, 1)

(* --- what a destination must hold --- *)
AllowedExt(st, dt) == IF ~st.sg THEN {"z"} ELSE IF dt.sg THEN {"s"} ELSE {"s", "z"}
(* a scalar float/double argument whose destination is declared with the other floating-point element type *)
NeedsCvt(st, dt) == st.c = "fp" /\ dt.el # "" /\ dt.el # st.el /\ dt.sz <= 8
Holds(v, q, st, dt) ==
  /\ v.t = "val" /\ v.i = q
  /\ IF NeedsCvt(st, dt) THEN v.c = (IF st.sz = 4 THEN "f2d" ELSE "d2f") /\ v.hi >= (IF st.sz = 4 THEN 8 ELSE 4)
     ELSE IF st.c = "int" /\ dt.c = "int" /\ dt.sz > st.sz
     THEN v.c = "" /\ v.lo = st.sz /\ v.hi >= dt.sz /\ v.x \in AllowedExt(st, dt)
     ELSE v.c = "" /\ v.lo >= MMin(st.sz, dt.sz)

DstValue(m, cs, q) ==
  LET d == cs.dst[q] IN
  IF d.k = "reg" THEN RegGet(m, RtGroup(d.rt), d.id)
  ELSE LET spv == RegGet(m, "gp", cs.frame.sp) a == <<spv.x, spv.lo + d.off>> IN
       IF spv.t = "ptr" /\ a \in DOMAIN m.mem THEN m.mem[a].v ELSE Junk
DstHolds(m, cs, q) == Holds(DstValue(m, cs, q), q, SrcTy(cs, q), DstTy(cs, q))

(* argument q can still be produced from something the machine holds *)
Alive(m, cs, q) ==
  LET st == SrcTy(cs, q) dt == DstTy(cs, q)
      nb == IF NeedsCvt(st, dt) \/ (st.c = "int" /\ dt.c = "int" /\ dt.sz > st.sz) THEN st.sz ELSE MMin(st.sz, dt.sz) IN
  \/ DstHolds(m, cs, q)
  \/ \E v \in AllValues(m) : v.t = "val" /\ v.i = q /\ ((v.c = "" /\ v.lo >= nb) \/ (v.c # "" /\ NeedsCvt(st, dt)))

MaskOf(rec, g) == IF g = "gp" THEN rec.gp ELSE IF g = "vec" THEN rec.vec ELSE IF g = "k" THEN rec.k ELSE IF g = "mm" THEN rec.mm ELSE <<>>
InSeq(x, s) == \E q \in 1..Len(s) : s[q] = x
MayWrite(cs, r) == InSeq(r[2], MaskOf(cs.frame.dirty, r[1])) \/ ~InSeq(r[2], MaskOf(cs.frame.pres, r[1]))

(* Nothing but the destination slots may be written: every memory cell that is not an incoming stack argument must lie inside *)
(* the slot [off, off + size of the destination type) of some stack destination (unwritten memory is unknown = poison, so a    *)
(* partially written destination fails Final; a store that spills over a destination's end or lands elsewhere fails here).     *)
SlotEnd(e, g) == ((e + g - 1) \div g) * g
StrayStores(m, cs) ==
  LET spv == RegGet(m, "gp", cs.frame.sp)
      incoming == { <<"arg", cs.src[q].off>> : q \in { q \in 1..Len(cs.args) : cs.src[q].k = "stack" } }
      inDst(a, n) == \E q \in Wanted(cs) : cs.dst[q].k = "stack" /\ spv.t = "ptr" /\ a[1] = spv.x
                                          /\ a[2] >= spv.lo + cs.dst[q].off
                                          \* a store may fill the destination's stack slot up to the next register-size boundary (stack
                                          \* slots are register-size granular; a 4-byte store for an int8 destination is not a stray store)
                                          /\ a[2] + n <= spv.lo + SlotEnd(cs.dst[q].off + DstTy(cs, q).sz, cs.bits \div 8)
  IN { a \in DOMAIN m.mem : ~(a \in incoming /\ m.mem[a].v.t = "val" /\ m.mem[a].v.c = "" /\ m.mem[a].v.lo = m.mem[a].v.hi) /\ ~inDst(a, m.mem[a].sz) }

SaOk(m, cs) == cs.sa = 255 \/ RegGet(m, "gp", cs.sa) = Ptr("arg", 0 - cs.frame.sa_sa)

(* ------------------------------------------------------------------------------------------------------- *)
VARIABLES c, pc, m
vars == <<c, pc, m>>
Case == Cases[c]
Insts == Case.insts

(* c = 0: the root (pc = 0) and the NB block states (pc = -b); TLC's workers take the blocks in parallel *)
NC == Len(Cases)
NB == IF NC <= 200 THEN 1 ELSE 64
Empty == NewMachine("x86", 64, 4)
Init == c = 0 /\ pc = 0 /\ m = Empty
Next == \/ c = 0 /\ pc = 0 /\ c' = 0 /\ pc' \in { 0 - q : q \in 1..NB } /\ m' = Empty
        \/ /\ c = 0 /\ pc < 0
           /\ c' \in { q \in 1..NC : q % NB = (0 - pc) % NB }
           /\ pc' = 1
           /\ m' = IF Judged(Cases[c']) THEN InitMachine(Cases[c']) ELSE Empty
        \/ /\ c > 0 /\ Judged(Case) /\ pc <= Len(Insts) /\ m.fault = ""
           /\ m' = Exec(m, Insts[pc])
           /\ pc' = pc + 1
           /\ c' = c
Spec == Init /\ [][Next]_vars

AtEnd == pc = Len(Insts) + 1

TyKey(t) == <<t.c, t.sz>>
ValForm(v, q) == IF v.t # "val" THEN v.t ELSE IF v.i # q THEN "other-argument" ELSE IF v.c # "" THEN v.c
                 ELSE IF v.lo = v.hi THEN "raw" ELSE v.x
HasOp(cs, op) == \E n \in 1..Len(cs.insts) : cs.insts[n].op = op
PrevOp == IF pc > 1 THEN Insts[pc - 1].op ELSE "-"

(* an operand that cannot be what the mnemonic takes: a register whose recorded type is not a register type at all, *)
(* a vector register narrower than 4 bytes, or a general-purpose register in a vector move                          *)
VecOps == X86FullVecMoves \cup {"movss", "movsd", "vmovss", "vmovsd", "cvtss2sd", "cvtsd2ss", "vcvtss2sd", "vcvtsd2ss"}
BadOperand(ins) ==
  \E n \in 1..Len(ins.o) :
     LET o == ins.o[n] IN
     \/ o.k = "other"
     \/ o.k = "reg" /\ (o.sz = 0 \/ o.g = "other" \/ (o.g = "vec" /\ o.sz < 4))
Malformed(cs) == \E n \in 1..Len(cs.insts) : BadOperand(cs.insts[n])
MalformedOp(cs) == cs.insts[CHOOSE n \in 1..Len(cs.insts) : BadOperand(cs.insts[n])].op

(* first broken clause, or <<>> *)
Verdict ==
  IF c = 0 THEN <<>> ELSE
  LET cs == Case IN
  IF cs.abort # "" THEN <<cs.family, "sanitizer-abort", cs.abort>>
  ELSE IF ~Judged(cs) THEN <<>>
  ELSE IF Malformed(cs) THEN <<cs.family, "malformed-operand">>
  ELSE IF cs.enc # "Ok" \/ cs.foreign THEN <<cs.family, "not-encodable", IF HasOp(cs, "vcvtss2sd") \/ HasOp(cs, "vcvtsd2ss") THEN "vcvt-2-operands" ELSE cs.enc>>
  ELSE IF m.fault # "" THEN <<cs.family, "fault", PrevOp>>
  ELSE IF \E r \in m.wr : ~MayWrite(cs, r) THEN <<cs.family, "writes-undeclared-register", (CHOOSE r \in m.wr : ~MayWrite(cs, r))[1]>>
  ELSE IF \E q \in Wanted(cs) : ~Alive(m, cs, q)
       THEN LET q == CHOOSE q \in Wanted(cs) : ~Alive(m, cs, q) IN <<cs.family, "value-lost", PrevOp>>
  ELSE IF AtEnd /\ \E q \in Wanted(cs) : ~DstHolds(m, cs, q)
       THEN LET q == CHOOSE q \in Wanted(cs) : ~DstHolds(m, cs, q) /\ \A q2 \in Wanted(cs) : ~DstHolds(m, cs, q2) => q <= q2
                d == cs.dst[q] s == cs.src[q] st == SrcTy(cs, q) dt == DstTy(cs, q)
                same == d.k = "reg" /\ s.k = "reg" /\ RtGroup(d.rt) = s.g /\ d.id = s.id
                how == IF same THEN "self" ELSE IF HasOp(cs, "xchg") THEN "xchg" ELSE "move" IN
            \* the source kind is part of the class only for stack-passed sources (register sources keep their earlier names)
            IF NeedsCvt(st, dt) THEN <<cs.family, "final", "float-conversion", d.k, how>> \o (IF s.k = "stack" THEN <<"from-stack">> ELSE <<>>)
            ELSE IF st.c = "int" /\ dt.c = "int" /\ dt.sz > st.sz
                 THEN <<cs.family, "final", "int-extension", d.k, how>> \o (IF s.k = "stack" THEN <<"from-stack">> ELSE <<>>)
            ELSE <<cs.family, "final", "plain-move", st.c, s.k, d.k>>
  ELSE IF AtEnd /\ StrayStores(m, cs) # {}
       THEN LET ss == {q \in Wanted(cs) : cs.dst[q].k = "stack"}
                \* the class names the kind of source whose store can overrun: scalar fp first (the listed movaps/movapd defect)
                cls == IF \E q \in ss : SrcTy(cs, q).c = "fp" THEN "fp"
                       ELSE IF \E q \in ss : SrcTy(cs, q).c # "int" THEN (SrcTy(cs, CHOOSE q \in ss : SrcTy(cs, q).c # "int").c) ELSE "int"
            IN <<cs.family, "store-outside-destination", cls>>
  ELSE IF AtEnd /\ ~SaOk(m, cs) THEN <<cs.family, "sa-register">>
  ELSE <<>>

Report == PrintT(ToJson(<<"NONCONF", c, <<pc>> \o Verdict>>))
Accepts == Verdict = <<>> \/ (~Strict /\ Report)
=============================================================================
