SPECIFICATION Spec
INVARIANT Accepts
