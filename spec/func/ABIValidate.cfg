SPECIFICATION Spec
CONSTANTS
  MaxSuffix = 2
INVARIANT Export
