----------------------------- MODULE ArgShuffleGen -----------------------------
(* C06(b): TLC enumerates the assignments handed to the real emit_args_assignment().                           *)
(*   Mode "perm"  : n same-class arguments sitting in the convention's first n argument registers, every       *)
(*                  injection into those registers + one more (identity, chains, 2-/3-/n-cycles), and the      *)
(*                  vectorcall case where all six non-preserved vector registers are permuted (no scratch)     *)
(*   Mode "ext"   : single arguments of every integer / float type, destination = same register, another       *)
(*                  register or a stack slot, with every destination type (self-moves needing extension,       *)
(*                  float32<->float64), register and stack sources; plus two-argument swaps that need extension*)
(*   Mode "mixed" : (-simulate) up to MaxArgs arguments of mixed classes, destinations reg/stack/none, with    *)
(*                  preserved FP, AVX, requested SA register and forced dynamic alignment                      *)
EXTENDS Naturals, Sequences, FiniteSets, TLC, Json
CONSTANTS Mode, MaxArgs, Full

Rep(t, k) == [q \in 1..k |-> t]
DReg(rt, id, t) == [k |-> "reg", rt |-> rt, id |-> id, off |-> 0, t |-> t]
DStk(off, t) == [k |-> "stack", rt |-> "none", id |-> 0, off |-> off, t |-> t]
DNone == [k |-> "none", rt |-> "none", id |-> 0, off |-> 0, t |-> ""]
MkCase(env, conv, args, dst, fp, avx, sa, lalign, lsize) ==
  [env |-> env, conv |-> conv, va |-> 255, ret |-> "void", args |-> args, dst |-> dst, fp |-> fp, avx |-> avx, sa |-> sa, lalign |-> lalign, lsize |-> lsize]

Inj(n, pool) == { f \in [1..n -> pool] : \A a, b \in 1..n : a # b => f[a] # f[b] }

(* ---- perm ---- *)
PermConfigs ==
  { [env |-> "x64-sysv", conv |-> "cdecl", t |-> "i64", rt |-> "gp64", srcs |-> <<7, 6, 2, 1, 8, 9>>, extra |-> {0}],
    [env |-> "x64-sysv", conv |-> "cdecl", t |-> "i32", rt |-> "gp32", srcs |-> <<7, 6, 2, 1, 8, 9>>, extra |-> {3}],
    [env |-> "x64-sysv", conv |-> "cdecl", t |-> "f64", rt |-> "vec128", srcs |-> <<0, 1, 2, 3, 4, 5, 6, 7>>, extra |-> {9}],
    [env |-> "x64-sysv", conv |-> "cdecl", t |-> "f32x4", rt |-> "vec128", srcs |-> <<0, 1, 2, 3, 4, 5, 6, 7>>, extra |-> {}],
    [env |-> "x64-sysv", conv |-> "cdecl", t |-> "f32x8", rt |-> "vec256", srcs |-> <<0, 1, 2>>, extra |-> {5}],
    [env |-> "x64-sysv", conv |-> "cdecl", t |-> "f32x16", rt |-> "vec512", srcs |-> <<0, 1>>, extra |-> {5}],
    [env |-> "x64-win", conv |-> "cdecl", t |-> "i64", rt |-> "gp64", srcs |-> <<1, 2, 8, 9>>, extra |-> {0}],
    [env |-> "x64-win", conv |-> "vectorcall", t |-> "f32x4", rt |-> "vec128", srcs |-> <<0, 1, 2, 3, 4, 5>>, extra |-> {}],
    [env |-> "x86-sysv", conv |-> "regparm3", t |-> "i32", rt |-> "gp32", srcs |-> <<0, 2, 1>>, extra |-> {3}],
    [env |-> "a64-aapcs", conv |-> "cdecl", t |-> "i64", rt |-> "gp64", srcs |-> <<0, 1, 2, 3, 4, 5, 6, 7>>, extra |-> {9}],
    [env |-> "a64-aapcs", conv |-> "cdecl", t |-> "i32", rt |-> "gp32", srcs |-> <<0, 1, 2, 3, 4, 5, 6, 7>>, extra |-> {}],
    [env |-> "a64-aapcs", conv |-> "cdecl", t |-> "f64", rt |-> "vec64", srcs |-> <<0, 1, 2, 3, 4, 5, 6, 7>>, extra |-> {8}],
    [env |-> "a64-apple", conv |-> "cdecl", t |-> "f32x4", rt |-> "vec128", srcs |-> <<0, 1, 2, 3, 4, 5, 6, 7>>, extra |-> {}] }
PermCases ==
  UNION { UNION { { MkCase(cf.env, cf.conv, Rep(cf.t, n), [q \in 1..n |-> DReg(cf.rt, f[q], "")], 0,
                           IF cf.rt = "vec256" THEN 1 ELSE IF cf.rt = "vec512" THEN 2 ELSE 0, 255, 0, 0)
                    : f \in Inj(n, { cf.srcs[q] : q \in 1..n } \cup cf.extra) }
                  : n \in { n \in 1..MaxArgs : n <= Len(cf.srcs) } }
          : cf \in PermConfigs } \cup
  (* all six vectorcall vector registers permuted: nothing non-preserved is free *)
  (* quick tier: identity, the transpositions and the rotations; thorough: all 720 *)
  { MkCase("x64-win", "vectorcall", Rep("f64", 6), [q \in 1..6 |-> DReg("vec128", f[q], "")], 0, 0, 255, 0, 0)
      : f \in { f \in Inj(6, 0..5) : Full \/ Cardinality({ q \in 1..6 : f[q] = q - 1 }) >= 4 \/ \E r \in 0..5 : \A q \in 1..6 : f[q] = (q - 1 + r) % 6 } }

(* ---- ext ---- *)
IntTypes == {"i8", "u8", "i16", "u16", "i32", "u32", "i64", "u64"}
GpDstKinds == { <<"gp32", "">>, <<"gp32", "i32">>, <<"gp32", "u32">>, <<"gp32", "i16">>, <<"gp32", "u16">>,
                <<"gp64", "">>, <<"gp64", "i64">>, <<"gp64", "u64">> }
FpDstKinds == { <<"vec128", "">>, <<"vec128", "f32x1">>, <<"vec128", "f64x1">>, <<"vec128", "f64">> }
(* where the single argument comes from: [env, conv, prefix, first source register id (255 = stack)] *)
ExtPlaces ==
  { [env |-> "x64-sysv", conv |-> "cdecl", pre |-> <<>>, gp |-> 7, vec |-> 0, other |-> 3],
    [env |-> "x64-win", conv |-> "cdecl", pre |-> <<>>, gp |-> 1, vec |-> 0, other |-> 6],
    [env |-> "x64-sysv", conv |-> "cdecl", pre |-> Rep("i64", 6) \o Rep("f64", 8), gp |-> 255, vec |-> 255, other |-> 3],
    [env |-> "x64-win", conv |-> "cdecl", pre |-> Rep("i64", 4), gp |-> 255, vec |-> 255, other |-> 6],
    [env |-> "x86-sysv", conv |-> "cdecl", pre |-> <<>>, gp |-> 255, vec |-> 255, other |-> 1],
    [env |-> "x86-sysv", conv |-> "fastcall", pre |-> <<>>, gp |-> 1, vec |-> 255, other |-> 3],
    [env |-> "a64-aapcs", conv |-> "cdecl", pre |-> <<>>, gp |-> 0, vec |-> 0, other |-> 9],
    [env |-> "a64-aapcs", conv |-> "cdecl", pre |-> Rep("i64", 8) \o Rep("f64", 8), gp |-> 255, vec |-> 255, other |-> 9] }
Is32Env(env) == env \in {"x86-sysv", "x86-win"}
ExtDsts(pl, t) ==
  IF t \in IntTypes
  THEN { DReg(kd[1], id, kd[2]) : kd \in { kd \in GpDstKinds : ~(Is32Env(pl.env) /\ kd[1] = "gp64") },
                                   id \in (IF pl.gp = 255 THEN {pl.other} ELSE {pl.gp, pl.other}) }
       \* stack destinations declared with the same, a wider signed / unsigned, or a narrower integer type
       \cup { DStk(16, dt) : dt \in {"", "i8", "u16", "i32", "u32", "i64", "u64"} \ (IF Is32Env(pl.env) THEN {"i64", "u64"} ELSE {}) }
  ELSE IF t = "f32x4"
  THEN { DReg("vec128", id, "") : id \in (IF pl.vec = 255 THEN {pl.other} ELSE {pl.vec, pl.other}) } \cup { DStk(16, ""), DStk(32, "f32x4") }
  ELSE { DReg(kd[1], id, kd[2]) : kd \in FpDstKinds, id \in (IF pl.vec = 255 THEN {pl.other} ELSE {pl.vec, pl.other}) }
       \cup { DStk(16, dt) : dt \in {"", "f32x1", "f64x1"} }
ExtTypes(pl) == (IF Is32Env(pl.env) THEN IntTypes \ {"i64", "u64"} ELSE IntTypes) \cup {"f32", "f64"} \cup (IF Is32Env(pl.env) THEN {} ELSE {"f32x4"})
PadDst(pl) == [q \in 1..Len(pl.pre) |-> DNone]
ExtCases ==
  UNION { UNION { { MkCase(pl.env, pl.conv, pl.pre \o <<t>>, PadDst(pl) \o <<d>>, 0, avx, 255, 0, IF d.k = "stack" THEN 64 ELSE 0)
                    : d \in ExtDsts(pl, t), avx \in (IF t \in {"f32", "f64"} /\ ~(pl.env \in {"a64-aapcs"}) THEN {0, 1} ELSE {0}) }
                  : t \in ExtTypes(pl) }
          : pl \in ExtPlaces } \cup
  (* two narrow integers exchanged between the first two argument registers, destinations wider *)
  { MkCase("x64-sysv", "cdecl", <<t1, t2>>, <<DReg(k1[1], 6, k1[2]), DReg(k2[1], 7, k2[2])>>, 0, 0, 255, 0, 0)
      : t1 \in {"i8", "u16", "i32"}, t2 \in {"i8", "i16", "u32"}, k1 \in {<<"gp32", "">>, <<"gp64", "">>}, k2 \in {<<"gp32", "">>, <<"gp64", "i64">>} } \cup
  { MkCase("a64-aapcs", "cdecl", <<t1, t2>>, <<DReg(k1[1], 1, k1[2]), DReg(k2[1], 0, k2[2])>>, 0, 0, 255, 0, 0)
      : t1 \in {"i8", "u16", "i32"}, t2 \in {"i8", "i64"}, k1 \in {<<"gp32", "">>, <<"gp64", "">>}, k2 \in {<<"gp64", "">>} }

(* ---- mixed (simulation) ---- *)
MixEnvs == { <<"x64-sysv", "cdecl">>, <<"x64-win", "cdecl">>, <<"x64-win", "vectorcall">>, <<"x86-sysv", "cdecl">>, <<"x86-sysv", "fastcall">>,
             <<"x86-win", "stdcall">>, <<"a64-aapcs", "cdecl">>, <<"a64-apple", "cdecl">> }
MixTypes(env) == IF Is32Env(env) THEN {"i8", "u16", "i32", "f32", "f64"} ELSE {"i8", "u16", "i32", "i64", "f32", "f64", "f32x4"}
GpPool(env) == IF Is32Env(env) THEN {0, 1, 2, 3, 6, 7} ELSE IF env \in {"a64-aapcs", "a64-apple"} THEN {0, 1, 2, 3, 8, 19} ELSE {0, 1, 2, 3, 6, 7, 8, 9, 12}
VecPool == {0, 1, 2, 3, 6}
IsIntT(t) == t \in IntTypes

VARIABLES cs, done
vars == <<cs, done>>

InitMixed == /\ done = FALSE
             /\ \E e \in MixEnvs, fp \in {0, 1}, avx \in {0, 1}, la \in {0, 0, 32}, sa \in {255, 255, 3} :
                  cs = MkCase(e[1], e[2], <<>>, <<>>, fp, IF e[1] \in {"a64-aapcs", "a64-apple"} THEN 0 ELSE avx, sa, la, 128)

UsedRegs(grp) == { cs.dst[q].id : q \in { q \in 1..Len(cs.dst) : cs.dst[q].k = "reg" /\ (cs.dst[q].rt \in {"gp32", "gp64"}) = (grp = "gp") } }
NextMixed ==
  /\ ~done
  /\ \/ /\ Len(cs.args) < MaxArgs
        /\ \E t \in MixTypes(cs.env) :
             \E d \in (IF IsIntT(t)
                       THEN { DReg(rt, id, "") : rt \in (IF Is32Env(cs.env) THEN {"gp32"} ELSE {"gp32", "gp64"}), id \in (GpPool(cs.env) \ (UsedRegs("gp") \cup {cs.sa})) }
                       ELSE { DReg("vec128", id, "") : id \in VecPool \ UsedRegs("vec") })
                      \cup { DStk(16 * (Len(cs.args) + 1), ""), DNone } :
               cs' = [cs EXCEPT !.args = Append(cs.args, t), !.dst = Append(cs.dst, d)]
        /\ done' = FALSE
     \/ /\ Len(cs.args) >= 1 /\ done' = TRUE /\ cs' = cs

Init == IF Mode = "mixed" THEN InitMixed
        ELSE /\ done = TRUE
             /\ cs \in (IF Mode = "perm" THEN PermCases ELSE IF Mode = "ext" THEN ExtCases ELSE PermCases \cup ExtCases)
Next == Mode = "mixed" /\ NextMixed
Spec == Init /\ [][Next]_vars

Export == done => PrintT(ToJson(<<"CASE", cs>>))
=============================================================================
