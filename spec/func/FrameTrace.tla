------------------------------ MODULE FrameTrace ------------------------------
(* C07 binding: every observation of harness/frame.cpp (frame record + emitted prolog/epilog of the REAL    *)
(* asmjit for one configuration) is executed on FrameMachine for EVERY entry-SP residue the convention      *)
(* allows (the residue is a nondeterministic initial choice), and the property's invariants are evaluated   *)
(* in every machine state.                                                                                  *)
(*   OBS  = ndjson file of observations                                                                     *)
(*   MODE = "strict" (default): the invariants of FrameTrace.cfg simply fail (TLC exit 12, error trace);    *)
(*          "report": a failing state prints a FAIL line and TLC goes on, so that ALL failing               *)
(*          configurations of a shard can be grouped; each group is then confirmed in strict mode.          *)
EXTENDS FrameMachine, Json, IOUtils, SequencesExt

Obs == ndJsonDeserialize(IOEnv.OBS)
ReportMode == "MODE" \in DOMAIN IOEnv /\ IOEnv.MODE = "report"

VARIABLE i
vars == <<i, esp, reg, mem, pcx, pc, bsp, low, bad>>

(* report mode runs big-step: the successors of an initial state are the state at the body and the final  *)
(* state of that (observation, residue); strict mode runs small-step, one state per instruction              *)
Init == /\ i \in 1..Len(Obs)
        /\ \E E \in EntrySPs(Obs[i]) : MInit(Obs[i], E)
Next == (IF ReportMode THEN MRunNext(Obs[i]) ELSE MNext(Obs[i])) /\ UNCHANGED i
Spec == Init /\ [][Next]_vars

O == Obs[i]
InvUnderstood == Understood(O)
InvAccepted == Accepted(O)
InvSpDefined == SpDefined(O)
InvNoWriteOutsideFrame == NoWriteOutsideFrame(O)
InvAlignedInBody == AlignedInBody(O)
InvDisjoint == Disjoint(O)
InvStackArgs == StackArgs(O)
InvHomeSlots == HomeSlots(O)
InvFrameRecord == FrameRecord(O)
InvCompleted == Completed(O)
InvSavedRestored == SavedRestored(O)

(* report mode: one invariant that never fails but prints what failed where *)
ReportInv ==
  LET f == Failing(O) IN
  f = {} \/ PrintT(<<"FAIL", i, esp % 64, pcx, SetToSeq(f), SetToSeq(Lost(O))>>)
=============================================================================
