----------------------------- MODULE FrameConfigs -----------------------------
(* C07 - the configuration space handed to the real FuncDetail/FuncFrame/emit_prolog/emit_epilog.           *)
(* A configuration = environment x convention x user-preserved registers x a SEQUENCE of FuncFrame setter   *)
(* calls (ops).  The values (sizes, alignments, masks, attributes) and the ORDER/shape of the calls that     *)
(* install them (permutation of the four stack setters, set_* / update_* / set-then-update / update-then-set  *)
(* repetitions, attribute calls before or after) are separate dimensions.  The contract of the setters - what *)
(* a sequence promises to the body - is stated in FrameMachine.tla (Eff); the harness only executes the calls. *)
(* The space is built dimension by dimension (one step per dimension), so that                               *)
(*   - TLC model checking enumerates the full cross product of the profile's domains, and                   *)
(*   - TLC -simulate draws uniformly random configurations from the "wide" profile (depth = NDims).         *)
(* Every completed configuration is printed (PrintT <<"CFG", ...>>) and replayed on the real code.          *)
EXTENDS Integers, Sequences, FiniteSets, TLC, SequencesExt, FrameSetters

CONSTANT Profile          \* "quick" | "thorough" | "orders" | "orders_thorough" | "wide"

VARIABLE c                \* choices made so far (sequence), c[1] = <<env, cc>>
vars == <<c>>

(* environment x calling convention: every convention of every architecture asmjit materialises differently *)
EnvCC == { <<"x64-sysv", "cdecl">>, <<"x64-sysv", "x64win">>, <<"x64-sysv", "vectorcall">>,
           <<"x64-sysv", "lightcall2">>, <<"x64-sysv", "lightcall4">>,
           <<"x64-win", "cdecl">>, <<"x64-win", "stdcall">>,
           <<"x86-sysv", "cdecl">>, <<"x86-sysv", "regparm3">>, <<"x86-sysv", "lightcall3">>,
           <<"x86-win", "cdecl">>, <<"x86-win", "stdcall">>, <<"x86-win", "fastcall">>, <<"x86-win", "thiscall">>,
           <<"x86-win", "vectorcall">>,
           <<"a64-aapcs", "cdecl">>, <<"a64-aapcs", "lightcall2">>, <<"a64-apple", "cdecl">> }

(* the quick profile skips pairs whose frames differ from a kept pair only in the argument registers *)
QuickSkip == { <<"x64-sysv", "lightcall4">>, <<"x64-win", "stdcall">>, <<"x86-win", "cdecl">>, <<"a64-apple", "cdecl">>,
               <<"x86-win", "thiscall">>, <<"x86-sysv", "regparm3">> }

Env(cc) == cc[1][1]
IsX86(cc) == Env(cc) \in {"x86-sysv", "x86-win"}
IsX64(cc) == Env(cc) \in {"x64-sysv", "x64-win"}
IsA64(cc) == Env(cc) \in {"a64-aapcs", "a64-apple"}

NDims == 17
DimNames == <<"envcc", "dgp", "dvec", "extras", "ls", "la", "cs", "ca", "fp", "avx", "cleanup", "nargs", "sa", "calls", "ibt", "order", "end">>

(* domains per profile; `s` = choices so far *)
(* the 24 orders of the four stack setters (1 = local size, 2 = local alignment, 3 = call size, 4 = call alignment) *)
Perm4 == {p \in [1..4 -> 1..4] : \A a, b \in 1..4 : a # b => p[a] # p[b]}
PSeq(p) == <<p[1], p[2], p[3], p[4]>>
Canon == <<1, 2, 3, 4>>
RAOrder == <<3, 4, 2, 1>>       \* BaseRAPass: call stack size/alignment while the CFG is built, then local alignment, local size
(* how one value is installed: set_X(v) | update_X(v) | set_X(v/2);update_X(v) | set_X(v);update_X(v/2) | update_X(2v);set_X(v) *)
Kinds == {"set", "update", "lo_update", "update_lo", "hi_set"}

Dom(d, s) ==
  LET q == Profile = "quick"
      t == Profile = "thorough"
      o == Profile \in {"orders", "orders_thorough"}     \* few values, EVERY order
      ot == Profile = "orders_thorough"
      n == DimNames[d]
  IN
  CASE n = "envcc"   -> IF o THEN {<<"x64-sysv", "cdecl">>, <<"x86-sysv", "cdecl">>, <<"a64-aapcs", "cdecl">>} \cup
                                  (IF ot THEN {<<"x64-win", "cdecl">>, <<"x86-win", "stdcall">>} ELSE {})
                        ELSE IF q THEN EnvCC \ QuickSkip ELSE EnvCC
    [] n = "dgp"     -> IF o THEN {"all"} ELSE IF q THEN {"none", "all"} ELSE IF t THEN {"none", "lo", "all"}
                        ELSE {"none", "lo", "hi", "alt", "odd", "all", "pres"}
    [] n = "dvec"    -> IF o THEN {"none"} ELSE IF q \/ t THEN {"none", "all"}
                        ELSE {"none", "lo", "hi", "alt", "all", "all32"}
    [] n = "extras"  -> IF IsA64(s) \/ o THEN {"none"}
                        ELSE IF q THEN {"none", "cust1"} ELSE IF t THEN {"none", "cust1", "cust2", "cust4"}
                        ELSE {"none", "kmm", "cust1", "cust2", "cust3", "cust4"}
    [] n = "ls"      -> IF o THEN {0, 40} ELSE IF q THEN {0, 40} ELSE IF t THEN {0, 8, 4104} ELSE {0, 1, 8, 24, 40, 4096, 4104, 65528}
    [] n = "la"      -> IF o THEN (IF ot THEN {0, 8, 16, 32, 64} ELSE {0, 16, 64}) ELSE IF q THEN {0, 64} ELSE IF t THEN {0, 8, 32}
                        ELSE {0, 1, 4, 8, 16, 32, 64}
    [] n = "cs"      -> IF o THEN {32} ELSE IF q THEN {0, 32} ELSE IF t THEN {0, 40} ELSE {0, 8, 32, 100}
    [] n = "ca"      -> IF o THEN (IF ot THEN {0, 16, 32, 64} ELSE {0, 32}) ELSE IF q \/ t THEN {0} ELSE {0, 16, 32, 64}
    [] n = "fp"      -> {0, 1}
    [] n = "avx"     -> IF IsA64(s) \/ o THEN {0} ELSE IF q THEN {0, 1} ELSE {0, 1, 2}
    [] n = "cleanup" -> IF IsA64(s) \/ q \/ t \/ o THEN {<<0, 0>>}
                        ELSE {<<0, 0>>, <<1, 0>>, <<0, 1>>, <<0, 2>>, <<1, 2>>}       \* <<emms, vzeroupper mode>>
    [] n = "nargs"   -> IF q \/ t \/ o THEN {10} ELSE {0, 3, 10, 14}
    [] n = "sa"      -> IF o THEN {255} ELSE
                        (IF s[9] = 1 THEN {255, 254} ELSE {255})
                        \cup (IF IsA64(s) \/ q THEN {} ELSE IF t THEN {0} ELSE {0, 3, 6})
                        \* stack-arguments base register: 255 = let the frame decide; 254 = the frame pointer (what
                        \* FuncArgsAssignment::update_func_frame picks when FP is preserved); else rax / rbx / rsi
    [] n = "calls"   -> IF q \/ t \/ o THEN {IF s[7] > 0 THEN 1 ELSE 0} ELSE (IF s[7] > 0 THEN {1} ELSE {0, 1})
    [] n = "ibt"     -> IF q \/ t \/ o THEN {0} ELSE {0, 1}
    [] n = "order"   -> \* <<order of the four stack setters, how each value is installed, attribute calls "first" | "last">>
                        IF o THEN {<<PSeq(p), k, w>> : p \in Perm4, k \in (IF ot THEN Kinds ELSE Kinds \ {"hi_set"}), w \in {"last"}}
                        ELSE IF q \/ t THEN {<<Canon, "set", "last">>, <<RAOrder, "update", "first">>}
                        ELSE {<<PSeq(p), k, w>> : p \in Perm4, k \in Kinds, w \in {"first", "last"}}
    [] n = "end"     -> {0}     \* (TLC -simulate evaluates invariants on every generated successor: the last step has one)

Init == c = <<>>
Next == /\ Len(c) < NDims
        /\ \E v \in Dom(Len(c) + 1, c) : c' = Append(c, v)
Spec == Init /\ [][Next]_vars

------------------------------------------------------------------------------
(* expansion of the register-set classes *)
Sorted(S) == SetToSortSeq(S, LAMBDA a, b : a < b)

GpAll(s)  == IF IsX86(s) THEN (0..7) \ {4} ELSE IF IsX64(s) THEN (0..15) \ {4} ELSE 0..30
GpPres(s) == IF IsX86(s) THEN {3, 5, 6, 7} ELSE IF IsX64(s) THEN {3, 5, 6, 7, 12, 13, 14, 15} ELSE 19..30
GpSet(cls, s) ==
  CASE cls = "none" -> {}
    [] cls = "lo"   -> IF IsA64(s) THEN {19} ELSE {3}
    [] cls = "hi"   -> IF IsX86(s) THEN {7} ELSE IF IsX64(s) THEN {15} ELSE {28}
    [] cls = "alt"  -> {r \in GpAll(s) : r % 2 = 0}
    [] cls = "odd"  -> {r \in GpAll(s) : r % 2 = 1}
    [] cls = "all"  -> GpAll(s)
    [] cls = "pres" -> GpPres(s)

VecAll(s) == IF IsX86(s) THEN 0..7 ELSE IF IsX64(s) THEN 0..15 ELSE 0..31
VecSet(cls, s) ==
  CASE cls = "none" -> {}
    [] cls = "lo"   -> IF IsA64(s) THEN {8} ELSE {6}
    [] cls = "hi"   -> IF IsX86(s) THEN {7} ELSE {15}
    [] cls = "alt"  -> {r \in VecAll(s) : r % 2 = 0}
    [] cls = "all"  -> VecAll(s)
    [] cls = "all32" -> IF IsX86(s) THEN 0..7 ELSE 0..31

(* extras = <<dirty k, dirty mm, custom-preserved vec, custom-preserved k, custom-preserved mm>> *)
Extras(cls, s) ==
  CASE cls = "none"  -> <<{}, {}, {}, {}, {}>>
    [] cls = "kmm"   -> <<{1, 2}, {0, 3}, {}, {}, {}>>                       \* clobbered, nothing to save
    [] cls = "cust1" -> <<{1}, {}, (IF IsX86(s) THEN {6, 7} ELSE {8, 9}), {1}, {}>>   \* vector + one mask register to save
    [] cls = "cust4" -> <<{}, {0, 5}, (IF IsX86(s) THEN {6, 7} ELSE {8, 9}), {}, {0, 5}>>  \* vector + two MM registers
    [] cls = "cust2" -> <<{1, 2, 7}, {0, 5}, (IF IsX86(s) THEN {6, 7} ELSE {8, 9}), {1, 2, 7}, {0, 5}>>
    [] cls = "cust3" -> <<{}, {}, {2, 4, 5}, {}, {}>>                          \* user convention preserving xmm2/4/5

(* the setter calls, <<name, a, g, ids>> each *)
Op(name, a) == <<name, a, 0, <<>> >>
OpD(g, S) == <<"add_dirty", 0, g, Sorted(S)>>
Chain(kind, x, v) ==                     \* x in {"ls","la","cs","ca"}; a value 0 is not installed at all
  LET st == "set_" \o x
      up == "update_" \o x
  IN IF v = 0 THEN <<>>
     ELSE CASE kind = "set"       -> <<Op(st, v)>>
            [] kind = "update"    -> <<Op(up, v)>>
            [] kind = "lo_update" -> <<Op(st, v \div 2), Op(up, v)>>
            [] kind = "update_lo" -> <<Op(st, v), Op(up, v \div 2)>>
            [] kind = "hi_set"    -> <<Op(up, 2 * v), Op(st, v)>>
StackVal(s, j) == IF j = 1 THEN s[5] ELSE IF j = 2 THEN s[6] ELSE IF j = 3 THEN s[7] ELSE s[8]
StackName(j) == IF j = 1 THEN "ls" ELSE IF j = 2 THEN "la" ELSE IF j = 3 THEN "cs" ELSE "ca"
StackOps(s) == LET p == s[16][1]
                   k == s[16][2]
                   C(j) == Chain(k, StackName(p[j]), StackVal(s, p[j]))
               IN C(1) \o C(2) \o C(3) \o C(4)
DirtyOps(s) == LET ex == Extras(s[4], s)
                   D(g, S) == IF S = {} THEN <<>> ELSE <<OpD(g, S)>>
               IN D(0, GpSet(s[2], s)) \o D(1, VecSet(s[3], s)) \o D(2, ex[1]) \o D(3, ex[2])
AttrOps(s) == LET F(b, name) == IF b THEN <<Op(name, 0)>> ELSE <<>>
                  sa == IF s[13] = 254 THEN (IF IsA64(s) THEN 29 ELSE 5) ELSE s[13]
              IN F(s[9] = 1, "set_fp") \o F(s[10] >= 1, "set_avx") \o F(s[10] >= 2, "set_avx512") \o F(s[11][1] = 1, "set_mmx")
                 \o F(s[11][2] = 1, "set_avxc") \o F(s[11][2] = 2, "set_avxauto") \o F(s[14] = 1, "set_calls") \o F(s[15] = 1, "set_ibt")
                 \o (IF sa = 255 \/ (s[13] = 254 /\ s[9] = 0) THEN <<>> ELSE <<Op("set_sa", sa)>>)
Ops(s) == IF s[16][3] = "first" THEN AttrOps(s) \o DirtyOps(s) \o StackOps(s) ELSE DirtyOps(s) \o StackOps(s) \o AttrOps(s)

Cfg(s) ==
  LET ex == Extras(s[4], s) IN
  << s[1][1], s[1][2], s[12], Sorted(ex[3]), Sorted(ex[4]), Sorted(ex[5]), Ops(s) >>
(* field order of the printed tuple (checks/c07.py zips it with these names):  env cc nargs cp_vec cp_k cp_mm ops *)

(* DESIGN CHECK (every enumerated sequence, i.e. every order and every set/update shape): by the setters' contract  *)
(* (FrameSetters!EffOf) the generated call sequence promises exactly the values of the value dimensions.           *)
OpRec(t) == [op |-> t[1], a |-> t[2], g |-> t[3], ids |-> t[4]]
Consistent ==
  Len(c) = NDims =>
    LET ops == Ops(c)
        e == EffOf([j \in 1..Len(ops) |-> OpRec(ops[j])])
        ex == Extras(c[4], c)
    IN /\ e.ls = c[5] /\ e.la = c[6] /\ e.cs = c[7] /\ e.ca = c[8] /\ e.fp = c[9] /\ e.calls = c[14]
       /\ e.d = <<GpSet(c[2], c), VecSet(c[3], c), ex[1], ex[2]>>

Export == Len(c) = NDims => PrintT(<<"CFG", Cfg(c)>>)
=============================================================================
