----------------------------- MODULE FrameConfigs -----------------------------
(* C07 - the configuration space handed to the real FuncDetail/FuncFrame/emit_prolog/emit_epilog.           *)
(* A configuration is built dimension by dimension (one step per dimension), so that                        *)
(*   - TLC model checking enumerates the full cross product of the profile's domains, and                   *)
(*   - TLC -simulate draws uniformly random configurations from the "wide" profile (depth = NDims).         *)
(* Every completed configuration is printed (PrintT <<"CFG", ...>>) and replayed on the real code.          *)
EXTENDS Integers, Sequences, FiniteSets, TLC, SequencesExt

CONSTANT Profile          \* "quick" | "thorough" | "wide"

VARIABLE c                \* choices made so far (sequence), c[1] = <<env, cc>>
vars == <<c>>

(* environment x calling convention: every convention of every architecture asmjit materialises differently *)
EnvCC == { <<"x64-sysv", "cdecl">>, <<"x64-sysv", "x64win">>, <<"x64-sysv", "vectorcall">>,
           <<"x64-sysv", "lightcall2">>, <<"x64-sysv", "lightcall4">>,
           <<"x64-win", "cdecl">>, <<"x64-win", "stdcall">>,
           <<"x86-sysv", "cdecl">>, <<"x86-sysv", "regparm3">>, <<"x86-sysv", "lightcall3">>,
           <<"x86-win", "cdecl">>, <<"x86-win", "stdcall">>, <<"x86-win", "fastcall">>, <<"x86-win", "thiscall">>,
           <<"x86-win", "vectorcall">>,
           <<"a64-aapcs", "cdecl">>, <<"a64-aapcs", "lightcall2">>, <<"a64-apple", "cdecl">> }

(* the quick profile skips pairs whose frames differ from a kept pair only in the argument registers *)
QuickSkip == { <<"x64-sysv", "lightcall4">>, <<"x64-win", "stdcall">>, <<"x86-win", "cdecl">>, <<"a64-apple", "cdecl">>,
               <<"x86-win", "thiscall">>, <<"x86-sysv", "regparm3">> }

Env(cc) == cc[1][1]
IsX86(cc) == Env(cc) \in {"x86-sysv", "x86-win"}
IsX64(cc) == Env(cc) \in {"x64-sysv", "x64-win"}
IsA64(cc) == Env(cc) \in {"a64-aapcs", "a64-apple"}

NDims == 15
DimNames == <<"envcc", "dgp", "dvec", "extras", "ls", "la", "cs", "ca", "fp", "avx", "cleanup", "nargs", "sa", "calls", "ibt">>

(* domains per profile; `s` = choices so far *)
Dom(d, s) ==
  LET q == Profile = "quick"
      t == Profile = "thorough"
      n == DimNames[d]
  IN
  CASE n = "envcc"   -> IF q THEN EnvCC \ QuickSkip ELSE EnvCC
    [] n = "dgp"     -> IF q THEN {"none", "all"} ELSE IF t THEN {"none", "lo", "all"}
                        ELSE {"none", "lo", "hi", "alt", "odd", "all", "pres"}
    [] n = "dvec"    -> IF q \/ t THEN {"none", "all"}
                        ELSE {"none", "lo", "hi", "alt", "all", "all32"}
    [] n = "extras"  -> IF IsA64(s) THEN {"none"}
                        ELSE IF q THEN {"none", "cust1"} ELSE IF t THEN {"none", "cust1", "cust2", "cust4"}
                        ELSE {"none", "kmm", "cust1", "cust2", "cust3", "cust4"}
    [] n = "ls"      -> IF q THEN {0, 40} ELSE IF t THEN {0, 8, 4104} ELSE {0, 1, 8, 24, 40, 4096, 4104, 65528}
    [] n = "la"      -> IF q THEN {0, 64} ELSE IF t THEN {0, 8, 32} ELSE {0, 1, 4, 8, 16, 32, 64}
    [] n = "cs"      -> IF q THEN {0, 32} ELSE IF t THEN {0, 40} ELSE {0, 8, 32, 100}
    [] n = "ca"      -> IF q \/ t THEN {0} ELSE {0, 16, 32, 64}
    [] n = "fp"      -> {0, 1}
    [] n = "avx"     -> IF IsA64(s) THEN {0} ELSE IF q THEN {0, 1} ELSE {0, 1, 2}
    [] n = "cleanup" -> IF IsA64(s) \/ q \/ t THEN {<<0, 0>>}
                        ELSE {<<0, 0>>, <<1, 0>>, <<0, 1>>, <<0, 2>>, <<1, 2>>}       \* <<emms, vzeroupper mode>>
    [] n = "nargs"   -> IF q \/ t THEN {10} ELSE {0, 3, 10, 14}
    [] n = "sa"      -> (IF s[9] = 1 THEN {255, 254} ELSE {255})
                        \cup (IF IsA64(s) \/ q THEN {} ELSE IF t THEN {0} ELSE {0, 3, 6})
                        \* stack-arguments base register: 255 = let the frame decide; 254 = the frame pointer (what
                        \* FuncArgsAssignment::update_func_frame picks when FP is preserved); else rax / rbx / rsi
    [] n = "calls"   -> IF q \/ t THEN {IF s[7] > 0 THEN 1 ELSE 0} ELSE (IF s[7] > 0 THEN {1} ELSE {0, 1})
    [] n = "ibt"     -> IF q \/ t THEN {0} ELSE {0, 1}

Init == c = <<>>
Next == /\ Len(c) < NDims
        /\ \E v \in Dom(Len(c) + 1, c) : c' = Append(c, v)
Spec == Init /\ [][Next]_vars

------------------------------------------------------------------------------
(* expansion of the register-set classes *)
Sorted(S) == SetToSortSeq(S, LAMBDA a, b : a < b)

GpAll(s)  == IF IsX86(s) THEN (0..7) \ {4} ELSE IF IsX64(s) THEN (0..15) \ {4} ELSE 0..30
GpPres(s) == IF IsX86(s) THEN {3, 5, 6, 7} ELSE IF IsX64(s) THEN {3, 5, 6, 7, 12, 13, 14, 15} ELSE 19..30
GpSet(cls, s) ==
  CASE cls = "none" -> {}
    [] cls = "lo"   -> IF IsA64(s) THEN {19} ELSE {3}
    [] cls = "hi"   -> IF IsX86(s) THEN {7} ELSE IF IsX64(s) THEN {15} ELSE {28}
    [] cls = "alt"  -> {r \in GpAll(s) : r % 2 = 0}
    [] cls = "odd"  -> {r \in GpAll(s) : r % 2 = 1}
    [] cls = "all"  -> GpAll(s)
    [] cls = "pres" -> GpPres(s)

VecAll(s) == IF IsX86(s) THEN 0..7 ELSE IF IsX64(s) THEN 0..15 ELSE 0..31
VecSet(cls, s) ==
  CASE cls = "none" -> {}
    [] cls = "lo"   -> IF IsA64(s) THEN {8} ELSE {6}
    [] cls = "hi"   -> IF IsX86(s) THEN {7} ELSE {15}
    [] cls = "alt"  -> {r \in VecAll(s) : r % 2 = 0}
    [] cls = "all"  -> VecAll(s)
    [] cls = "all32" -> IF IsX86(s) THEN 0..7 ELSE 0..31

(* extras = <<dirty k, dirty mm, custom-preserved vec, custom-preserved k, custom-preserved mm>> *)
Extras(cls, s) ==
  CASE cls = "none"  -> <<{}, {}, {}, {}, {}>>
    [] cls = "kmm"   -> <<{1, 2}, {0, 3}, {}, {}, {}>>                       \* clobbered, nothing to save
    [] cls = "cust1" -> <<{1}, {}, (IF IsX86(s) THEN {6, 7} ELSE {8, 9}), {1}, {}>>   \* vector + one mask register to save
    [] cls = "cust4" -> <<{}, {0, 5}, (IF IsX86(s) THEN {6, 7} ELSE {8, 9}), {}, {0, 5}>>  \* vector + two MM registers
    [] cls = "cust2" -> <<{1, 2, 7}, {0, 5}, (IF IsX86(s) THEN {6, 7} ELSE {8, 9}), {1, 2, 7}, {0, 5}>>
    [] cls = "cust3" -> <<{}, {}, {2, 4, 5}, {}, {}>>                          \* user convention preserving xmm2/4/5

Cfg(s) ==
  LET ex == Extras(s[4], s) IN
  << s[1][1], s[1][2],
     Sorted(GpSet(s[2], s)), Sorted(VecSet(s[3], s)), Sorted(ex[1]), Sorted(ex[2]),
     s[5], s[6], s[7], s[8], s[9], s[10], s[11][1], s[11][2], s[12],
     (IF s[13] = 254 THEN (IF IsA64(s) THEN 29 ELSE 5) ELSE s[13]), s[14], s[15],
     Sorted(ex[3]), Sorted(ex[4]), Sorted(ex[5]) >>
(* field order of the printed tuple (checks/c07.py zips it with these names):                               *)
(*   env cc d_gp d_vec d_k d_mm ls la cs ca fp avx mmx avxc nargs sa calls ibt cp_vec cp_k cp_mm           *)

Export == Len(c) = NDims => PrintT(<<"CFG", Cfg(c)>>)
=============================================================================
