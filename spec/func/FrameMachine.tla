----------------------------- MODULE FrameMachine -----------------------------
(* C07 - an abstract stack machine that EXECUTES the prolog and epilog instruction lists which the real     *)
(* asmjit emitted for one frame configuration, with an arbitrary function body in between.                  *)
(*                                                                                                          *)
(* An observation O (one line of harness/frame.cpp output) carries                                          *)
(*   O.cfg  the configuration that was handed to the code: environment, convention, and O.cfg.ops = the     *)
(*          SEQUENCE of FuncFrame setter calls executed between init() and finalize().  What the body was   *)
(*          promised (local/call stack size+alignment, clobbered registers, preserved FP, ...) is derived    *)
(*          HERE from that sequence by the setters' documented meaning (Eff)           -- INPUT, ground truth *)
(*   O.cc   the calling convention as the code materialised it        -- used only for asmjit-DEFINED       *)
(*          conventions (LightCall); standard ABIs are tabulated below from the ABI documents               *)
(*   O.fd   stack offsets of stack-passed arguments (FuncDetail; their correctness is C06)                  *)
(*   O.fr   the frame record: every FuncFrame accessor after finalize()                  -- what is DECLARED *)
(*   O.pro, O.epi   instruction lists (mnemonic + operand shapes)                        -- what is EXECUTED *)
(*   O.body, O.slots  Compiler-derived functions only (else empty): the REAL instructions between prolog and *)
(*          epilog, executed in place of the abstract body step, and the home slot of every work register   *)
(*          (base register, offset, size, the stack-passed argument it is bound to) read back from the pass *)
(*                                                                                                          *)
(* Values are symbolic: Entry(r) = content of register r at function entry, RetAddr, Arg(k), Junk, or a     *)
(* concrete integer (stack addresses: the entry SP is concrete, so and/sub/push/pre-index are arithmetic).  *)
(* Memory is a partial function from cell start address to [size, value]; cells never overlap.              *)
(* Only the machine semantics decides: any correct order of saves, any correct choice of instructions or    *)
(* of offsets is accepted.                                                                                   *)
EXTENDS Integers, Sequences, FiniteSets, TLC, FrameSetters

VARIABLES
  esp,    \* entry stack pointer (concrete integer, a nondeterministic initial choice among the ABI's residues)
  reg,    \* <<group, id>> -> [v: value, w: number of low bytes known to equal the low bytes of v]
  mem,    \* cell start address -> [sz: bytes, v: value, w: valid low bytes]
  pcx,    \* index of the next instruction of Prog(O)
  pc,     \* value `ret` jumped to (NoneV before)
  bsp,    \* stack pointer inside the body (-1 before the body ran)
  low,    \* lowest address any prolog/epilog store has touched
  bad     \* faults noted by the machine while executing (set of names)

mvars == <<esp, reg, mem, pcx, pc, bsp, low, bad>>

------------------------------------------------------------------------------
(* Values *)
Entry(k) == [k |-> "E", a |-> k[1], b |-> k[2]]
Junk     == [k |-> "J", a |-> 0, b |-> 0]
IntV(n)  == [k |-> "I", a |-> n, b |-> 0]
RetAddr  == [k |-> "R", a |-> 0, b |-> 0]
ArgV(n)  == [k |-> "A", a |-> n, b |-> 0]
NoneV    == [k |-> "N", a |-> 0, b |-> 0]
IsInt(v) == v.k = "I"

FullW == 64
JunkR    == [v |-> Junk, w |-> 0]
IntR(n)  == [v |-> IntV(n), w |-> 8]

IsPow2(n) == n \in {1, 2, 4, 8, 16, 32, 64, 128, 256, 512, 1024, 2048, 4096}

------------------------------------------------------------------------------
(* The conventions, tabulated from the ABI documents (System V AMD64 psABI 3.2.1/3.2.3; Microsoft x64        *)
(* "caller/callee saved registers" + "stack allocation"; i386 cdecl/stdcall/fastcall/thiscall/vectorcall;   *)
(* AAPCS64 6.1.1/6.1.2/6.4.1).  Keyed by the INPUT names, not by anything asmjit derived.                   *)
IsX86(c)  == c.env \in {"x86-sysv", "x86-win"}
IsX64(c)  == c.env \in {"x64-sysv", "x64-win"}
IsA64(c)  == c.env \in {"a64-aapcs", "a64-apple"}
IsLight(c) == c.cc \in {"lightcall2", "lightcall3", "lightcall4"}
Universal == {"cdecl", "stdcall", "fastcall", "thiscall", "regparm1", "regparm2", "regparm3"}
Win64Like(c) == IsX64(c) /\ (c.cc \in {"x64win", "vectorcall"} \/ (c.env = "x64-win" /\ c.cc \in Universal))
SysVLike(c)  == IsX64(c) /\ ~Win64Like(c) /\ ~IsLight(c)

RegSize(c) == IF IsX86(c) THEN 4 ELSE 8
RetSize(c) == IF IsA64(c) THEN 0 ELSE RegSize(c)       \* the return address is on the stack on x86 only
SpId(c) == IF IsA64(c) THEN 31 ELSE 4
FpId(c) == IF IsA64(c) THEN 29 ELSE 5
LrId(c) == 30

(* callee-saved registers (without the stack pointer) and the number of low bytes that must survive *)
StdPreserved(c) ==
  IF IsX86(c) THEN [gp |-> {3, 5, 6, 7}, vec |-> {}]
  ELSE IF SysVLike(c) THEN [gp |-> {3, 5, 12, 13, 14, 15}, vec |-> {}]
  ELSE IF Win64Like(c) THEN [gp |-> {3, 5, 6, 7, 12, 13, 14, 15}, vec |-> 6..15]
  ELSE [gp |-> 19..29, vec |-> 8..15]                    \* AAPCS64: x19-x28, x29; low 64 bits of v8-v15

(* O.cfg.cp = registers a user-defined convention ADDS to the preserved sets (vec, k, mm) *)
PresSet(O, g) ==
  LET c == O.cfg
      base == IF IsLight(c) THEN ToSet(O.cc.pres[g + 1]) \ (IF g = 0 THEN {SpId(c)} ELSE {})
              ELSE IF g = 0 THEN StdPreserved(c).gp
              ELSE IF g = 1 THEN StdPreserved(c).vec
              ELSE {}
  IN base \cup ToSet(c.cp[g + 1])
PresRegs(O) == UNION {{<<g, id>> : id \in PresSet(O, g)} : g \in 0..3}
PresWidth(O, g) ==
  LET c == O.cfg IN
  IF IsLight(c) THEN O.cc.srsize[g + 1]                  \* asmjit-defined convention: its own declaration
  ELSE IF g = 0 THEN RegSize(c)
  ELSE IF g = 1 THEN (IF IsA64(c) THEN 8 ELSE 16)
  ELSE 8

(* x86-32: 4 (what the 32-bit conventions themselves guarantee).  The Compiler raises a function's convention to *)
(* the ENVIRONMENT's stack alignment (BaseCompiler::new_func_node); for Linux/i386 that is 16 (psABI 2.2.2).     *)
NatAlign(O) == LET c == O.cfg IN
  IF IsLight(c) THEN O.cc.nat
  ELSE IF IsX86(c) THEN (IF c.src = "compiler" /\ c.env = "x86-sysv" THEN 16 ELSE 4)
  ELSE 16
AbiRed(O)   == IF SysVLike(O.cfg) THEN 128 ELSE 0          \* bytes below SP the callee may use
AbiSpill(O) == IF Win64Like(O.cfg) THEN 32 ELSE 0          \* bytes above the return address the callee may use
CalleePops(O) == LET c == O.cfg IN
  IsX86(c) /\ (c.cc \in {"stdcall", "fastcall", "vectorcall"} \/ (c.cc = "thiscall" /\ c.env = "x86-win"))
PopBytes(O) == IF CalleePops(O) THEN O.fd.argstack ELSE 0

(* the contract of the setters (set_* assigns, update_* takes the maximum, ...) is FrameSetters!EffOf *)
Eff(O) == EffOf(O.cfg.ops)

(* what the body was promised *)
Promised(O) == LET e == Eff(O) IN Max2(NatAlign(O), Max2(e.la, e.ca))
CallAlign(O) == LET e == Eff(O) IN Max2(NatAlign(O), e.ca)     \* at a call site
NeedAlign(O) == LET e == Eff(O) IN e.ls > 0 \/ e.cs > 0 \/ e.calls = 1

------------------------------------------------------------------------------
(* Program and register universe *)
BodyIns == [m |-> "BODY", o |-> <<>>]
Prog(O) == O.pro \o <<BodyIns>> \o O.body \o O.epi

SPK(O) == <<0, SpId(O.cfg)>>
FPK(O) == <<0, FpId(O.cfg)>>
LRK(O) == <<0, LrId(O.cfg)>>
RK(o) == <<o.g, o.id>>
BK(o) == <<0, o.id>>

Mentioned(ins) == UNION {IF ins.o[j].t = "r" THEN {RK(ins.o[j])} ELSE IF ins.o[j].t = "m" THEN {BK(ins.o[j])} ELSE {} : j \in 1..Len(ins.o)}
RegDom(O) == LET P == Prog(O) IN
  UNION {Mentioned(P[n]) : n \in 1..Len(P)} \cup PresRegs(O) \cup {SPK(O), FPK(O)}
    \cup (IF IsA64(O.cfg) THEN {LRK(O)} ELSE {}) \cup (IF O.fr.sa_reg < 32 THEN {<<0, O.fr.sa_reg>>} ELSE {})

DirtyRegs(O) == LET e == Eff(O) IN UNION {{<<g, id>> : id \in e.d[g + 1] \cup ToSet(O.fr.dirty[g + 1])} : g \in 0..3}

------------------------------------------------------------------------------
(* Memory *)
Cell(r, sz) == [sz |-> sz, v |-> r.v, w |-> Min2(r.w, sz)]
Overlap(a, s, b, t) == a < b + t /\ b < a + s
Store(m, addr, c) ==
  LET keep == {a \in DOMAIN m : ~Overlap(a, m[a].sz, addr, c.sz)}
  IN [a \in keep \cup {addr} |-> IF a = addr THEN c ELSE m[a]]
Load(m, addr, sz) ==
  IF addr \in DOMAIN m /\ m[addr].sz >= sz THEN [v |-> m[addr].v, w |-> Min2(m[addr].w, sz)] ELSE JunkR
JunkRange(m, lo, hi) ==       \* the body overwrites [lo, hi)
  [a \in DOMAIN m |-> IF lo < hi /\ Overlap(a, m[a].sz, lo, hi - lo) THEN [sz |-> m[a].sz, v |-> Junk, w |-> 0] ELSE m[a]]

(* A store of the function may touch neither the return address nor the caller's frame, nor - once the body  *)
(* is reached - anything below the body's SP.  Two exceptions the ABI grants: the home/spill area, and the    *)
(* function's OWN incoming stack argument slots - but a store must stay inside ONE such slot (the argument's  *)
(* type size rounded up to the stack slot unit): it may not run into the neighbouring argument.               *)
AlignUp(n, a) == ((n + a - 1) \div a) * a
ArgSlotSize(O, k) == AlignUp(Max2(O.fd.stackargsz[k], 1), RegSize(O.cfg))
InOwnArgSlot(O, E, addr, sz) ==
  \E k \in 1..Len(O.fd.stackargs) :
     LET lo == E + RetSize(O.cfg) + O.fd.stackargs[k] IN addr >= lo /\ addr + sz <= lo + ArgSlotSize(O, k)
StoreFaults(O, st, addr, sz) ==
  (IF addr + sz > st.esp /\ ~(addr >= st.esp + RetSize(O.cfg) /\ addr + sz <= st.esp + RetSize(O.cfg) + AbiSpill(O))
      /\ ~InOwnArgSlot(O, st.esp, addr, sz)
     THEN {"StoreOutside"} ELSE {})
  \cup (IF st.bsp # -1 /\ addr < st.bsp - AbiRed(O) THEN {"StoreBelow"} ELSE {})

------------------------------------------------------------------------------
(* Instruction semantics.  `st` is the record of all machine variables.                                     *)
SetReg(st, k, r) == [st EXCEPT !.reg = [st.reg EXCEPT ![k] = r]]
Fault(st, f) == [st EXCEPT !.bad = st.bad \cup {f}]
DoStore(O, st, addr, sz, r) ==
  [st EXCEPT !.mem = Store(st.mem, addr, Cell(r, sz)), !.low = Min2(st.low, addr),
             !.bad = st.bad \cup StoreFaults(O, st, addr, sz)]

NoOps == {"emms", "endbr32", "endbr64", "bti", "nop"}
MovLike == {"mov", "movaps", "movups", "vmovaps", "vmovups", "movapd", "movupd", "vmovapd", "vmovupd",
            "movdqa", "movdqu", "vmovdqa", "vmovdqu", "vmovdqa32", "vmovdqu32", "vmovdqa64", "vmovdqu64",
            "kmovb", "kmovw", "kmovd", "kmovq", "movq", "movd", "vmovq", "vmovd", "movss", "movsd", "vmovss", "vmovsd"}
(* register/memory arithmetic of real function bodies: the result is an uninterpreted value (Junk); what matters *)
(* is WHERE it is written                                                                                        *)
AluOps == {"add", "sub", "and", "or", "xor", "imul", "paddd", "vpaddd", "pxor", "vpxor", "addps", "addpd", "addss", "addsd",
           "vaddps", "vaddpd", "vaddss", "vaddsd", "xorps", "vxorps"}
AlignedMov == {"movaps", "vmovaps", "movapd", "vmovapd", "movdqa", "vmovdqa", "vmovdqa32", "vmovdqa64"}
FixedSize(m) == IF m = "kmovb" THEN 1 ELSE IF m = "kmovw" THEN 2 ELSE IF m \in {"kmovd", "movd", "vmovd", "movss", "vmovss"} THEN 4
                ELSE IF m \in {"kmovq", "movq", "vmovq", "movsd", "vmovsd"} THEN 8 ELSE 0
OpSize(m, r, mo) == IF FixedSize(m) > 0 THEN FixedSize(m) ELSE IF mo.sz > 0 THEN mo.sz ELSE r.sz
AlignFault(m, addr, sz) == IF m \in AlignedMov /\ sz > 0 /\ addr % sz # 0 THEN {"MisalignedVec"} ELSE {}

X86Exec(O, st, ins) ==
  LET m == ins.m
      ops == ins.o
      n == Len(ops)
      sp == st.reg[SPK(O)].v
      rs == RegSize(O.cfg)
  IN
  IF \E j \in 1..n : ops[j].x THEN Fault(st, "Unknown")
  ELSE IF m \in NoOps THEN st
  ELSE IF m = "vzeroupper" THEN
    [st EXCEPT !.reg = [k \in DOMAIN st.reg |-> IF k[1] = 1 THEN [v |-> st.reg[k].v, w |-> Min2(st.reg[k].w, 16)] ELSE st.reg[k]]]
  ELSE IF m = "push" /\ n = 1 /\ ops[1].t = "r" THEN
    IF ~IsInt(sp) THEN Fault(st, "BadAddress")
    ELSE LET a == sp.a - ops[1].sz IN SetReg(DoStore(O, st, a, ops[1].sz, st.reg[RK(ops[1])]), SPK(O), IntR(a))
  ELSE IF m = "pop" /\ n = 1 /\ ops[1].t = "r" THEN
    IF ~IsInt(sp) THEN Fault(SetReg(st, RK(ops[1]), JunkR), "BadAddress")
    ELSE SetReg(SetReg(st, SPK(O), IntR(sp.a + ops[1].sz)), RK(ops[1]), Load(st.mem, sp.a, ops[1].sz))
  ELSE IF m \in MovLike /\ n = 2 /\ ops[1].t = "r" /\ ops[2].t = "r" THEN
    LET sz == IF FixedSize(m) > 0 THEN FixedSize(m) ELSE ops[1].sz
        s == st.reg[RK(ops[2])]
    IN SetReg(st, RK(ops[1]), [v |-> s.v, w |-> Min2(s.w, sz)])
  ELSE IF m = "mov" /\ n = 2 /\ ops[1].t = "r" /\ ops[2].t = "i" THEN SetReg(st, RK(ops[1]), IntR(ops[2].off))
  ELSE IF m \in MovLike /\ n = 2 /\ ops[1].t = "r" /\ ops[2].t = "m" THEN
    LET b == st.reg[BK(ops[2])].v
        sz == OpSize(m, ops[1], ops[2])
    IN IF sz = 0 THEN Fault(st, "Unknown")
       ELSE IF ~IsInt(b) THEN Fault(SetReg(st, RK(ops[1]), JunkR), "BadAddress")
       ELSE [SetReg(st, RK(ops[1]), Load(st.mem, b.a + ops[2].off, sz)) EXCEPT !.bad = @ \cup AlignFault(m, b.a + ops[2].off, sz)]
  ELSE IF m \in MovLike /\ n = 2 /\ ops[1].t = "m" /\ ops[2].t = "r" THEN
    LET b == st.reg[BK(ops[1])].v
        sz == OpSize(m, ops[2], ops[1])
    IN IF sz = 0 THEN Fault(st, "Unknown")
       ELSE IF ~IsInt(b) THEN Fault(st, "BadAddress")
       ELSE [DoStore(O, st, b.a + ops[1].off, sz, st.reg[RK(ops[2])]) EXCEPT !.bad = @ \cup AlignFault(m, b.a + ops[1].off, sz)]
  ELSE IF m = "lea" /\ n = 2 /\ ops[1].t = "r" /\ ops[2].t = "m" THEN
    LET b == st.reg[BK(ops[2])].v
    IN SetReg(st, RK(ops[1]), IF IsInt(b) THEN IntR(b.a + ops[2].off) ELSE JunkR)
  ELSE IF m \in {"add", "sub", "and"} /\ n = 2 /\ ops[1].t = "r" /\ ops[2].t = "i" THEN
    LET c == st.reg[RK(ops[1])].v
        i == ops[2].off
    IN SetReg(st, RK(ops[1]),
         IF ~IsInt(c) THEN JunkR
         ELSE IF m = "add" THEN IntR(c.a + i)
         ELSE IF m = "sub" THEN IntR(c.a - i)
         ELSE IF i < 0 /\ IsPow2(-i) THEN IntR(c.a - (c.a % (-i)))
         ELSE JunkR)
  ELSE IF m = "ret" /\ (n = 0 \/ (n = 1 /\ ops[1].t = "i")) THEN
    IF ~IsInt(sp) THEN Fault([st EXCEPT !.pc = Junk], "BadAddress")
    ELSE LET r == Load(st.mem, sp.a, rs)
             imm == IF n = 1 THEN ops[1].off ELSE 0
         IN [SetReg(st, SPK(O), IntR(sp.a + rs + imm)) EXCEPT !.pc = IF r.w >= rs THEN r.v ELSE Junk]
  ELSE IF m \in AluOps /\ n >= 2 /\ ops[1].t = "r" /\ (\A j \in 2..n : ops[j].t \in {"r", "i", "m"}) THEN
    SetReg(st, RK(ops[1]), JunkR)                               \* (a memory source is only read)
  ELSE IF m \in AluOps /\ n = 2 /\ ops[1].t = "m" /\ ops[2].t \in {"r", "i"} THEN      \* read-modify-write of a memory cell
    LET b == st.reg[BK(ops[1])].v
        sz == IF ops[1].sz > 0 THEN ops[1].sz ELSE ops[2].sz
    IN IF sz = 0 THEN Fault(st, "Unknown")
       ELSE IF ~IsInt(b) THEN Fault(st, "BadAddress")
       ELSE DoStore(O, st, b.a + ops[1].off, sz, JunkR)
  ELSE IF m = "call" /\ n = 1 THEN       \* a callee of the function's own convention: clobbers what that convention does not preserve
    IF ~IsInt(sp) THEN Fault(st, "BadAddress")
    ELSE LET pres == PresRegs(O)
         IN [st EXCEPT !.reg = [k \in DOMAIN st.reg |-> IF k = SPK(O) \/ k \in pres THEN st.reg[k] ELSE JunkR],
                       !.mem = JunkRange(st.mem, sp.a, sp.a + Eff(O).cs)]
  ELSE Fault(st, "Unknown")

(* AArch64 immediate/offset ranges (Arm ARM C6.2: LDP/STP imm7 scaled; LDR/STR imm12 scaled or imm9;        *)
(* ADD/SUB imm12 optionally shifted by 12)                                                                   *)
PairRangeOk(off, sz) == off % sz = 0 /\ off >= -64 * sz /\ off <= 63 * sz
SingleRangeOk(off, sz, mode) ==
  IF mode = 0 THEN (off >= 0 /\ off % sz = 0 /\ off \div sz <= 4095) \/ (off >= -256 /\ off <= 255)
  ELSE off >= -256 /\ off <= 255
AddImmOk(i) == (i >= 0 /\ i <= 4095) \/ (i >= 0 /\ i % 4096 = 0 /\ i \div 4096 <= 4095)

A64Exec(O, st, ins) ==
  LET m == ins.m
      ops == ins.o
      n == Len(ops)
  IN
  IF \E j \in 1..n : ops[j].x THEN Fault(st, "Unknown")
  ELSE IF m \in NoOps THEN st
  ELSE IF m \in {"stp", "ldp"} /\ n = 3 /\ ops[1].t = "r" /\ ops[2].t = "r" /\ ops[3].t = "m" /\ ops[1].sz = ops[2].sz /\ ops[1].sz > 0 THEN
    LET mo == ops[3]
        sz == ops[1].sz
        b == st.reg[BK(mo)].v
        addr == IF mo.mode = 2 THEN b.a ELSE b.a + mo.off
        rng == IF PairRangeOk(mo.off, sz) THEN {} ELSE {"A64Range"}
    IN IF ~IsInt(b) THEN Fault(IF m = "ldp" THEN SetReg(SetReg(st, RK(ops[1]), JunkR), RK(ops[2]), JunkR) ELSE st, "BadAddress")
       ELSE LET st1 == IF m = "stp"
                       THEN DoStore(O, DoStore(O, st, addr, sz, st.reg[RK(ops[1])]), addr + sz, sz, st.reg[RK(ops[2])])
                       ELSE SetReg(SetReg(st, RK(ops[1]), Load(st.mem, addr, sz)), RK(ops[2]), Load(st.mem, addr + sz, sz))
                st2 == IF mo.mode \in {1, 2} THEN SetReg(st1, BK(mo), IntR(b.a + mo.off)) ELSE st1
            IN [st2 EXCEPT !.bad = @ \cup rng]
  ELSE IF m \in {"str", "ldr"} /\ n = 2 /\ ops[1].t = "r" /\ ops[2].t = "m" /\ ops[1].sz > 0 THEN
    LET mo == ops[2]
        sz == ops[1].sz
        b == st.reg[BK(mo)].v
        addr == IF mo.mode = 2 THEN b.a ELSE b.a + mo.off
        rng == IF SingleRangeOk(mo.off, sz, mo.mode) THEN {} ELSE {"A64Range"}
    IN IF ~IsInt(b) THEN Fault(IF m = "ldr" THEN SetReg(st, RK(ops[1]), JunkR) ELSE st, "BadAddress")
       ELSE LET st1 == IF m = "str" THEN DoStore(O, st, addr, sz, st.reg[RK(ops[1])])
                       ELSE SetReg(st, RK(ops[1]), Load(st.mem, addr, sz))
                st2 == IF mo.mode \in {1, 2} THEN SetReg(st1, BK(mo), IntR(b.a + mo.off)) ELSE st1
            IN [st2 EXCEPT !.bad = @ \cup rng]
  ELSE IF m = "mov" /\ n = 2 /\ ops[1].t = "r" /\ ops[2].t = "r" THEN
    LET s == st.reg[RK(ops[2])] IN SetReg(st, RK(ops[1]), [v |-> s.v, w |-> Min2(s.w, ops[1].sz)])
  ELSE IF m = "mov" /\ n = 2 /\ ops[1].t = "r" /\ ops[2].t = "i" THEN SetReg(st, RK(ops[1]), IntR(ops[2].off))
  ELSE IF m \in {"add", "sub"} /\ n = 3 /\ ops[1].t = "r" /\ ops[2].t = "r" /\ ops[3].t = "i" THEN
    LET c == st.reg[RK(ops[2])].v
        i == ops[3].off
        rng == IF AddImmOk(i) THEN {} ELSE {"A64Range"}
    IN [SetReg(st, RK(ops[1]), IF ~IsInt(c) THEN JunkR ELSE IF m = "add" THEN IntR(c.a + i) ELSE IntR(c.a - i))
          EXCEPT !.bad = @ \cup rng]
  ELSE IF m = "and" /\ n = 3 /\ ops[1].t = "r" /\ ops[2].t = "r" /\ ops[3].t = "i" THEN
    LET c == st.reg[RK(ops[2])].v
        i == ops[3].off
    IN SetReg(st, RK(ops[1]), IF IsInt(c) /\ i < 0 /\ IsPow2(-i) THEN IntR(c.a - (c.a % (-i))) ELSE JunkR)
  ELSE IF m = "ret" /\ n = 1 /\ ops[1].t = "r" THEN
    LET r == st.reg[RK(ops[1])] IN [st EXCEPT !.pc = IF r.w >= 8 THEN r.v ELSE Junk]
  ELSE Fault(st, "Unknown")

(* The body: ONE step standing for every body that stays inside what the frame declares.  It clobbers every  *)
(* register that is dirty or not callee-saved (never SP; never FP when the frame pointer is preserved; the    *)
(* AArch64 link register only when it is declared dirty), and overwrites the whole local area, the whole     *)
(* call area, the red zone and the spill zone.                                                                *)
BodyExec(O, st) ==
  LET c == O.cfg
      F == O.fr
      S == st.reg[SPK(O)].v
      e == Eff(O)
      dirty == DirtyRegs(O)
      pres == PresRegs(O)
      keepReg(k) == \/ k = SPK(O)
                    \/ (e.fp = 1 /\ k = FPK(O))
                    \/ (k \in pres /\ k \notin dirty)
                    \/ (IsA64(c) /\ k = LRK(O) /\ k \notin dirty)   \* a leaf body leaves the link register alone
      regs == [k \in DOMAIN st.reg |-> IF keepReg(k) THEN st.reg[k] ELSE JunkR]
  IN IF ~IsInt(S) THEN Fault([st EXCEPT !.reg = regs, !.bsp = 0], "BadAddress")
     ELSE IF Len(O.body) > 0 THEN [st EXCEPT !.bsp = S.a]       \* the real body follows: nothing is abstracted
     ELSE LET m1 == JunkRange(st.mem, S.a + F.local_off, S.a + F.local_off + e.ls)
              m2 == JunkRange(m1, S.a, S.a + e.cs)
              m3 == JunkRange(m2, S.a - F.red, S.a)
              m4 == JunkRange(m3, st.esp + RetSize(c), st.esp + RetSize(c) + F.spill)
          IN [st EXCEPT !.reg = regs, !.mem = m4, !.bsp = S.a]

------------------------------------------------------------------------------
(* State machine.  The same step function serves the small-step behaviour (MInit/MNext: one TLC state per   *)
(* instruction, used to confirm a failure and print its trace) and the big-step run (MRunNext: the only     *)
(* successors of an initial state are the state at the body and the state after the last instruction; faults *)
(* noted on the way are accumulated in `bad`, so the invariants see everything).                              *)
St == [esp |-> esp, reg |-> reg, mem |-> mem, pcx |-> pcx, pc |-> pc, bsp |-> bsp, low |-> low, bad |-> bad]

(* "Error": the code refused a configuration of the property's domain (nothing to execute).                  *)
(* "NotEncodable": an Assembler refused what emit_prolog/emit_epilog put into the Builder.                    *)
ErrFaults(O) ==
  (IF \A f \in {"fd", "fi", "fin", "pro", "epi"} : O.err[f] = "Ok" THEN {} ELSE {"Error"})
  \cup (IF O.err.enc = "Ok" THEN {} ELSE {"NotEncodable"})

(* entry SP: every residue mod 64 the convention allows - the stack is aligned to the natural alignment      *)
(* immediately before the call (x86: the call then pushed the return address)                                 *)
Base == 1048576
EntrySPs(O) == {Base + r : r \in {x \in 0..63 : (x + RetSize(O.cfg)) % NatAlign(O) = 0}}

CallerCells(O, E) ==
  LET c == O.cfg
      rs == RegSize(c)
      A == O.fd.stackargs
      ret == IF RetSize(c) > 0 THEN {E} ELSE {}
      args == {E + RetSize(c) + A[k] : k \in 1..Len(A)}
  IN [a \in ret \cup args |->
        IF a \in ret THEN [sz |-> rs, v |-> RetAddr, w |-> rs]
        ELSE [sz |-> rs, v |-> ArgV(CHOOSE k \in 1..Len(A) : E + RetSize(c) + A[k] = a), w |-> rs]]

InitSt(O, E) ==
  [esp |-> E,
   reg |-> [k \in RegDom(O) |-> IF k = SPK(O) THEN IntR(E) ELSE [v |-> Entry(k), w |-> FullW]],
   mem |-> CallerCells(O, E),
   pcx |-> 1, pc |-> NoneV, bsp |-> -1, low |-> E, bad |-> ErrFaults(O)]

RunningSt(O, s) == s.pcx <= Len(Prog(O)) /\ s.pc = NoneV /\ "Unknown" \notin s.bad /\ "Error" \notin s.bad

StepSt(O, s) ==
  LET ins == Prog(O)[s.pcx]
      nst == IF ins.m = "BODY" THEN BodyExec(O, s)
             ELSE IF IsA64(O.cfg) THEN A64Exec(O, s, ins) ELSE X86Exec(O, s, ins)
  IN [nst EXCEPT !.pcx = s.pcx + 1]

RECURSIVE RunTo(_, _, _)
RunTo(O, s, stop) == IF s.pcx >= stop \/ ~RunningSt(O, s) THEN s ELSE RunTo(O, StepSt(O, s), stop)

Assign(s) == /\ esp = s.esp /\ reg = s.reg /\ mem = s.mem /\ pcx = s.pcx
             /\ pc = s.pc /\ bsp = s.bsp /\ low = s.low /\ bad = s.bad

MInit(O, E) == Assign(InitSt(O, E))

Running(O) == RunningSt(O, St)
AssignNext(s) == /\ reg' = s.reg /\ mem' = s.mem /\ pcx' = s.pcx /\ pc' = s.pc /\ bsp' = s.bsp
                 /\ low' = s.low /\ bad' = s.bad /\ UNCHANGED esp
MNext(O) == Running(O) /\ AssignNext(StepSt(O, St))
MRunNext(O) == /\ Running(O)
               /\ AssignNext(RunTo(O, St, IF pcx < Len(O.pro) + 1 THEN Len(O.pro) + 1 ELSE Len(Prog(O)) + 1))

------------------------------------------------------------------------------
(* THE PROPERTY *)
AtBody(O) == pcx = Len(O.pro) + 1 /\ pc = NoneV
Done(O) == ~Running(O)
SpNow(O) == reg[SPK(O)].v

(* the check itself must understand every emitted instruction (violated => the CHECK is broken) *)
Understood(O) == "Unknown" \notin bad

(* configurations of the property's domain are accepted, and what was emitted can be encoded *)
Accepted(O) == "Error" \notin bad /\ "NotEncodable" \notin bad /\ "A64Range" \notin bad

(* SP and every address used are defined at every step *)
SpDefined(O) == "BadAddress" \notin bad /\ IsInt(SpNow(O))

(* prolog/epilog stores stay inside the frame *)
NoWriteOutsideFrame(O) ==
  /\ "StoreOutside" \notin bad
  /\ "StoreBelow" \notin bad
  /\ (AtBody(O) /\ IsInt(SpNow(O)) => low >= SpNow(O).a - AbiRed(O))

(* inside the body SP (and the local area) has the promised alignment for EVERY entry residue; aligned moves *)
(* really hit aligned addresses                                                                               *)
AlignedInBody(O) ==
  /\ "MisalignedVec" \notin bad
  /\ (AtBody(O) /\ IsInt(SpNow(O)) =>
        LET e == Eff(O) IN
        /\ (NeedAlign(O) => SpNow(O).a % Promised(O) = 0)
        /\ (e.cs > 0 \/ e.calls = 1 => SpNow(O).a % CallAlign(O) = 0)             \* every call site: SP = call area
        /\ (e.ls > 0 /\ e.la > 1 => (SpNow(O).a + O.fr.local_off) % e.la = 0))     \* locals

(* areas: pairwise disjoint, at or above the body's SP, below the return address / caller frame *)
Areas(O, S) ==
  LET c == O.cfg
      e == Eff(O)
      F == O.fr
  IN (IF e.cs > 0 THEN {<<"call", S, S + e.cs>>} ELSE {})
     \cup (IF e.ls > 0 THEN {<<"local", S + F.local_off, S + F.local_off + e.ls>>} ELSE {})
     \cup (IF F.ex_size > 0 THEN {<<"extra", S + F.ex_off, S + F.ex_off + F.ex_size>>} ELSE {})
     \cup (IF F.has_da_off THEN {<<"da", S + F.da_off, S + F.da_off + RegSize(c)>>} ELSE {})
SaveCells(O) == {<<"save", a, a + mem[a].sz>> : a \in {x \in DOMAIN mem : x < esp}}
Disjoint(O) ==
  AtBody(O) /\ IsInt(SpNow(O)) =>
    LET S == SpNow(O).a
        AR == Areas(O, S)
        body == {x \in AR : x[1] \in {"call", "local"}}
    IN /\ \A x \in AR : x[2] >= S /\ x[3] <= esp                           \* inside [SP, return address)
       /\ \A x \in AR, y \in AR : x # y => ~(x[2] < y[3] /\ y[2] < x[3])     \* declared areas pairwise disjoint
       /\ \A x \in body, y \in SaveCells(O) : ~(x[2] < y[3] /\ y[2] < x[3])  \* body areas never hit a save cell
       /\ \A y \in SaveCells(O) : y[2] >= S - AbiRed(O)

(* stack-passed arguments are found where the frame says *)
StackArgs(O) ==
  AtBody(O) /\ IsInt(SpNow(O)) =>
    LET F == O.fr
        A == O.fd.stackargs
        rs == RegSize(O.cfg)
    IN \A k \in 1..Len(A) :
         /\ (~F.has_da /\ F.sa_sp >= 0 => Load(mem, SpNow(O).a + F.sa_sp + A[k], rs).v = ArgV(k))
         /\ (F.sa_reg # SpId(O.cfg) /\ F.sa_reg < 32 =>
               LET b == reg[<<0, F.sa_reg>>].v IN IsInt(b) /\ Load(mem, b.a + F.sa_sa + A[k], rs).v = ArgV(k))

(* a preserved frame pointer points at a frame record: [fp] = caller's fp, next slot = return address / lr *)
FrameRecord(O) ==
  AtBody(O) /\ Eff(O).fp = 1 =>
    LET f == reg[FPK(O)].v
        rs == RegSize(O.cfg)
    IN /\ IsInt(f)
       /\ Load(mem, f.a, rs) = [v |-> Entry(FPK(O)), w |-> rs]
       /\ IF IsA64(O.cfg) THEN Load(mem, f.a + 8, 8) = [v |-> Entry(LRK(O)), w |-> 8]
          ELSE Load(mem, f.a + rs, rs).v = RetAddr

(* every home (spill) slot of a work register lies inside the frame's local area, or coincides EXACTLY with the   *)
(* incoming slot of the stack-passed argument the register is bound to (same address, not larger than that slot) *)
HomeSlots(O) ==
  AtBody(O) /\ IsInt(SpNow(O)) =>
    \A j \in 1..Len(O.slots) :
      LET sl == O.slots[j]
          b == reg[<<0, sl.base>>].v
          S == SpNow(O).a
          e == Eff(O)
          rs == RegSize(O.cfg)
      IN (sl.used \/ sl.stackarg) =>
           /\ <<0, sl.base>> \in DOMAIN reg /\ IsInt(b)
           /\ LET lo == b.a + sl.off
                   hi == lo + sl.size
               IN \/ (lo >= S + O.fr.local_off /\ hi <= S + O.fr.local_off + e.ls)
                  \/ (sl.argoff >= 0 /\ lo = esp + RetSize(O.cfg) + sl.argoff /\ sl.size <= AlignUp(Max2(sl.argsz, 1), rs))

(* return: to the caller's return address, SP where the convention requires, callee-saved registers intact *)
Completed(O) == Done(O) /\ Understood(O) /\ "Error" \notin bad => pc # NoneV
SavedRestored(O) ==
  pc # NoneV =>
    /\ pc = (IF IsA64(O.cfg) THEN Entry(LRK(O)) ELSE RetAddr)
    /\ IsInt(SpNow(O)) /\ SpNow(O).a = esp + RetSize(O.cfg) + PopBytes(O)
    /\ \A k \in PresRegs(O) : reg[k].v = Entry(k) /\ reg[k].w >= PresWidth(O, k[1])

InvNames == <<"Understood", "Accepted", "SpDefined", "NoWriteOutsideFrame", "AlignedInBody", "Disjoint", "StackArgs",
              "HomeSlots", "FrameRecord", "Completed", "SavedRestored">>
Holds(O, n) ==
  CASE n = "Understood" -> Understood(O)
    [] n = "Accepted" -> Accepted(O)
    [] n = "SpDefined" -> SpDefined(O)
    [] n = "NoWriteOutsideFrame" -> NoWriteOutsideFrame(O)
    [] n = "AlignedInBody" -> AlignedInBody(O)
    [] n = "Disjoint" -> Disjoint(O)
    [] n = "StackArgs" -> StackArgs(O)
    [] n = "HomeSlots" -> HomeSlots(O)
    [] n = "FrameRecord" -> FrameRecord(O)
    [] n = "Completed" -> Completed(O)
    [] n = "SavedRestored" -> SavedRestored(O)
Failing(O) == {n \in ToSet(InvNames) : ~Holds(O, n)}

(* which callee-saved registers were not restored (diagnostics only) *)
Lost(O) == IF pc = NoneV THEN {} ELSE {k \in PresRegs(O) : ~(reg[k].v = Entry(k) /\ reg[k].w >= PresWidth(O, k[1]))}
=============================================================================
