SPECIFICATION Spec
CONSTANT Profile = "quick"
INVARIANT Export
