SPECIFICATION Spec
CONSTANT Profile = "quick"
INVARIANT Consistent
INVARIANT Export
