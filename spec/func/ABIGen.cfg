SPECIFICATION Spec
CONSTANTS
  MaxArgs = 3
  Long = FALSE
INVARIANT Export
