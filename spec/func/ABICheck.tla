------------------------------- MODULE ABICheck -------------------------------
(* C06(a), pointwise: every observation of FuncDetail::init() must conform to ABI.tla.                        *)
(*   OBS  = ndjson file of observations (harness/funcabi observe)                                             *)
(*   MODE = "report": a non-conforming observation is printed (NONCONF line) and TLC goes on, so that all      *)
(*          of them can be grouped;  "strict": the invariant simply fails (used to confirm each finding).      *)
EXTENDS ABI, Json, IOUtils

Obs == ndJsonDeserialize(IOEnv.OBS)
Strict == "MODE" \in DOMAIN IOEnv /\ IOEnv.MODE = "strict"

VARIABLE i
Init == i \in 1..Len(Obs)
Next == UNCHANGED i
Spec == Init /\ [][Next]_i

Report(o) == PrintT(ToJson(<<"NONCONF", i, Diag(o)>>))
ConformsInv == Conforms(Obs[i]) \/ (~Strict /\ Report(Obs[i]))
=============================================================================
