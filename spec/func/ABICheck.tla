------------------------------- MODULE ABICheck -------------------------------
(* C06(a), pointwise: every observation of FuncDetail::init() must conform to ABI.tla.                        *)
(*   OBS  = ndjson file of observations (harness/funcabi observe)                                             *)
(*   MODE = "report": a non-conforming observation is printed (NONCONF line) and TLC goes on, so that all      *)
(*          of them can be grouped;  "strict": the invariant simply fails (used to confirm each finding).      *)
EXTENDS ABI, Json, IOUtils

Obs == ndJsonDeserialize(IOEnv.OBS)
Strict == "MODE" \in DOMAIN IOEnv /\ IOEnv.MODE = "strict"

(* One JVM, many workers: the single initial state fans out into NB block states (level 1), each of which fans *)
(* out into its observations (level 2); TLC's workers take the blocks in parallel.                           *)
N == Len(Obs)
NB == IF N <= 400 THEN 1 ELSE 64
VARIABLES lvl, b, i
vars == <<lvl, b, i>>
Init == lvl = 0 /\ b = 0 /\ i = 0
Next == \/ lvl = 0 /\ lvl' = 1 /\ b' \in 1..NB /\ i' = 0
        \/ lvl = 1 /\ lvl' = 2 /\ b' = b /\ i' \in { q \in 1..N : q % NB = b % NB }
Spec == Init /\ [][Next]_vars

Report(o) == PrintT(ToJson(<<"NONCONF", i, Diag(o)>>))
InfoLine(o) == Info(o) = "ok" \/ PrintT(ToJson(<<"INFO", i, o.env, o.conv, Info(o)>>))
ConformsInv == lvl < 2 \/ (InfoLine(Obs[i]) /\ (Conforms(Obs[i]) \/ (~Strict /\ Report(Obs[i]))))
=============================================================================
