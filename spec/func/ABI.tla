--------------------------------- MODULE ABI ---------------------------------
(* C06(a): where the platform ABIs put arguments and return values.                                          *)
(*                                                                                                            *)
(* Transcribed from the ABI documents, NOT from asmjit's x86func.cpp / a64func.cpp:                           *)
(*   sysv64       System V AMD64 psABI 1.0, 3.2.3 "Parameter Passing" (classes INTEGER / SSE / SSEUP),        *)
(*                3.2.2 stack frame (red zone 128), fig. 3.4 (callee-saved rbx rbp r12-r15)                   *)
(*   win64        Microsoft "x64 calling convention" (4 positional register slots, 32-byte home space,        *)
(*                16/32/64-byte vectors by reference, xmm6-15 + rbx rbp rdi rsi r12-r15 non-volatile)         *)
(*   vectorcall64 Microsoft "__vectorcall" (x64): integer by position in rcx rdx r8 r9, floating-point and    *)
(*                vector arguments by position in xmm/ymm0-5, every argument owns the positional slot 8*i     *)
(*   cdecl32 ...  System V i386 psABI (all on stack, 4-byte slots), Microsoft __stdcall / __fastcall /        *)
(*                __thiscall, GCC regparm(n) (eax, edx, ecx; nothing in registers for variadic functions)     *)
(*   aapcs64      "Procedure Call Standard for the Arm 64-bit Architecture" 6.8.2 rules C.1-C.17              *)
(*   apple64      "Writing ARM64 code for Apple platforms": stack arguments use natural size and alignment,   *)
(*                variadic arguments always on the stack in 8-byte slots                                      *)
(* Types the documents do not settle unambiguously for asmjit's type system (MMX, mask, x87, 4-byte vectors,  *)
(* 64-bit integers under the 32-bit register conventions, 32-bit vector arguments, light-call) are NOT        *)
(* asserted; such signatures are only checked for internal consistency.                                       *)
EXTENDS Naturals, Integers, Sequences, FiniteSets, TLC

AlignUp(x, a) == ((x + a - 1) \div a) * a
Max2(a, b) == IF a >= b THEN a ELSE b
Min2(a, b) == IF a <= b THEN a ELSE b
SeqToSet(s) == { s[q] : q \in 1..Len(s) }

(* ------------------------------------------------------------------------------------------------------- *)
(* types: class and size in bytes                                                                          *)
(* ------------------------------------------------------------------------------------------------------- *)
TI(c, s) == [c |-> c, sz |-> s]
TypeTab ==
  [ i8 |-> TI("int", 1), u8 |-> TI("int", 1), i16 |-> TI("int", 2), u16 |-> TI("int", 2),
    i32 |-> TI("int", 4), u32 |-> TI("int", 4), i64 |-> TI("int", 8), u64 |-> TI("int", 8),
    f32 |-> TI("fp", 4), f64 |-> TI("fp", 8), f80 |-> TI("x87", 10),
    k8 |-> TI("mask", 1), k16 |-> TI("mask", 2), k32 |-> TI("mask", 4), k64 |-> TI("mask", 8),
    mmx32 |-> TI("mmx", 4), mmx64 |-> TI("mmx", 8),
    i8x4 |-> TI("vec", 4), i32x1 |-> TI("vec", 4), f32x1 |-> TI("vec", 4),
    i8x8 |-> TI("vec", 8), i32x2 |-> TI("vec", 8), f32x2 |-> TI("vec", 8), f64x1 |-> TI("vec", 8), i64x1 |-> TI("vec", 8),
    i8x16 |-> TI("vec", 16), i32x4 |-> TI("vec", 16), i64x2 |-> TI("vec", 16), f32x4 |-> TI("vec", 16), f64x2 |-> TI("vec", 16),
    i8x32 |-> TI("vec", 32), i32x8 |-> TI("vec", 32), f32x8 |-> TI("vec", 32), f64x4 |-> TI("vec", 32),
    i8x64 |-> TI("vec", 64), i32x16 |-> TI("vec", 64), f32x16 |-> TI("vec", 64), f64x8 |-> TI("vec", 64) ]
AllTypes == DOMAIN TypeTab
Cls(t) == TypeTab[t].c
Sz(t) == TypeTab[t].sz

(* ------------------------------------------------------------------------------------------------------- *)
(* which ABI governs (environment, asmjit convention id)                                                   *)
(* ------------------------------------------------------------------------------------------------------- *)
CLike == {"cdecl", "stdcall", "fastcall", "thiscall", "regparm1", "regparm2", "regparm3"}
Is32(abi) == abi \in {"cdecl32", "stdcall32", "fastcall32", "thiscall32", "regparm1", "regparm2", "regparm3"}
IsA64(abi) == abi \in {"aapcs64", "apple64"}
IsWin(abi) == abi \in {"win64", "vectorcall64"}

AbiOf(env, conv) ==
  CASE env = "x64-sysv" -> (IF conv \in CLike \cup {"x64sysv"} THEN "sysv64" ELSE IF conv = "x64win" THEN "win64" ELSE "none")
    [] env = "x64-win"  -> (IF conv \in CLike \cup {"x64win"} THEN "win64" ELSE IF conv = "vectorcall" THEN "vectorcall64"
                            ELSE IF conv = "x64sysv" THEN "sysv64" ELSE "none")
    [] env = "x86-sysv" -> (CASE conv = "cdecl" -> "cdecl32" [] conv = "stdcall" -> "stdcall32" [] conv = "fastcall" -> "fastcall32"
                              [] conv \in {"regparm1", "regparm2", "regparm3"} -> conv [] OTHER -> "none")
    [] env = "x86-win"  -> (CASE conv = "cdecl" -> "cdecl32" [] conv = "stdcall" -> "stdcall32" [] conv = "fastcall" -> "fastcall32"
                              [] conv = "thiscall" -> "thiscall32"
                              [] conv \in {"regparm1", "regparm2", "regparm3"} -> conv [] OTHER -> "none")
    [] env = "a64-aapcs" -> (IF conv \in CLike \cup {"vectorcall"} THEN "aapcs64" ELSE "none")
    [] env = "a64-apple" -> (IF conv \in CLike \cup {"vectorcall"} THEN "apple64" ELSE "none")
    [] OTHER -> "none"

RegSize(env) == IF env \in {"x86-sysv", "x86-win"} THEN 4 ELSE 8

(* Is the placement of an argument of type t prescribed (by the documents above) under `abi`? *)
ArgAsserted(abi, t) ==
  LET c == Cls(t) s == Sz(t) IN
  CASE abi = "sysv64"       -> c \in {"int", "fp"} \/ (c = "vec" /\ s \in {8, 16, 32, 64})
    [] abi = "win64"        -> c \in {"int", "fp"} \/ (c = "vec" /\ s \in {16, 32, 64})
    [] abi = "vectorcall64" -> c \in {"int", "fp"} \/ (c = "vec" /\ s \in {16, 32})
    [] abi \in {"cdecl32", "stdcall32"} -> c \in {"int", "fp"}
    [] abi \in {"fastcall32", "thiscall32", "regparm1", "regparm2", "regparm3"} -> (c = "int" /\ s <= 4) \/ c = "fp"
    [] IsA64(abi)           -> c \in {"int", "fp"} \/ (c = "vec" /\ s \in {8, 16})
    [] OTHER -> FALSE

VaAsserted(abi, va) ==
  \/ va = 255
  \/ abi \in {"sysv64", "win64", "cdecl32", "regparm1", "regparm2", "regparm3", "aapcs64", "apple64"}

(* a variadic argument of a type the C default argument promotions remove (char, short, float) cannot come from a C *)
(* caller, so no compiler shows where it would go: such signatures are not asserted                              *)
Promotable(t) == (Cls(t) = "int" /\ Sz(t) < 4) \/ t = "f32"
SigAsserted(abi, args, va) ==
  /\ abi # "none"
  /\ VaAsserted(abi, va)
  /\ (va # 255 => \A q \in 1..Len(args) : q - 1 >= va => ~Promotable(args[q]))
  /\ \A q \in 1..Len(args) : ArgAsserted(abi, args[q])
  /\ (abi = "thiscall32" => Len(args) >= 1 /\ Cls(args[1]) = "int" /\ Sz(args[1]) = 4)

RetAsserted(abi, t) ==
  LET c == Cls(t) s == Sz(t) IN
  CASE abi = "sysv64" -> c \in {"int", "fp"} \/ (c = "vec" /\ s \in {8, 16, 32, 64})
    [] IsWin(abi)     -> c \in {"int", "fp"} \/ (c = "vec" /\ s = 16)
    [] Is32(abi)      -> c \in {"int", "fp"}
    [] IsA64(abi)     -> c \in {"int", "fp"} \/ (c = "vec" /\ s \in {8, 16})
    [] OTHER -> FALSE

(* ------------------------------------------------------------------------------------------------------- *)
(* locations                                                                                               *)
(* ------------------------------------------------------------------------------------------------------- *)
Loc(k, g, id, off, ind) == [k |-> k, g |-> g, id |-> id, off |-> off, ind |-> ind]
R(g, id) == Loc("reg", g, id, 0, FALSE)
S(off) == Loc("stack", "", 0, off, FALSE)
RI(id) == Loc("reg", "gp", id, 0, TRUE)       \* pointer to the value in a GP register
SI(off) == Loc("stack", "", 0, off, TRUE)      \* pointer to the value in a stack slot

SysvGp == <<7, 6, 2, 1, 8, 9>>                 \* rdi rsi rdx rcx r8 r9
WinGp == <<1, 2, 8, 9>>                        \* rcx rdx r8 r9
GpOrder32(abi) ==
  CASE abi = "fastcall32" -> <<1, 2>>          \* ecx edx
    [] abi = "thiscall32" -> <<1>>             \* ecx
    [] abi = "regparm1" -> <<0>>               \* eax
    [] abi = "regparm2" -> <<0, 2>>            \* eax edx
    [] abi = "regparm3" -> <<0, 2, 1>>         \* eax edx ecx
    [] OTHER -> <<>>

(* natural alignment of a value of type t when it lives in memory *)
NatAlign(t) == IF Cls(t) = "vec" THEN Sz(t) ELSE Sz(t)

(* classification state: next GP index g, next vector index v, next stack offset off;                       *)
(*   pk  = sequence (one entry per value of the pack) of SETS of acceptable locations                       *)
St(g, v, off, pk) == [g |-> g, v |-> v, off |-> off, pk |-> pk]

(* i = 0-based position, t = type, isVa = the function is variadic, isVaArg = this argument is a variadic one *)
Step(abi, s, i, t, isVa, isVaArg) ==
  LET c == Cls(t) sz == Sz(t) IN
  CASE abi = "sysv64" ->
         IF c = "int"
         THEN IF s.g < 6 THEN St(s.g + 1, s.v, s.off, << {R("gp", SysvGp[s.g + 1])} >>)
              ELSE LET o == AlignUp(s.off, 8) IN St(s.g, s.v, o + 8, << {S(o)} >>)
         ELSE IF s.v < 8 THEN St(s.g, s.v + 1, s.off, << {R("vec", s.v)} >>)
              ELSE LET o == AlignUp(s.off, Max2(8, NatAlign(t))) IN St(s.g, s.v, o + AlignUp(sz, 8), << {S(o)} >>)
    [] abi = "win64" ->
         IF c = "int" THEN (IF i < 4 THEN St(0, 0, 0, << {R("gp", WinGp[i + 1])} >>) ELSE St(0, 0, 0, << {S(8 * i)} >>))
         ELSE IF c = "fp" THEN (IF i < 4 THEN St(0, 0, 0, << IF isVa THEN {R("vec", i), R("gp", WinGp[i + 1])} ELSE {R("vec", i)} >>)
                                ELSE St(0, 0, 0, << {S(8 * i)} >>))
         ELSE (IF i < 4 THEN St(0, 0, 0, << {RI(WinGp[i + 1])} >>) ELSE St(0, 0, 0, << {SI(8 * i)} >>))
    [] abi = "vectorcall64" ->
         IF c = "int" THEN (IF i < 4 THEN St(0, 0, 0, << {R("gp", WinGp[i + 1])} >>) ELSE St(0, 0, 0, << {S(8 * i)} >>))
         ELSE IF i < 6 THEN St(0, 0, 0, << {R("vec", i)} >>)
         ELSE IF c = "fp" THEN St(0, 0, 0, << {S(8 * i)} >>)
         ELSE St(0, 0, 0, << {SI(8 * i)} >>)
    [] Is32(abi) ->
         LET order == IF isVa THEN <<>> ELSE GpOrder32(abi) IN
         IF c = "int" /\ sz <= 4 /\ s.g < Len(order) /\ (abi # "thiscall32" \/ i = 0)
         THEN St(s.g + 1, s.v, s.off, << {R("gp", order[s.g + 1])} >>)
         ELSE IF c = "int" /\ sz = 8 THEN St(s.g, s.v, s.off + 8, << {S(s.off)}, {S(s.off + 4)} >>)   \* low half, high half
         ELSE St(s.g, s.v, s.off + AlignUp(sz, 4), << {S(s.off)} >>)
    [] abi = "aapcs64" ->
         IF c = "int"
         THEN IF s.g < 8 THEN St(s.g + 1, s.v, s.off, << {R("gp", s.g)} >>)
              ELSE LET o == AlignUp(s.off, 8) IN St(8, s.v, o + 8, << {S(o)} >>)                        \* C.13, C.14, C.16
         ELSE IF s.v < 8 THEN St(s.g, s.v + 1, s.off, << {R("vec", s.v)} >>)                            \* C.1
              ELSE LET o == AlignUp(s.off, IF sz >= 16 THEN 16 ELSE 8) IN                               \* C.3, C.4
                   St(s.g, 8, o + AlignUp(sz, 8), << {S(o)} >>)                                         \* C.5, C.6
    [] abi = "apple64" ->
         IF isVaArg THEN LET o == AlignUp(s.off, Max2(8, NatAlign(t))) IN St(s.g, s.v, o + AlignUp(sz, 8), << {S(o)} >>)
         ELSE IF c = "int"
         THEN IF s.g < 8 THEN St(s.g + 1, s.v, s.off, << {R("gp", s.g)} >>)
              ELSE LET o == AlignUp(s.off, NatAlign(t)) IN St(8, s.v, o + sz, << {S(o)} >>)
         ELSE IF s.v < 8 THEN St(s.g, s.v + 1, s.off, << {R("vec", s.v)} >>)
              ELSE LET o == AlignUp(s.off, NatAlign(t)) IN St(s.g, 8, o + sz, << {S(o)} >>)
    [] OTHER -> St(0, 0, 0, <<>>)

(* Fold over the signature: sequence of states, element q = state after argument q (1-based). *)
RECURSIVE Run(_, _, _, _, _)
Run(abi, args, va, q, acc) ==
  IF q > Len(args) THEN acc
  ELSE LET prev == IF q = 1 THEN St(0, 0, 0, <<>>) ELSE acc[q - 1]
           nxt == Step(abi, prev, q - 1, args[q], va # 255, va # 255 /\ q - 1 >= va)
       IN Run(abi, args, va, q + 1, Append(acc, nxt))

States(abi, args, va) == Run(abi, args, va, 1, <<>>)

(* What the stack argument area must at least cover (home space included). *)
NeededStack(abi, args, sts) ==
  LET n == Len(args) IN
  IF IsWin(abi) THEN 8 * Max2(4, n)
  ELSE IF n = 0 THEN 0 ELSE sts[n].off

CalleePops(abi) == abi \in {"stdcall32", "fastcall32", "thiscall32"}

(* minimum alignment the ABI gives a stack-passed argument of type t *)
ReqAlign(abi, t, isVaArg) ==
  CASE abi = "sysv64" -> Max2(8, NatAlign(t))
    [] IsWin(abi) -> 8
    [] Is32(abi) -> 4
    [] abi = "aapcs64" -> IF Sz(t) >= 16 THEN 16 ELSE 8
    [] abi = "apple64" -> IF isVaArg THEN Max2(8, NatAlign(t)) ELSE NatAlign(t)
    [] OTHER -> 1

ExpectedRet(abi, t) ==
  LET c == Cls(t) IN
  IF Is32(abi) THEN (IF c = "fp" THEN << {R("st", 0)} >> ELSE IF Sz(t) = 8 THEN << {R("gp", 0)}, {R("gp", 2)} >> ELSE << {R("gp", 0)} >>)
  ELSE IF c = "int" THEN << {R("gp", 0)} >> ELSE << {R("vec", 0)} >>

(* ------------------------------------------------------------------------------------------------------- *)
(* convention constants                                                                                    *)
(* ------------------------------------------------------------------------------------------------------- *)
MustPreserveGp(abi) ==
  CASE abi = "sysv64" -> {3, 5, 12, 13, 14, 15}
    [] IsWin(abi) -> {3, 5, 6, 7, 12, 13, 14, 15}
    [] Is32(abi) -> {3, 5, 6, 7}
    [] IsA64(abi) -> 19..28
    [] OTHER -> {}
(* registers a convention record may additionally list because they are never allocatable anyway (stack       *)
(* pointer, frame/link register, platform register)                                                           *)
MayPreserveGp(abi) == MustPreserveGp(abi) \cup (IF IsA64(abi) THEN {18, 29, 30, 31} ELSE {4})
PreservedVec(abi) == IF IsWin(abi) THEN 6..15 ELSE IF IsA64(abi) THEN 8..15 ELSE {}
RedZone(abi) == IF abi = "sysv64" THEN 128 ELSE IF abi = "apple64" THEN 128 ELSE 0
SpillZone(abi) == IF IsWin(abi) THEN 32 ELSE 0

(* ------------------------------------------------------------------------------------------------------- *)
(* observations of the real code                                                                            *)
(*   o = [env, conv, va, ret, args, n, err, a (seq of packs of values), r (pack), ass, cp, rz, sz, nsa, pres] *)
(* ------------------------------------------------------------------------------------------------------- *)
GotLoc(v) == Loc(v.k, v.g, v.id, v.off, v.ind)
PackOk(got, exp) == /\ Len(got) = Len(exp)
                    /\ \A m \in 1..Len(exp) : GotLoc(got[m]) \in exp[m]

ConstFails(abi, o) ==
  LET pg == SeqToSet(o.pres.gp) pv == SeqToSet(o.pres.vec) IN
  IF o.cp # CalleePops(abi) THEN "callee-pops"
  ELSE IF o.rz > RedZone(abi) THEN "red-zone"
  ELSE IF (abi = "vectorcall64" /\ o.sz < 32) \/ (abi # "vectorcall64" /\ o.sz # SpillZone(abi)) THEN "spill-zone"
  ELSE IF ~Is32(abi) /\ o.nsa # 16 THEN "stack-alignment"
  ELSE IF ~(MustPreserveGp(abi) \subseteq pg /\ pg \subseteq MayPreserveGp(abi)) THEN "preserved-gp"
  ELSE IF pv # PreservedVec(abi) THEN "preserved-vec"
  ELSE "ok"

(* --- internal consistency, checked for every convention (also the asmjit-only ones) --- *)
FlatVals(o) == UNION { { <<j, m>> : m \in 1..Len(o.a[j]) } : j \in 1..Len(o.a) }
ValSize(o, j, m) == IF o.a[j][m].ind THEN RegSize(o.env)
                    ELSE IF Len(o.a[j]) > 1 THEN Sz(o.args[j]) \div Len(o.a[j]) ELSE Sz(o.args[j])
ValAlign(o, j, m) == LET s == ValSize(o, j, m) IN
                     IF s >= RegSize(o.env) THEN RegSize(o.env) ELSE IF s >= 4 THEN 4 ELSE IF s >= 2 THEN 2 ELSE 1
ConsistFails(o) ==
  LET vals == FlatVals(o)
      regs == { p \in vals : o.a[p[1]][p[2]].k = "reg" }
      stks == { p \in vals : o.a[p[1]][p[2]].k = "stack" }
      V(p) == o.a[p[1]][p[2]]
      Pres(g) == IF g = "gp" THEN SeqToSet(o.pres.gp) ELSE IF g = "vec" THEN SeqToSet(o.pres.vec)
                 ELSE IF g = "k" THEN SeqToSet(o.pres.k) ELSE IF g = "mm" THEN SeqToSet(o.pres.mm) ELSE {}
  IN
  IF \E p \in vals : V(p).k = "none" THEN "unassigned"
  ELSE IF \E p, q \in regs : p # q /\ V(p).g = V(q).g /\ V(p).id = V(q).id THEN "register-twice"
  ELSE IF \E p, q \in stks : p # q /\ V(p).off < V(q).off + ValSize(o, q[1], q[2]) /\ V(q).off < V(p).off + ValSize(o, p[1], p[2]) THEN "stack-overlap"
  ELSE IF \E p \in stks : V(p).off < 0 \/ V(p).off % ValAlign(o, p[1], p[2]) # 0 THEN "stack-misaligned"
  ELSE IF \E p \in stks : V(p).off + ValSize(o, p[1], p[2]) > o.ass THEN "stack-size-too-small"
  ELSE IF \E p \in regs : V(p).id \in Pres(V(p).g) THEN "arg-in-preserved-reg"
  ELSE IF \E m \in 1..Len(o.r) : o.r[m].k = "reg" /\ o.r[m].id \in Pres(o.r[m].g) THEN "ret-in-preserved-reg"
  ELSE "ok"

(* --- the ABI proper --- *)
FirstBadArg(abi, o, sts) ==
  LET bad == { j \in 1..Len(o.args) : ~PackOk(o.a[j], sts[j].pk) } IN
  IF bad = {} THEN 0 ELSE CHOOSE j \in bad : \A q \in bad : j <= q

StackSizeOk(abi, o, sts) ==
  LET need == NeededStack(abi, o.args, sts) IN
  IF CalleePops(abi) THEN o.ass = need ELSE o.ass >= need /\ o.ass <= AlignUp(need, 16) + 32

RetOk(abi, o) == o.ret = "void" \/ ~RetAsserted(abi, o.ret) \/ PackOk(o.r, ExpectedRet(abi, o.ret))

PlacementOk(o) ==
  LET abi == AbiOf(o.env, o.conv) IN
  \/ o.err # "Ok"                                        \* refusing a signature is not a wrong placement
  \/ /\ abi # "none" => ConsistFails(o) = "ok"        \* asmjit-only / unasserted conventions: informational only (Info)
     /\ abi # "none" => ConstFails(abi, o) = "ok"
     /\ abi # "none" => RetOk(abi, o)
     /\ SigAsserted(abi, o.args, o.va) =>
          LET sts == States(abi, o.args, o.va) IN
          /\ FirstBadArg(abi, o, sts) = 0
          /\ StackSizeOk(abi, o, sts)

(* internal consistency of a convention no platform ABI governs (light-call, ...): reported, never judged *)
Info(o) == IF AbiOf(o.env, o.conv) = "none" /\ o.err = "Ok" /\ o.abort = "" THEN ConsistFails(o) ELSE "ok"

(* the sanitizer build must not abort on the input, and the placement must be the ABI's *)
Conforms(o) == o.abort = "" /\ PlacementOk(o)

(* ------------------------------------------------------------------------------------------------------- *)
(* diagnosis of a non-conforming observation (used only to name the finding; the verdict is Conforms)       *)
(* ------------------------------------------------------------------------------------------------------- *)
TyKey(t) == <<Cls(t), Sz(t)>>
PrimaryLoc(set) == IF \E l \in set : l.k = "stack" THEN CHOOSE l \in set : l.k = "stack"
                   ELSE CHOOSE l \in set : \A l2 \in set : (l.g = "vec" \/ l2.g # "vec")
ArgDiag(abi, o, sts, j) ==
  LET got == o.a[j] exp == sts[j].pk t == o.args[j] IN
  IF Len(got) # Len(exp) THEN <<"arg", "pack-shape", TyKey(t), j - 1, Len(exp), Len(got)>>
  ELSE LET m == CHOOSE m \in 1..Len(exp) : GotLoc(got[m]) \notin exp[m] /\ \A m2 \in 1..(m - 1) : GotLoc(got[m2]) \in exp[m2]
           g == got[m]
           e == PrimaryLoc(exp[m])
           prevs == { p \in 1..(j - 1) : Len(o.a[p]) >= 1 /\ o.a[p][Len(o.a[p])].k = "stack" }
           p == IF prevs = {} THEN 0 ELSE CHOOSE p \in prevs : \A p2 \in prevs : p2 <= p
           isVaArg == o.va # 255 /\ j - 1 >= o.va
       IN
       IF g.k # e.k THEN <<"arg", "location", TyKey(t), j - 1, e.k, g.k>>
       ELSE IF g.ind # e.ind THEN <<"arg", "indirect", TyKey(t), j - 1, e.ind, g.ind>>
       ELSE IF g.k = "reg" THEN <<"arg", "register", TyKey(t), j - 1, <<e.g, e.id>>, <<g.g, g.id>>>>
       ELSE IF p # 0 /\ ~IsWin(abi)
               /\ g.off < o.a[p][Len(o.a[p])].off + (sts[p].off - PrimaryLoc(sts[p].pk[Len(sts[p].pk)]).off)
            THEN <<"arg", "stack-slot-size", TyKey(o.args[p]), j - 1, e.off, g.off>>
       ELSE IF g.off % ReqAlign(abi, t, isVaArg) # 0 THEN <<"arg", "stack-alignment", TyKey(t), j - 1, e.off, g.off>>
       ELSE IF p # 0 /\ ~IsWin(abi) THEN <<"arg", "stack-slot-size", TyKey(o.args[p]), j - 1, e.off, g.off>>
       ELSE <<"arg", "stack-base", TyKey(t), j - 1, e.off, g.off>>

UnassignedType(o) == LET j == CHOOSE j \in 1..Len(o.a) : \E m \in 1..Len(o.a[j]) : o.a[j][m].k = "none" IN TyKey(o.args[j])

Diag(o) ==
  LET abi == AbiOf(o.env, o.conv)
      asserted == SigAsserted(abi, o.args, o.va)
      sts == States(abi, o.args, o.va)
      j == IF asserted THEN FirstBadArg(abi, o, sts) ELSE 0 IN
  IF o.abort # "" THEN <<abi, "sanitizer-abort", o.abort>>
  ELSE IF abi # "none" /\ ConstFails(abi, o) # "ok" THEN <<abi, "constant", ConstFails(abi, o)>>
  ELSE IF j # 0 THEN <<abi>> \o ArgDiag(abi, o, sts, j)
  ELSE IF asserted /\ ~StackSizeOk(abi, o, sts) THEN <<abi, "stack-size", NeededStack(abi, o.args, sts), o.ass>>
  ELSE IF abi # "none" /\ ~RetOk(abi, o) THEN <<abi, "return", TyKey(o.ret), ExpectedRet(abi, o.ret)>>
  ELSE <<abi, "consistency", ConsistFails(o), IF ConsistFails(o) = "unassigned" THEN UnassignedType(o) ELSE <<>> >>

(* expected placement in printable form (for reports and for the gcc/clang model validation) *)
ExpectedArgs(abi, args, va) == LET sts == States(abi, args, va) IN [q \in 1..Len(args) |-> sts[q].pk]
=============================================================================
