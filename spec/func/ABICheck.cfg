SPECIFICATION Spec
INVARIANT ConformsInv
