----------------------------- MODULE FrameSetters -----------------------------
(* C07 - the contract of the FuncFrame setters: what a SEQUENCE of setter calls promises to the function body. *)
(* Shared by FrameMachine (judges the finalized frame and the emitted prolog/epilog against it) and by          *)
(* FrameConfigs (whose generator of call sequences is model-checked against it: invariant Consistent).          *)
EXTENDS Integers, Sequences

Min2(a, b) == IF a < b THEN a ELSE b
Max2(a, b) == IF a > b THEN a ELSE b
ToSet(s) == {s[j] : j \in 1..Len(s)}

(* THE CONTRACT OF THE SETTERS (func.h documentation): set_* assigns, update_* "updates to the greater value", *)
(* add_dirty_regs adds, set_dirty_regs assigns, set_/reset_ attribute pairs switch the attribute.  The order   *)
(* of calls to DIFFERENT setters is irrelevant: the finalized frame must honour the last/max value of each.   *)
Eff0 == [ls |-> 0, la |-> 0, cs |-> 0, ca |-> 0, fp |-> 0, calls |-> 0, d |-> <<{}, {}, {}, {}>>]
ApplyOp(e, o) ==
  LET n == o.op IN
  IF n = "set_ls" THEN [e EXCEPT !.ls = o.a] ELSE IF n = "update_ls" THEN [e EXCEPT !.ls = Max2(@, o.a)]
  ELSE IF n = "set_la" THEN [e EXCEPT !.la = o.a] ELSE IF n = "update_la" THEN [e EXCEPT !.la = Max2(@, o.a)]
  ELSE IF n = "set_cs" THEN [e EXCEPT !.cs = o.a] ELSE IF n = "update_cs" THEN [e EXCEPT !.cs = Max2(@, o.a)]
  ELSE IF n = "set_ca" THEN [e EXCEPT !.ca = o.a] ELSE IF n = "update_ca" THEN [e EXCEPT !.ca = Max2(@, o.a)]
  ELSE IF n = "add_dirty" THEN [e EXCEPT !.d[o.g + 1] = @ \cup ToSet(o.ids)]
  ELSE IF n = "set_dirty" THEN [e EXCEPT !.d[o.g + 1] = ToSet(o.ids)]
  ELSE IF n = "set_fp" THEN [e EXCEPT !.fp = 1] ELSE IF n = "reset_fp" THEN [e EXCEPT !.fp = 0]
  ELSE IF n = "set_calls" THEN [e EXCEPT !.calls = 1] ELSE IF n = "reset_calls" THEN [e EXCEPT !.calls = 0]
  ELSE e             \* AVX/MMX/IBT attributes and the SA register select instructions, they promise nothing to the body
RECURSIVE FoldOps(_, _, _)
FoldOps(ops, n, e) == IF n > Len(ops) THEN e ELSE FoldOps(ops, n + 1, ApplyOp(e, ops[n]))
EffOf(ops) == FoldOps(ops, 1, Eff0)
=============================================================================
