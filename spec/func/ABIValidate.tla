------------------------------ MODULE ABIValidate ------------------------------
(* Model validation of ABI.tla against real compilers on the host (never a judgement on asmjit): TLC prints    *)
(* the placement ABI.tla predicts for sampled signatures of the conventions gcc/clang implement on x86-64      *)
(* (sysv64 natively, win64 through __attribute__((ms_abi)), vectorcall64 through clang's vectorcall); the     *)
(* runner compiles a C caller passing sentinels and an assembly callee dumping registers and stack, and checks *)
(* that every sentinel is where ABI.tla said.  A disagreement is a bug in ABI.tla.                             *)
EXTENDS ABI, Json
CONSTANTS MaxSuffix

Rep(t, k) == [q \in 1..k |-> t]
Abis == {"sysv64", "win64", "vectorcall64", "aapcs64", "apple64"}
A64Abis == {"aapcs64", "apple64"}
Types(abi) == IF abi \in A64Abis THEN {"i8", "u16", "i32", "i64", "f32", "f64", "i32x2", "f32x4"}
              ELSE IF abi = "sysv64" THEN {"i8", "u16", "i32", "i64", "f32", "f64", "i32x2", "f32x4", "f64x4", "f32x16"}
              ELSE IF abi = "win64" THEN {"i8", "u16", "i32", "i64", "f32", "f64", "f32x4", "f64x4"}
              ELSE {"i32", "i64", "f32", "f64", "f32x4", "f64x4"}
Prefixes(abi) == IF abi \in A64Abis THEN { <<>>, <<"i32">>, Rep("i64", 8), Rep("f64", 8), Rep("i64", 8) \o Rep("f64", 8), Rep("i32", 9), Rep("i64", 8) \o Rep("f32", 9), Rep("i64", 8) \o <<"i8">> }
                 ELSE IF abi = "sysv64" THEN { <<>>, Rep("i64", 6), Rep("f64", 8), Rep("i64", 6) \o Rep("f64", 8), Rep("f32", 9), Rep("i64", 7) \o Rep("f32", 9) }
                 ELSE { <<>>, Rep("i64", 3), Rep("i64", 4), Rep("f64", 4), Rep("f64", 5), <<"f32x4", "i32", "i32", "i32">>, Rep("f32", 6) }

VARIABLES abi, args, k, va
vars == <<abi, args, k, va>>
(* variadic variants only where the ABI treats variadic arguments differently (Apple): everything after the prefix is variadic *)
Init == /\ abi \in Abis /\ args \in Prefixes(abi) /\ k = 0
        /\ va \in (IF abi = "apple64" /\ Len(args) >= 1 THEN {255, Len(args)} ELSE {255})
Next == /\ k < MaxSuffix
        /\ \E t \in Types(abi) : args' = Append(args, t)
        /\ k' = k + 1 /\ UNCHANGED <<abi, va>>
Spec == Init /\ [][Next]_vars

Flat(l) == <<l.k, l.g, l.id, l.off, l.ind>>
Exp == LET sts == States(abi, args, va) IN [q \in 1..Len(args) |-> Flat(PrimaryLoc(sts[q].pk[1]))]
Export == PrintT(ToJson(<<"EXP", abi, args, [q \in 1..Len(args) |-> Sz(args[q])], Exp, va>>))
=============================================================================
