-------------------------------- MODULE ABIGen --------------------------------
(* C06(a), the other direction: TLC enumerates the signature space and prints, per signature, the target and  *)
(* the placement ABI.tla expects; the runner feeds the signatures to the real FuncDetail::init().             *)
(*   exhaustive : all argument sequences of length <= MaxArgs over Types(target), x variadic variants, and    *)
(*                all return types                                                                            *)
(*   -simulate  : long signatures (up to 32 arguments) drawn from "themes" that exhaust one register file,    *)
(*                or mix 4/8/16-byte stack arguments so that 16-byte arguments land after odd slots           *)
EXTENDS ABI, Json
CONSTANTS MaxArgs, Long, Reduced, Slim

Envs == {"x64-sysv", "x64-win", "x86-sysv", "x86-win", "a64-aapcs", "a64-apple"}
Convs == {"cdecl", "stdcall", "fastcall", "vectorcall", "thiscall", "regparm1", "regparm2", "regparm3",
          "lightcall2", "lightcall3", "lightcall4", "x64sysv", "x64win"}
(* one representative per distinct behaviour: the C-like ids collapse to one ABI on 64-bit targets *)
SlimTargets ==
  { <<"x64-sysv", c>> : c \in {"cdecl", "x64win", "vectorcall", "lightcall2"} } \cup
  { <<"x64-win", c>> : c \in {"cdecl", "vectorcall", "x64sysv"} } \cup
  { <<"x86-sysv", c>> : c \in {"cdecl", "stdcall", "fastcall", "regparm1", "regparm2", "regparm3", "lightcall2"} } \cup
  { <<"x86-win", c>> : c \in {"thiscall", "fastcall"} } \cup
  { <<"a64-aapcs", c>> : c \in {"cdecl", "lightcall2"} } \cup
  { <<"a64-apple", c>> : c \in {"cdecl"} }
AllTargets ==
  { <<"x64-sysv", c>> : c \in {"cdecl", "fastcall", "regparm3", "x64sysv", "x64win", "vectorcall", "lightcall2", "lightcall3", "lightcall4"} } \cup
  { <<"x64-win", c>> : c \in {"cdecl", "stdcall", "thiscall", "x64win", "x64sysv", "vectorcall", "lightcall2"} } \cup
  { <<"x86-sysv", c>> : c \in {"cdecl", "stdcall", "fastcall", "thiscall", "regparm1", "regparm2", "regparm3", "vectorcall", "lightcall2", "lightcall4"} } \cup
  { <<"x86-win", c>> : c \in {"cdecl", "stdcall", "fastcall", "thiscall", "regparm3", "vectorcall"} } \cup
  { <<"a64-aapcs", c>> : c \in {"cdecl", "stdcall", "vectorcall", "regparm2", "lightcall2"} } \cup
  { <<"a64-apple", c>> : c \in {"cdecl", "fastcall", "lightcall3"} }

Targets == IF Slim THEN SlimTargets ELSE AllTargets

X86Types == IF Slim THEN {"i8", "i32", "i64", "f32", "f64", "f32x4", "f64x4", "mmx64", "k16"}
            ELSE {"i8", "u16", "i32", "i64", "u64", "f32", "f64", "f32x4", "i32x4", "f64x4", "f32x16", "i32x2", "mmx64", "k16"}
A64Types == IF Slim THEN {"i8", "i32", "i64", "f32", "f64", "f32x4", "i32x2"}
            ELSE {"i8", "u16", "i32", "i64", "f32", "f64", "f32x4", "i8x16", "i32x2", "f32x2", "i8x4"}
ReducedTypes == IF Slim THEN {"i32", "i64", "f32", "f64", "f32x4"} ELSE {"i32", "i64", "f32", "f64", "f32x4", "i8"}
(* Reduced = "no" | "yes" | "both": "yes" = no prefixes, fewer types, one more argument *)
TypesOfR(env, red) == IF red THEN ReducedTypes ELSE IF env \in {"a64-aapcs", "a64-apple"} THEN A64Types ELSE X86Types
Rep(t, k) == [q \in 1..k |-> t]
(* prefixes that fill the register files (and the positional slots) so that the enumerated suffix lands on the stack *)
Prefixes(env, red) ==
  IF red \/ Long THEN { <<>> }
  ELSE IF env \in {"x64-sysv", "x64-win"}
       THEN (IF Slim THEN { <<>>, Rep("i64", 4), Rep("i64", 6) \o Rep("f64", 8), Rep("f32", 9) }
             ELSE { <<>>, Rep("i64", 4), Rep("i64", 6), Rep("f64", 8), Rep("i64", 6) \o Rep("f64", 8), Rep("f32", 9) })
  ELSE IF env \in {"x86-sysv", "x86-win"} THEN (IF Slim THEN { <<>>, Rep("i32", 3) } ELSE { <<>>, Rep("i32", 3), <<"f32">> })
  ELSE (IF Slim THEN { <<>>, Rep("i64", 8) \o Rep("f64", 8), Rep("i32", 9) }
        ELSE { <<>>, Rep("i64", 8), Rep("f64", 8), Rep("i64", 8) \o Rep("f64", 8), Rep("i32", 9) })

RetTypes(env) == TypesOfR(env, FALSE) \cup {"u8", "i16", "u32", "f64x2", "f32x8"}

Themes == [ ints |-> {"i32", "i64", "i8"}, fps |-> {"f32", "f64"}, vecs |-> {"f32x4", "f64", "i64"},
            odd |-> {"f32", "i32", "f32x4", "i64", "i16"}, wide |-> {"f64x4", "f32", "i32", "f32x16"},
            small |-> {"i8", "u16", "f32", "i32x2"} ]
ThemeNames == DOMAIN Themes

VARIABLES tgt, args, va, ret, theme, k, red
vars == <<tgt, args, va, ret, theme, k, red>>

VaChoices(env) == IF env = "a64-apple" THEN {255, 0, 1, 2, 9} ELSE {255, 1}

Init == /\ tgt \in Targets
        /\ red \in (IF Reduced = "both" THEN {TRUE, FALSE} ELSE {Reduced = "yes"})
        /\ args \in Prefixes(tgt[1], red)
        /\ k = 0
        /\ va \in VaChoices(tgt[1])
        /\ ret \in (IF Long \/ red THEN {"void"} ELSE {"void"} \cup RetTypes(tgt[1]))
        /\ theme \in (IF Long THEN ThemeNames ELSE {"ints"})
        /\ (ret # "void" => va = 255)

Allowed == IF Long THEN Themes[theme] \cap (TypesOfR(tgt[1], FALSE) \cup {"i16", "f32x16", "f64x4", "u16", "i32x2"}) ELSE TypesOfR(tgt[1], red)

Next == /\ k < (IF red THEN MaxArgs + 1 ELSE MaxArgs)
        /\ ret = "void"
        /\ \E t \in Allowed : args' = Append(args, t)
        /\ k' = k + 1
        /\ UNCHANGED <<tgt, va, ret, theme, red>>
Spec == Init /\ [][Next]_vars

Emit == (va = 255 \/ va <= Len(args)) /\ (Long => Len(args) >= 5)
Export == Emit => PrintT(ToJson(<<"SIG", tgt[1], tgt[2], va, ret, args>>))
=============================================================================
