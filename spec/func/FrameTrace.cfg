SPECIFICATION Spec
INVARIANT InvUnderstood
INVARIANT InvAccepted
INVARIANT InvSpDefined
INVARIANT InvNoWriteOutsideFrame
INVARIANT InvAlignedInBody
INVARIANT InvDisjoint
INVARIANT InvStackArgs
INVARIANT InvHomeSlots
INVARIANT InvFrameRecord
INVARIANT InvCompleted
INVARIANT InvSavedRestored
